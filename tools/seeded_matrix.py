#!/usr/bin/env python3
"""runs every seeded change against the check of the property it breaks (scratch copy of /repo/src, never /repo itself) and records
which obligations / stand-ins reported it in seeded/<id>/meta.json and seeded/MATRIX.md"""
import json, os, re, subprocess, sys, glob
HERE = os.path.dirname(os.path.dirname(os.path.abspath(__file__)))
rows = []
only = sys.argv[1:]
if only == ["--from-meta"]:
    # rebuild MATRIX.md from the detected_by entries already recorded in seeded/*/meta.json (after partial re-runs)
    with open(os.path.join(HERE, "seeded", "MATRIX.md"), "w") as f:
        f.write("| seeded change | property | result | reporting obligations |\n|---|---|---|---|\n")
        for d in sorted(glob.glob(os.path.join(HERE, "seeded", "*"))):
            if os.path.isdir(d):
                m = json.load(open(os.path.join(d, "meta.json")))
                db = m.get("detected_by", {})
                obs = ", ".join(sorted(set(o.split("/", 1)[1] if "/" in o else o for o in db.get("obligations", [])))[:4])
                f.write(f"| {m['id']} | {m['property']} | {'DETECTED' if db.get('violations') else ('missed' if db else 'not run')} | {obs} |\n")
    sys.exit(0)
for d in sorted(glob.glob(os.path.join(HERE, "seeded", "*"))):
    if not os.path.isdir(d):
        continue
    meta = json.load(open(os.path.join(d, "meta.json")))
    if only and meta["id"] not in only and meta["property"] not in only:
        continue
    patch = os.path.join(d, "patch.diff")
    out = subprocess.run([os.path.join(HERE, "try_patch.sh"), patch, meta["property"], "quick"], capture_output=True, text=True, env={**os.environ, "LINES_MAX": "40"}).stdout
    obs = re.findall(r"DETAIL: obligation=(\S+)", out)
    viol = len(re.findall(r"^VIOLATION", out, re.M))
    summ = re.findall(r"^\[.*$", out, re.M)
    meta["detected_by"] = {"check": f"./check {meta['property']} --tier quick (against a scratch copy with the patch)", "violations": viol, "obligations": sorted(set(obs))[:8],
                           "summary": summ[-1] if summ else out[-200:]}
    json.dump(meta, open(os.path.join(d, "meta.json"), "w"), indent=1)
    rows.append((meta["id"], meta["property"], "DETECTED" if viol else "missed", ", ".join(sorted(set(o.split("/", 1)[1] if "/" in o else o for o in obs))[:4])))
    print(rows[-1], flush=True)
if not only:
    with open(os.path.join(HERE, "seeded", "MATRIX.md"), "w") as f:
        f.write("| seeded change | property | result | reporting obligations |\n|---|---|---|---|\n")
        for r in rows:
            f.write("| " + " | ".join(r) + " |\n")
