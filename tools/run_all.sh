#!/bin/sh
# runs every registered check (quick unless $1 given) on the real tree, sequentially; prints one summary line per check
cd "$(dirname "$0")/.."
TIER="${1:-quick}"
for p in $(python3 -c "import json;print(' '.join(c['property_id'] for c in json.load(open('MANIFEST.json'))['checks']))"); do
  s=$(date +%s)
  out=$(./check $p --tier $TIER 2>&1); rc=$?
  echo "$p rc=$rc $(($(date +%s)-s))s :: $(echo "$out" | grep '^\[' | tail -1)"
  echo "$out" | grep -E "^VIOLATION|^UNDECIDED|CHECKER-CRASH" | head -5
done
