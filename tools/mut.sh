#!/bin/sh
# dev aid: tools/mut.sh <relative file under src> <sed expression> <pyvc targets...> : verify targets against a mutated scratch copy
f="$1"; e="$2"; shift 2
d=$(mktemp -d /tmp/mutsrc.XXXXXX)
cp -r /repo/src "$d/src"
sed -i "$e" "$d/src/$f"
diff -u "/repo/src/$f" "$d/src/$f" | grep '^[-+]' | grep -v '^[-+][-+]'
cd "$(dirname "$0")/.."
EKW_REPO_SRC="$d/src" PYTHONPATH="$d/src:$(pwd)" timeout 1200 .venv/bin/python -m pyvc.run "$@" 2>&1 | tail -12 | cut -c1-260
rm -rf "$d"
