#!/usr/bin/env python3
"""intake of a sub-agent's seeded change: tools/intake_seed.py <ID e.g. C13-2> <worktree dir> ["needs to manifest" text]
Confirms in the scratch worktree (never /repo): the patch is the worktree's diff, the demo FAILS with it and PASSES without it, the
test-suite result is the same with and without it; then stores seeded/<ID>/ (patch.diff, demo, NOTES.md, meta.json)."""
import json, os, re, shutil, subprocess, sys
HERE = os.path.dirname(os.path.dirname(os.path.abspath(__file__)))
sid, wt = sys.argv[1], sys.argv[2]
needs = sys.argv[3] if len(sys.argv) > 3 else ""
prop = sid.split("-")[0]


def sh(cmd, **kw):
    return subprocess.run(cmd, shell=True, capture_output=True, text=True, **kw)


def tests():
    r = sh(f"cd {wt} && PYTHONPATH={wt}/src timeout 1500 /venv/bin/python -m pytest -q -p no:cacheprovider --timeout=900 --continue-on-collection-errors 2>&1 | tail -60")
    summ = [l for l in r.stdout.splitlines() if re.search(r"\d+ passed", l)]
    failed = sorted(l.split(" - ")[0] for l in r.stdout.splitlines() if l.startswith(("FAILED tests", "ERROR tests")))
    return (summ[-1] if summ else r.stdout[-200:]), failed


diff = sh(f"git -C {wt} diff -- src").stdout
if not diff.strip():
    sys.exit("no change under src in the worktree")
files = re.findall(r"^diff --git a/(\S+)", diff, re.M)
demo = [f for f in os.listdir(wt) if f.startswith("demo_") and f.endswith(".py")]
if not demo:
    sys.exit("no demo script")
demo = demo[0]
with_change = sh(f"cd {wt} && PYTHONPATH={wt}/src timeout 120 /venv/bin/python {demo}")
t_with, f_with = tests()
open("/tmp/_intake.diff", "w").write(diff)
sh(f"git -C {wt} checkout -- src")
try:
    without = sh(f"cd {wt} && PYTHONPATH={wt}/src timeout 120 /venv/bin/python {demo}")
    t_without, f_without = tests()
finally:
    a = sh(f"git -C {wt} apply /tmp/_intake.diff")
    if a.returncode != 0:
        print("WARNING: could not re-apply the patch:", a.stderr)
print("demo with change   : rc", with_change.returncode, (with_change.stdout + with_change.stderr).strip().splitlines()[-1:] )
print("demo without change: rc", without.returncode, (without.stdout + without.stderr).strip().splitlines()[-1:])
print("tests with   :", t_with, f_with)
print("tests without:", t_without, f_without)
ok = with_change.returncode == 1 and without.returncode == 0 and f_with == f_without and re.findall(r"\d+ passed", t_with) == re.findall(r"\d+ passed", t_without)
if not ok:
    sys.exit("NOT CONFIRMED - not stored")
d = os.path.join(HERE, "seeded", sid)
os.makedirs(d, exist_ok=True)
open(os.path.join(d, "patch.diff"), "w").write(diff)
shutil.copy(os.path.join(wt, demo), os.path.join(d, demo))
if os.path.exists(os.path.join(wt, "NOTES.md")):
    shutil.copy(os.path.join(wt, "NOTES.md"), os.path.join(d, "NOTES.md"))
head = sh("git -C /repo rev-parse --short HEAD").stdout.strip()
meta = {"id": sid, "property": prop, "origin": "independent sub-agent (third round: given only the property text, a scratch worktree and a hint which area to prefer)",
        "files": files, "needs_to_manifest": needs,
        "verified_by_me": {"base": f"repo HEAD {head}", "demo_on_original": "exit 0 (PASS)", "demo_on_changed": "exit 1 (FAIL)",
                           "tests_with_change": t_with, "tests_without_change": t_without, "same_failures": f_with,
                           "how": f"scratch worktree {wt}: demo and full pytest run with the patch applied and after `git checkout -- src` (tools/intake_seed.py)"}}
json.dump(meta, open(os.path.join(d, "meta.json"), "w"), indent=1)
print("stored", d)
