#!/usr/bin/env python3
"""writes MANIFEST.json from the table below (kept in one place so that level/technique/notes stay consistent)"""
import json, os
HERE = os.path.dirname(os.path.dirname(os.path.abspath(__file__)))

PYVC_NOTE = ("Trusted base: pyvc (this repo's VC generator: real function ASTs re-read from /repo/src on every run, sidecar contracts in /verif/contracts), "
             "z3 5.1 (cvc5 1.0.3 for z3's unknowns), the CPython semantics pyvc encodes (DESIGN 4), well-typedness of stored data, atomic steps. ")

CHECKS = {
 "C17": ("proof", "contract-based deductive verification: loop-free proof harnesses over the real shm api codec (segment algebra + z3), generated per message class from the source, "
         "and over the real pickle-based encoders/decoders and framing functions with the dependency's round trip as the one assumed law",
         "For every message class found in cascade/shm/api.py and EVERY field valuation: api.ser(m) raises only outside the admitted domain and api.deser(api.ser(m)) == m "
         "(148 verification conditions). With pickle.loads(pickle.dumps(v)) == v ASSUMED (codec_pair in contracts/c17_codecs.py), also proved for every message: "
         "serde.des_message(ser_message(m)) == m; report.deserialize(serialize(r)) == r and deserialize rejects whatever is not a ControllerReport; the frames that ReliableSender.send, "
         "comms.send_data and comms.callback put on their socket, handed as they are to the real Listener._recv_one (Syn not seen before), are accepted and give back exactly the message / payload "
         "(header and value bytes) - 519 further verification conditions. The orjson/pydantic based encodings (gateway JSON, JobInstance) are outside the verifier: "
         "bounded stand-in only (enumerated instances), never counted as proved.",
         PYVC_NOTE + "Assumed: int.to_bytes/from_bytes, ascii encode/decode and slice clamping as axiomatised in pyvc/bytesalg.py; pickle round trip (codec_pair: holds for classes that do not customise their own pickling - a __reduce__/__getstate__ on a message class is outside what the proof sees; the bounded stand-in round-trips every message class through the real pickle with ids containing every separator character the code uses); comms.get_socket (opens a socket); "
         "cloudpickle/orjson/pydantic round-trip plain data (stand-in only)."),
 "C18": ("proof", "contract-based deductive verification of JobRouter (pre/post, whole-view frames, ownership class invariant with ghost owners) by pyvc + z3",
         "JobRouter.__init__/spawn_job (also: a FAILED spawn leaves every existing job as it was)/maybe_update/put_result/get_result/progress_of (shows exactly the stored progress of exactly the jobs named, all when none; unknown job = KeyError), "
         "server.handle_fe (every request is answered with one send and never escapes; an unknown job / dataset gets an error response; a known result is answered with base64 of exactly the stored bytes; "
         "no job's progress, timestamp or results object changes), server.handle_controller (every result a report carries is stored as uploaded, whatever else it carries) and next_uuid verified against contracts whose top clauses quote the property (newest timestamp wins, shutdown keeps progress, "
         "results stored per job+dataset, ids fresh, other jobs untouched); class invariant (one Job per id, one results dict per Job) established and preserved. The history claim follows by induction "
         "over the per-call contract (stated); all report histories up to the bound are also run through the real handle_controller/handle_fe (bounded stand-in).",
         PYVC_NOTE + "Assumed contracts: comms.get_context, router._spawn_subprocess (OS process start); zmq objects are opaque; client.parse_request / serialize_response (pydantic + orjson) and "
         "base64.b64encode are uninterpreted functions (their round trip is C17's bounded part)."),
 "C05": ("exploration", "contract-based deductive verification of the failure chain's functions (exceptional postconditions, call presence through a ghost log, loop invariants) + bounded failure injection through the real chain",
         "Proved for every input: Executor.healthcheck raises iff a child has an exit code / was never started; runner.entrypoint.execute_sequence never lets an exception escape and reports a "
         "TaskFailure for this worker naming the task in hand, last, at most once - and ends with memory.flush() otherwise; Executor.terminate never raises, tells every started worker to shut down "
         "and a live shm server to stop; Executor.recv_loop ends only by terminating and never terminates without having told the controller (ExecutorExit or ExecutorFailure for ANY exception), "
         "and every turn runs the health check then the retry pass; Bridge.recv_events never returns a batch that carried a failure notice (it shuts the executors down and raises), returns only "
         "publications / payloads and never an empty batch. The composition (controller.run, Manager.atexit, real processes, the real runner inside the real worker main loop incl. tasks short of their declared outputs) is exercised by exhaustive failure injection with fake process "
         "handles and an in-memory network - bounded, not proof.",
         PYVC_NOTE + "Assumed contracts: comms.callback, Executor.to_controller, runner.run / RunnerContext.project / PackagesEnv.extend / Memory.flush (may raise anything), shm_client.shutdown, "
         "Bridge.shutdown, ReliableSender.ack/maybe_retry (proved under C06), GraceWatcher (heartbeat bookkeeping). N/A part: wall-clock bound, leaked OS processes / segments after real crashes "
         "(no contract over Python-visible state expresses what the kernel holds)."),
}
BOUNDED = {
 "C01": "bounded exploration (ctrlx) of the real controller.impl.run + scheduler + worker-side execute_sequence/runner/Memory against a simulated cluster; values compared with an independent sequential evaluation",
 "C02": "bounded exploration (ctrlx): dispatch monitors (exactly once, existing free worker, GPU, inputs produced and present-or-in-transfer) computed from Bridge traffic and simulator ground truth",
 "C03": "bounded exploration (ctrlx): deadlock / livelock / bookkeeping-exception / completion monitors on the real controller loop under arbitrary event schedules",
 "C04": "bounded exploration (ctrlx): purge / transfer / fetch monitors (consumers completed, value delivered, nothing outstanding from that host, source holds dataset)",
 "C06": "bounded: real Listener/ReliableSender and the real owner loops over an adversarial in-memory network (drop/duplicate/delay), exhaustive frame shapes",
 "C07": "bounded: two real DataServers + real Listener/send_data over the adversarial network, adversary-scheduled thread-pool jobs",
 "C08": "bounded: real shm Manager + real Disk page code over a fake /dev/shm; exhaustive operation sequences to depth 4/5 + random walks; ground truth kept by the harness",
 "C09": "bounded: same harness as C08 with byte-identity, reader-protection, delayed-purge and eviction-liveness monitors; exhaustive run of the real victim selection (lottery) on all candidate lists up to the bound",
 "C10": "bounded: real graph2job + execute_sequence + runner.run on enumerated graphs and fluent programs (incl. batched reductions built from one payload) with recorder callables (argument positions, output binding, count mismatch)",
 "C11": "bounded: real graph transforms on all small DAGs with adversarial names, compared through a denotation function",
 "C12": "bounded: real serialise/deserialise/JSON/Cascade file on all small DAGs and fluent programs, compared node by node",
 "C13": "bounded: fluent programs to depth 3 evaluated by a reference interpreter and compared with NumPy, a sample of them evaluated a second time after every other program over the same source was built",
 "C14": "bounded: fluent programs and pairs over shared sources; global name table, rebuild determinism, union/lowering checks, operand snapshots",
 "C15": "bounded: every backend operation on arrays / DataArrays / Datasets vs NumPy (incl. bool and narrow integer operands near the limits of their dtype); batchable partitions for every marked function (markers discovered from the source)",
 "C16": "bounded: real precompute on ALL DAG jobs up to the bound vs an independent networkx reference",
 "C19": "bounded: real TaskBuilder/JobBuilder on enumerated signatures, bound values and edge lists, declared types in and out of a subclass relation; persistence snapshots",
}

# properties decided by the bounded stand-in, with a PART of their chain under discharged contracts (the proved part is named; the level stays "exploration")
MIXED = {
 "C01": "Proved by pyvc+z3: the worker-side data path Memory.handle (the value is kept under exactly its dataset id; when published, the serialised value - all of its bytes, with the decoding function "
        "the serialiser chose - is written to shared memory under the dataset's own key and the dataset is announced once, after the buffer is closed, never on failure) and Memory.provide (a held value is "
        "handed out unchanged; otherwise it is fetched under the dataset's own key and decoded with the function stored next to the bytes) - 23 VCs. ser_output/des_output are uninterpreted. ",
 "C02": "Proved by pyvc+z3 (for all inputs): controller.act.act sends exactly the assignment's tasks to the assignment's worker and only transfers datasets into the assignment's host; notify.is_last_output_of. ",
 "C03": "Proved by pyvc+z3: scheduler.core.has_awaitable / has_computable agree with their definitions over the whole State (the loop guard of controller.impl.run); controller.impl.run itself, with every step of the loop "
        "(initialize / assign / act / plan / flush_queues / notify / bridge / reporter) an ASSUMED contract that may change the State arbitrarily and may raise: on every way out of the loop - completion, "
        "an exception from any step - the last two things it does are bridge.shutdown() and reporter.shutdown(), and a normal return hands back the state (68 VCs). ",
 "C04": "Proved by pyvc+z3: notify.consider_purge purges a dataset only when no task that consumes it is still to run / running and it is not a requested output still to be fetched, and touches no other dataset; "
        "notify.consider_fetch queues a fetch only for a requested output not yet fetched; notify.is_last_output_of; Bridge.transmit / fetch / purge / task_sequence put exactly one command on the wire, "
        "to the source's data server (resp. the named host), naming source, target, dataset, the TARGET's data address and an index never used before (75 VCs). ",
 "C06": "Proved by pyvc+z3: Listener._recv_one (malformed frames never escape, well-formed ones are acked once and returned), ReliableSender.send/ack/maybe_retry with the class invariant "
        "(every unacknowledged message stays registered with its address, retries bounded by the budget, ack removes exactly that id; 192 VCs incl. loop invariants for every number of in-flight messages). ",
 "C07": "Proved by pyvc+z3: DataServer.store_payload (an arrival is announced at most once, last, only after allocate(key of the dataset, len(bytes), the SOURCE's decoding function) -> write of exactly "
        "the payload bytes -> close; a redundant transfer is swallowed silently; every failure is reported, nothing raised) and DataServer.send_payload (a payload leaves only for a command addressed from "
        "this host to another, carries dataset id / the decoding function stored with the bytes / the command's index, goes to the commanded address; an opened buffer is always closed) - 47 VCs. "
        "DataServer.maybe_clean (a send whose future is taken off the books without an error has its completion time recorded under its transfer index - the record the retry pass works from; "
        "no future is dropped unseen, for every number of futures and every timing of done()) - 67 VCs. recv_loop (retries, purge races, thread pool) stays bounded; the stand-in's pool "
        "lets a job finish at any instant, also between two polls of one maybe_clean pass. ",
 "C08": "Proved by pyvc+z3: shm Manager.__init__/add/purge/page_out(+callback)/page_in(+callback)/get/close_callback against contracts over the WHOLE dataset map with the ghost aggregate 'used' "
        "(sum of in-memory sizes <= capacity preserved by every operation, nothing but the named key changes; 348 VCs). Assumed: Manager.page_out_at_least (6 of its 29 VCs time out) and the victim lottery. ",
 "C09": "Proved by pyvc+z3: Manager.is_pageoutable/get/close_callback/purge/page_out callback - a dataset with a live reader is never chosen or unlinked, delayed purge happens at the last close (283 VCs); Disk._page_out - the manager is told exactly once, last; success is reported, and the segment unlinked, only after the WHOLE buffer "
        "of that segment was written to its spill file (opened for writing) and the file closed; nothing escapes the pool thread; Disk._page_in - success only after a new segment named after the dataset was created, its spill file opened for reading and the chunks read copied into the segment's buffer back to back from offset 0, each at full length (loop invariant over the event log, any number of chunks) - 42 VCs; algorithms.lottery - changes nothing and never returns more victims than candidates (26 VCs; its clause *every victim is a candidate* stays ASSUMED and is decided by an exhaustive bounded run of the real function). ",
 "C10": "Proved by pyvc+z3: executor.runner.runner.run - the callable is invoked once, first, with every static argument and every upstream value (Memory.provide of the declared source) in its declared "
        "position / under its declared name and nothing else; one output: the result is stored under it; several outputs: the j-th yielded value is stored under the j-th declared output in key order, "
        "one store per output, and a count mismatch raises (task failure); low.func.ensure (84 VCs, loop invariants for every number of arguments / outputs). graph2job/node2task stay bounded. ",
 "C12": "Proved by pyvc+z3/cvc5: what ONE node contributes to the serialised form - graph.nodes.Output.serialise (default output as the parent's name, any other as the pair; the two shapes are "
        "distinguishable), Node.serialise (every output in order in a list of its own, every input under its own name as its serialised reference, no input invented, payload kept iff present), "
        "Node.get_output (the decoder's lookup returns exactly (node, name) or raises) - 49 VCs. The whole-graph round trip (export.deserialise's topological rebuild, JSON, Cascade file) stays bounded. ",
 "C16": "Proved by pyvc+z3: views.dependants and views.param_source (the two views through which precompute, the controller State and the runner read the edge list): consumers / inputs "
        "recorded exactly as the edges state, ill-formed edge rejected (45 VCs, loop invariants for every edge count). decompose/enrich/nearest_common_descendant stay bounded. ",
 "C19": "Proved by pyvc+z3: TaskBuilder.with_values, JobBuilder.with_node/with_edge/get_edge_errors against persistence and exact-error-list contracts (152 VCs). ",
}


def main():
    checks = []
    for pid in [f"C{i:02d}" for i in range(1, 20)]:
        if not os.path.exists(os.path.join(HERE, "checks", pid.lower() + ".py")):
            continue
        if pid in CHECKS:
            cat, tech, text, note = CHECKS[pid]
        else:
            cat, tech = "exploration", BOUNDED[pid]
            text = ("Bounded stand-in of the contract family (DESIGN 3.4): the property's clauses are evaluated as run-time contracts around the REAL functions over an exhaustively "
                    "enumerated space with the bound written into the evidence; labelled bounded, never counted as proved. " + tech)
            if pid in MIXED:
                text = ("PART of the chain is under discharged contracts, the property as a whole is decided by the bounded stand-in. " + MIXED[pid] + text)
                tech = "contract-based deductive verification of the named functions (pyvc + z3/cvc5) + " + tech
            note = (("Proved part: see evidence.obligations; " if pid in MIXED else "Nothing is proved for this property (obligations=0): no contract within pyvc's reach carries it - the bounded stand-in decides; ") + "trusted: the harness's fakes implement the assumed external contracts "
                    "(executor contract / OS / zmq / NumPy); bounds as stated in evidence.coverage.bounded_standins[].bound.")
        checks.append({"property_id": pid, "quick_cmd": f"./check {pid} --tier quick", "thorough_cmd": f"./check {pid} --tier thorough",
                       "evidence_file": f"evidence/{pid}.json", "replay_cmd_template": f"./check {pid} --replay {{path}}", "engine": "pyvc+rtc" if pid in CHECKS or pid in MIXED else "rtc",
                       "level_claimed": {"category": cat, "text": text, "design_ref": f"DESIGN.md section 5 ({pid})"}, "level_note": note, "technique": tech})
    done = {c["property_id"] for c in checks}
    na = [{"property_id": f"C{i:02d}", "reason": "check not built yet in this round (no technique switch intended)"} for i in range(1, 20) if f"C{i:02d}" not in done]
    m = {"version": 1, "setup_cmd": "./setup.sh",
         "hooks": {"guard": "EKW_VERIF", "enable": "no hooks in /repo: contracts are sidecars, fakes are injected by the harness process (DESIGN 8)", "baseline_off_cmd": "./run_baseline.sh",
                   "source_commits": [], "add_only": True},
         "engines": [{"name": "pyvc", "path": "pyvc/", "serves_properties": sorted(set(CHECKS) | set(MIXED)), "kind_free_text": "VC generator: symbolic execution of the real function ASTs against sidecar contracts, z3/cvc5 discharge"},
                     {"name": "rtc", "path": "pyvc/rtc.py + checks/*_bounded.py", "serves_properties": sorted(done), "kind_free_text": "run-time contract monitors and bounded enumerators around the real functions (stand-in, replay vehicle)"},
                     {"name": "ctrlx", "path": "checks/ctrlx.py", "serves_properties": ["C01", "C02", "C03", "C04"], "kind_free_text": "bounded schedule exploration of the real controller against a simulated cluster"}],
         "checks": checks,
         "notes": "exit codes: 0 held, 1 violation (VIOLATION line), 2 undecided without a covering stand-in, 3 checker crash. known_findings.json lists genuine defects of the tree that are reported as KNOWN-FINDING lines.",
         "not_applicable": na}
    json.dump(m, open(os.path.join(HERE, "MANIFEST.json"), "w"), indent=1)
    print("checks:", sorted(done), "na:", [x["property_id"] for x in na])

if __name__ == "__main__":
    main()
