"""C08 / C09 - the shared-memory Manager.

Abstract view: resident(d) = d.status in {created, in_memory, paging_out, paged_in};  ghost aggregate
    used = sum of d.size over the datasets held in Manager.datasets that are resident
maintained by the executor at every write of Dataset.status / Dataset.size and every insert / removal on Manager.datasets
(its defining update rule; that the rule computes the sum is the textbook induction, stated as an assumption).
Class invariant WF (established by __init__, preserved by every operation and every page-job callback):
    W1  free_space + used == capacity, free_space >= 0, sizes >= 0          (C08: never over-committed, reported free space exact)
    W2  one Dataset object per key                                             (ownership)
    W3  pageout_all is locked  <=>  pageout_count > 0                         (C09: eviction is never disabled for ever)
"""
PROPERTY = "C08"

field_types("cascade.shm.dataset:Manager", datasets="dict[str, Dataset]", capacity="int", free_space="int", pageout_count="int",
            pageout_all="Lock", pageout_one="Lock", prefix="str", disk="Disk")
stub_class("Disk")
owning("datasets")
owned_field("ongoing_reads")
aggregate("used", over="datasets", cls="Dataset", module="cascade.shm.dataset", fields=["status", "size"],
          contrib=lambda d: d.size if (d.status == DatasetStatus.created or d.status == DatasetStatus.in_memory
                                        or d.status == DatasetStatus.paging_out or d.status == DatasetStatus.paged_in) else 0)
external_returns(hexdigest="str", uuid4="str")
external_raises(SharedMemory=["FileNotFoundError"], unlink=["FileNotFoundError"], close=["OSError"])
inline("cascade.shm.func:assert_never")
treat_as_record("cascade.shm.algorithms:Entity")


@spec
def resident(d):
    return (d.status == DatasetStatus.created or d.status == DatasetStatus.in_memory
            or d.status == DatasetStatus.paging_out or d.status == DatasetStatus.paged_in)


@class_invariant("cascade.shm.dataset:Manager")
def _(self):
    holds(self.free_space + agg("used") == self.capacity and self.free_space >= 0 and agg("used") >= 0, tag="W1-free-plus-resident-equals-capacity", top=True)
    holds(forall(str, lambda k: implies(k in self.datasets, key_of(self.datasets[k], "datasets") == k and held(self.datasets[k], "datasets")
                                        and self.datasets[k].size >= 0
                                        and same(owner_of(self.datasets[k].ongoing_reads, "ongoing_reads"), self.datasets[k]))),
          tag="W2-one-dataset-object-per-key")
    holds(locked(self.pageout_all) == (self.pageout_count > 0) and not locked(self.pageout_one), tag="W3-eviction-lock-held-iff-jobs-pending", top=True)


@assumed("cascade.shm.disk:Disk.__init__")
def _(self):
    # creates the spill directory and two thread pools: outside the property
    modifies("root", "readers", "writers", "events")


@assumed("cascade.shm.dataset:get_capacity")
def _():
    # what findmnt reports for /dev/shm: some non-negative number of bytes
    ensures(result() >= 0)
    modifies()


@contract("cascade.shm.dataset:Manager.__init__")
def _(self, prefix, capacity):
    requires(capacity is None or typed(capacity, int) >= 0)
    # the store starts empty with ALL of its (possibly trimmed) capacity free: W1 is established
    ensures(len(self.datasets) == 0 and self.free_space == self.capacity and self.pageout_count == 0, tag="starts-empty-with-capacity-free", top=True)
    ensures(implies(capacity is not None and typed(capacity, int) > 0, self.capacity <= typed(capacity, int)), tag="never-more-than-configured", top=True)
    modifies("datasets", "capacity", "free_space", "pageout_all", "pageout_one", "pageout_count", "disk", "prefix", "locked", "events", "root", "readers", "writers")


@contract("cascade.shm.dataset:Dataset.is_pageoutable", prop="C09")
def _(self, ref_time):
    # "neither paged out nor unlinked while a reader (younger than the staleness window) still holds it": evictable only when
    # being written for too long, or readable with no reader younger than the window
    ensures(implies(result(), (self.status == DatasetStatus.created and ref_time - self.created > STALE_CREATE)
                    or (self.status == DatasetStatus.in_memory
                        and forall(str, lambda r: implies(r in self.ongoing_reads, ref_time - self.ongoing_reads[r] > STALE_READ)))),
            tag="evictable-only-without-fresh-reader", top=True)
    modifies()


@contract("cascade.shm.dataset:Manager.add")
def _(self, key, size, deser_fun):
    requires(size >= 0)
    present = key in self.datasets
    # "a request that does not fit is answered 'wait' (or refused outright if larger than the capacity) and never granted early"
    ensures(implies(old(present), result() == ("", "conflict")), tag="existing-key-is-a-conflict")
    ensures(implies(not old(present) and size > self.capacity, result() == ("", "capacity exceeded") and self.free_space == old(self.free_space)),
            tag="larger-than-capacity-refused", top=True)
    ensures(implies(not old(present) and size <= self.capacity and size > old(self.free_space),
                    result() == ("", "wait") and key not in self.datasets and self.free_space == old(self.free_space)),
            tag="does-not-fit-answered-wait", top=True)
    ensures(implies(not old(present) and size <= old(self.free_space),
                    typed(result(), tuple[str, str])[1] == "" and key in self.datasets and self.datasets[key].size == size
                    and self.datasets[key].status == DatasetStatus.created and self.datasets[key].deser_fun == deser_fun
                    and self.free_space == old(self.free_space) - size),
            tag="granted-only-when-it-fits", top=True)
    ensures(forall(str, lambda k: implies(k != key, (k in self.datasets) == old(k in self.datasets)
                                          and implies(k in self.datasets, same(self.datasets[k], old(self.datasets[k]))))), tag="other-keys-untouched")
    modifies(self.datasets, "free_space", "events", "status", "pageout_count", "locked", "shmid", "size", "created", "ongoing_reads", "retrieved_first",
             "retrieved_last", "deser_fun", "delayed_purge")


@assumed("cascade.shm.algorithms:lottery")
def _(entities, amount):
    # selection of eviction victims: every winner is the key of a candidate, no key twice (order and choice are free).
    # ASSUMED here (the three sorted(key=lambda..) passes are outside pyvc's subset); exercised by the shm stand-in.
    types(entities="list[Entity]")
    ensures(forall(int, lambda i: implies(0 <= i and i < len(result()),
                                          0 <= sk("cand", i) and sk("cand", i) < len(entities) and entities[sk("cand", i)].key == result()[i])),
            tag="winners-are-candidates")   # sk("cand", i): index of the candidate that winner i comes from (witness of the existential)
    ensures(forall(int, int, lambda a, b: implies(0 <= a and a < b and b < len(result()), result()[a] != result()[b])), tag="winners-distinct")
    modifies()


@contract("cascade.shm.dataset:Manager.page_out")
def _(self, key):
    requires(key in self.datasets and resident(self.datasets[key]))
    ensures(self.datasets[key].status == DatasetStatus.paging_out, tag="marked-paging-out")
    ensures(forall(str, lambda k: (k in self.datasets) == old(k in self.datasets) and implies(k in self.datasets, same(self.datasets[k], old(self.datasets[k]))
                                                                                              and implies(k != key, self.datasets[k].status == old(self.datasets[k].status)))),
            tag="only-that-dataset")
    ensures(self.free_space == old(self.free_space) and self.pageout_count == old(self.pageout_count))
    option(no_class_invariant_pre=True, no_class_invariant_post=True)   # called in the middle of page_out_at_least, between the W3 updates
    requires(self.free_space + agg("used") == self.capacity and self.free_space >= 0)
    requires(forall(str, lambda k: implies(k in self.datasets, key_of(self.datasets[k], "datasets") == k and held(self.datasets[k], "datasets"))))
    ensures(self.free_space + agg("used") == self.capacity, tag="W1-kept")
    modifies("status", "events")


@contract("cascade.shm.dataset:Manager.page_out.<locals>.callback")
def _(ok):
    captures(self="Manager", ds="Dataset", key="str")
    # EA1 (known finding 'stale-pageout-after-purge' when violated): the dataset is still the one filed under `key` and still paging out
    requires(key in self.datasets and same(self.datasets[key], ds) and ds.status == DatasetStatus.paging_out and self.pageout_count >= 1)
    # a successful page-out frees exactly the dataset's size; a failed one drops the dataset
    ensures(implies(ok, ds.status == DatasetStatus.on_disk and self.free_space == old(self.free_space) + ds.size), tag="successful-pageout-credits-its-size", top=True)
    ensures(self.pageout_count == old(self.pageout_count) - 1, tag="one-job-accounted")
    modifies("status", "free_space", "pageout_count", "locked", self.datasets, "events", "delayed_purge")


@contract("cascade.shm.dataset:Manager.page_in")
def _(self, key):
    requires(key in self.datasets and self.datasets[key].status == DatasetStatus.on_disk and self.datasets[key].size <= self.free_space)
    ensures(self.datasets[key].status == DatasetStatus.paged_in and self.free_space == old(self.free_space) - self.datasets[key].size,
            tag="page-in-reserves-its-size", top=True)
    ensures(forall(str, lambda k: (k in self.datasets) == old(k in self.datasets) and implies(k in self.datasets, same(self.datasets[k], old(self.datasets[k])))))
    modifies("status", "free_space", "events")


@contract("cascade.shm.dataset:Manager.page_in.<locals>.callback")
def _(ok):
    captures(self="Manager", ds="Dataset", key="str")
    requires(key in self.datasets and same(self.datasets[key], ds) and ds.status == DatasetStatus.paged_in)
    ensures(implies(ok, ds.status == DatasetStatus.in_memory and self.free_space == old(self.free_space)), tag="page-in-completion-keeps-accounting", top=True)
    modifies("status", "free_space", self.datasets, "events", "delayed_purge", "locked")


@assumed("cascade.shm.dataset:Manager.page_out_at_least", prop="C09")  # NOT discharged yet (6 VCs time out: chain lottery -> comprehension -> is_pageoutable); used at call sites as an assumption, decided by the shm stand-in
def _(self, amount):
    # eviction marks only evictable datasets, and leaves the lock consistent with the number of jobs it started
    ensures(forall(str, lambda k: (k in self.datasets) == old(k in self.datasets) and implies(k in self.datasets, same(self.datasets[k], old(self.datasets[k])))),
            tag="no-dataset-appears-or-disappears")
    ensures(self.free_space == old(self.free_space), tag="eviction-start-frees-nothing-yet", top=True)
    # eviction only ever moves a dataset to 'paging_out', and only one that was resident (written or being written)
    ensures(forall(str, lambda k: implies(k in self.datasets and self.datasets[k].status != old(self.datasets[k].status),
                                          self.datasets[k].status == DatasetStatus.paging_out and old(resident(self.datasets[k])))),
            tag="eviction-only-marks-resident-datasets", top=True)
    invariant(0, forall(str, lambda k: (k in self.datasets) == old(k in self.datasets) and implies(k in self.datasets, same(self.datasets[k], old(self.datasets[k]))
                                       and implies(old(resident(self.datasets[k])), resident(self.datasets[k]))
                                       and implies(self.datasets[k].status != old(self.datasets[k].status), self.datasets[k].status == DatasetStatus.paging_out)
                                       and key_of(self.datasets[k], "datasets") == k and held(self.datasets[k], "datasets")))
              and self.free_space == old(self.free_space) and self.free_space + agg("used") == self.capacity and self.free_space >= 0
              and self.pageout_count == len(winners) and len(winners) > 0 and locked(self.pageout_all) and not locked(self.pageout_one))
    modifies("status", "pageout_count", "locked", "events")


@contract("cascade.shm.dataset:Manager.purge")
def _(self, key, is_exit):
    requires(not is_exit)
    # "a purge during a read takes effect when the last reader closes": with readers the dataset stays, flagged
    ensures(implies(old(key in self.datasets) and old(len(self.datasets[key].ongoing_reads)) > 0,
                    key in self.datasets and self.datasets[key].delayed_purge and self.free_space == old(self.free_space)),
            tag="purge-with-readers-is-deferred", top=True)
    # free space is credited only together with the removal of a resident dataset, by exactly its size
    ensures(implies(old(key in self.datasets) and key not in self.datasets, self.free_space == old(self.free_space) + old(self.datasets[key].size)),
            tag="purge-credits-exactly-the-removed-size", top=True)
    ensures(implies((key in self.datasets) == old(key in self.datasets), self.free_space == old(self.free_space)), tag="no-credit-without-removal", top=True)
    ensures(forall(str, lambda k: implies(k != key, (k in self.datasets) == old(k in self.datasets)
                                          and implies(k in self.datasets, same(self.datasets[k], old(self.datasets[k]))))), tag="other-keys-untouched")
    ensures(self.pageout_count == old(self.pageout_count) and locked(self.pageout_all) == old(locked(self.pageout_all)))
    # a dataset that stays is the same object with the same status
    ensures(forall(str, lambda k: implies(k in self.datasets, same(self.datasets[k], old(self.datasets[k])) and self.datasets[k].status == old(self.datasets[k].status))),
            tag="kept-datasets-keep-their-status")
    modifies(self.datasets, "free_space", "delayed_purge", "events", "locked")


@contract("cascade.shm.dataset:Manager.close_callback", prop="C09")
def _(self, key, rdid):
    ds = self.datasets[key]
    may_raise(KeyError, when=key not in self.datasets)
    # "a dataset is not readable before its writer has finished": only the writer's close makes it readable, and only from 'created'
    raises(ValueError, when=key in self.datasets and ((rdid == "" and ds.status != DatasetStatus.created) or (rdid != "" and ds.status != DatasetStatus.in_memory)),
           tag="invalid-transition-rejected", top=True)
    ensures(implies(rdid == "" and key in self.datasets, ds.status == DatasetStatus.in_memory), tag="writer-close-makes-readable", top=True)
    ensures(implies(rdid != "" and key in self.datasets, rdid not in ds.ongoing_reads), tag="reader-close-removes-that-reader", top=True)
    ensures(self.pageout_count == old(self.pageout_count))
    modifies(self.datasets, "status", "free_space", "delayed_purge", "events", "locked", self.datasets[key].ongoing_reads)


@contract("cascade.shm.dataset:Manager.get", prop="C09")
def _(self, key):
    ds = self.datasets[key]
    may_raise(KeyError, when=key not in self.datasets)
    st0 = old(ds.status)
    r = typed(result(), tuple[str, int, str, str, str])
    # "not readable before its writer has finished" / while moving between memory and disk: the answer is 'wait'
    ensures(implies(st0 != DatasetStatus.in_memory, r[4] == "wait" and forall(str, lambda x: (x in ds.ongoing_reads) == old(x in ds.ongoing_reads))),
            tag="only-in-memory-datasets-are-readable", top=True)
    ensures(implies(st0 == DatasetStatus.in_memory, r[4] == "" and r[0] == ds.shmid and r[1] == ds.size and r[3] == ds.deser_fun
                    and r[2] in ds.ongoing_reads and not old(r[2] in ds.ongoing_reads)
                    and forall(str, lambda x: implies(x != r[2], (x in ds.ongoing_reads) == old(x in ds.ongoing_reads)))),
            tag="read-registers-a-fresh-reader", top=True)
    # "while a reader (younger than the staleness window) still holds it": the window is counted from THIS read - the reader is registered with
    # the clock reading taken for this call, never with an older time; the first / last access times (what the eviction order looks at) follow it
    observes(now="time_ns")
    ensures(implies(st0 == DatasetStatus.in_memory, ds.ongoing_reads[r[2]] == now and ds.retrieved_last == now
                    and ds.retrieved_first == (now if old(ds.retrieved_first) == 0 else old(ds.retrieved_first))),
            tag="reader-registered-with-the-time-of-this-read", top=True)
    invariant(0, True)
    modifies("status", "free_space", "pageout_count", "locked", "events", "retrieved_first", "retrieved_last", self.datasets[key].ongoing_reads)
