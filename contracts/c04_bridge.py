"""C04 / C07 - what the controller's bridge puts on the wire for a command.  (contracts/c04_controller.py ASSUMES the event-logging
view of Bridge.transmit / task_sequence when it verifies controller.act; here the bridge functions themselves are under contract.)"""
PROPERTY = "C04"

field_types("cascade.executor.bridge:Bridge", sender="ReliableSender", mlistener="Listener", transmit_idx_counter="int")
field_types("cascade.executor.comms:ReliableSender", hosts="dict[str, tuple[zmq.Socket, str]]")
field_types("cascade.executor.comms:Listener", address="str")
inline("cascade.executor.bridge:Bridge._send")


@assumed("cascade.executor.comms:ReliableSender.send")
def _(self, host, m):
    logs("send", host, m)
    may_raise(Exception, True)
    modifies()


@contract("cascade.executor.bridge:Bridge.transmit")
def _(self, ds, source, target):
    n0 = old(events_len())
    c0 = old(self.transmit_idx_counter)
    # one command, to the SOURCE host's data server, naming source, target, the dataset, the TARGET data server's address, and an
    # index no earlier command of this run carries
    ensures(events_len() == n0 + 1 and same(event(n0), ev("send", "data." + source,
                                                         DatasetTransmitCommand(source, target, self.sender.hosts["data." + target][1], ds, c0))),
            tag="one-command-to-the-source-data-server", top=True)
    ensures(self.transmit_idx_counter == c0 + 1, tag="index-never-reused", top=True)
    ensures_raise(Exception, self.transmit_idx_counter >= c0, tag="index-never-reused-on-failure")
    raises(KeyError, ("data." + target) not in self.sender.hosts, tag="unknown-target-rejected")
    may_raise(Exception, True)
    modifies("transmit_idx_counter", "events")


@contract("cascade.executor.bridge:Bridge.fetch")
def _(self, ds, source):
    n0 = old(events_len())
    c0 = old(self.transmit_idx_counter)
    ensures(events_len() == n0 + 1 and same(event(n0), ev("send", "data." + source, DatasetTransmitCommand(source, "controller", self.mlistener.address, ds, c0))),
            tag="one-fetch-command-to-the-source-data-server", top=True)
    ensures(self.transmit_idx_counter == c0 + 1, tag="index-never-reused", top=True)
    ensures_raise(Exception, self.transmit_idx_counter >= c0, tag="index-never-reused-on-failure")
    may_raise(Exception, True)
    modifies("transmit_idx_counter", "events")


@contract("cascade.executor.bridge:Bridge.purge")
def _(self, host, ds):
    n0 = old(events_len())
    ensures(events_len() == n0 + 1 and same(event(n0), ev("send", host, DatasetPurge(ds))), tag="one-purge-to-the-named-host", top=True)
    may_raise(Exception, True)
    modifies("events")


@contract("cascade.executor.bridge:Bridge.task_sequence")
def _(self, taskSequence):
    n0 = old(events_len())
    ensures(events_len() == n0 + 1 and same(event(n0), ev("send", taskSequence.worker.host, taskSequence)), tag="sequence-sent-to-the-workers-host", top=True)
    may_raise(Exception, True)
    modifies("events")
