"""C05, controller side - Bridge.recv_events: a failure notice ends the run with an error, after the executors were told to shut down.
(separate sidecar: here ReliableSender is an ordinary object whose `hosts` table the bridge edits; in c05_failures.py it is an external boundary)"""
PROPERTY = "C05"

external_class("cascade.executor.comms:Listener")
external_returns(recv_messages="list[Message]")
external_raises(recv_messages=["ValueError"])
field_types("cascade.executor.comms:ReliableSender", hosts="dict[str, tuple[zmq.Socket, str]]", inflight="dict[int, _InFlightRecord]",
            idx="int", resend_grace="int", address="str")


@assumed("cascade.executor.comms:ReliableSender.ack")
def _(self, idx):
    # C06 proves its contract; here only its frame matters
    modifies(self.inflight)


@assumed("cascade.executor.comms:ReliableSender.maybe_retry")
def _(self):
    logs("maybe_retry")     # ghost marker (call presence in the waiting loop of recv_events)
    may_raise(ValueError, when=True)
    modifies("at", "remaining", "events")


# heartbeat bookkeeping is outside the property: is_breach / elapsed_ms are uninterpreted functions of the watcher (is_breach's write to its
# own log_time_ms, a field nothing in recv_events reads, is ignored - stated as an assumption)
pure_function("cascade.executor.comms:GraceWatcher.is_breach", returns="int", module="cascade.executor.comms")
pure_function("cascade.executor.comms:GraceWatcher.elapsed_ms", returns="int", module="cascade.executor.comms")
assumption("GraceWatcher.is_breach is treated as a pure function in Bridge.recv_events (its rate-limiting write to log_time_ms is ignored)")


# ---- controller side: a failure notice received by the bridge ends the run with an error ----------------------------------------------
inline("cascade.low.func:assert_never")
field_types("cascade.executor.bridge:Bridge", mlistener="Listener", sender="ReliableSender", heartbeat_checker="dict[str, GraceWatcher]",
            transmit_idx_counter="int")


@spec
def is_failure_notice(m):
    # the messages after which the run can not go on: a task / executor / transfer failed, an executor left - or a message the controller
    # must never receive
    return (isinstance(m, TaskFailure) or isinstance(m, ExecutorFailure) or isinstance(m, DatasetTransmitFailure) or isinstance(m, ExecutorExit)
            or isinstance(m, TaskSequence) or isinstance(m, DatasetPurge) or isinstance(m, DatasetTransmitCommand) or isinstance(m, ExecutorShutdown))


@assumed("cascade.executor.comms:ReliableSender.send")
def _(self, host, m):
    # C06 proves its contract; here: one ghost entry per message handed to the acknowledged sender
    logs("send", host, m)
    may_raise(KeyError, when=host not in self.hosts)
    modifies(self.inflight, "idx", "events", "host", "message", "clazz", "at", "remaining")


inline("cascade.executor.bridge:Bridge._send")


@contract("cascade.executor.bridge:Bridge.shutdown", also=["C03"])
def _(self):
    hosts = self.sender.hosts
    # "... and then shuts the executors down" / "the executor processes exit": every registered executor (an entry of the host table that is not
    # a data-server alias) is sent ExecutorShutdown through the acknowledged sender - and nobody else is
    ensures(forall(str, lambda h: implies(old(h in hosts) and not h.startswith("data."), logged(ev("send", h, ExecutorShutdown())))),
            tag="every-executor-is-told-to-shut-down", top=True)
    logs("bridge_shutdown")    # ghost marker for callers (recv_events, controller.run)
    may_raise(KeyError, when=True)      # an exit notice of a host whose data alias is not registered
    may_raise(ValueError, when=True)    # the listener rejects a malformed frame
    invariant(0, forall(str, lambda h: implies(h in loop0_seen and not h.startswith("data."), logged(ev("send", h, ExecutorShutdown()))))
              and forall(str, lambda h: (h in hosts) == old(h in hosts)))
    invariant(1, forall(str, lambda h: implies(old(h in hosts) and not h.startswith("data."), logged(ev("send", h, ExecutorShutdown())))))
    invariant(2, forall(str, lambda h: implies(old(h in hosts) and not h.startswith("data."), logged(ev("send", h, ExecutorShutdown())))))
    modifies(self.sender.hosts, self.sender.inflight, "idx", "events", "host", "message", "clazz", "at", "remaining")


@assumed("cascade.executor.comms:GraceWatcher.step")
def _(self):
    modifies("step_time_ms")


@contract("cascade.executor.bridge:Bridge.recv_events")
def _(self):
    # "If a task raises, or a worker process ... dies ..., the controller's run still ends ... with an error": a batch that carries a
    # failure notice never comes back as a normal list of events - recv_events shuts the executors down and raises
    may_raise(ValueError, when=True)
    may_raise(KeyError, when=True)   # from shutdown(): an exit notice of a host whose "data." alias is not registered (hosts are registered in pairs; that pairing is not tracked here)
    # (two obligations compose to it: the inner loop's invariant - a failure notice among the messages handled so far sets shutdown_reason,
    #  and nothing clears it - and this one: a normal return happens only with shutdown_reason unset)
    ensures(shutdown_reason is None, tag="returns-only-without-a-failure-notice", top=True)
    ensures_raise(ValueError, logged(ev("bridge_shutdown")), tag="executors-are-shut-down-before-the-error", top=True)
    # only publications and payloads are handed to the controller, and never an empty batch (the controller would spin)
    ensures(len(result()) > 0 and forall(int, lambda i: implies(0 <= i and i < len(result()),
                                                             isinstance(result()[i], DatasetPublished) or isinstance(result()[i], DatasetTransmitPayload))),
            tag="returns-a-non-empty-batch-of-events", top=True)
    invariant(0, forall(int, lambda i: implies(0 <= i and i < len(events), isinstance(events[i], DatasetPublished) or isinstance(events[i], DatasetTransmitPayload))))
    # C06: "if it can not be delivered the sender raises after a bounded number of retries": while the controller WAITS it keeps driving the retry
    # pass - every turn of the waiting loop ends with maybe_retry (a lost command is resent, or reported, also when no event ever arrives)
    invariant(0, events_len() == old(events_len()) or ev_name(event(events_len() - 1)) == "maybe_retry", tag="every-turn-of-the-wait-drives-the-retry-pass")
    invariant(1, forall(int, lambda i: implies(0 <= i and i < len(events), isinstance(events[i], DatasetPublished) or isinstance(events[i], DatasetTransmitPayload))))
    invariant(1, forall(int, lambda i: implies(0 <= i and i < loop1_index and is_failure_notice(loop1_iter[i]), shutdown_reason is not None)))
    invariant(2, True)
    modifies("events", "step_time_ms", "log_time_ms", "at", "remaining", self.sender.hosts, self.sender.inflight)
