"""C05 - a failing task or dying worker-side process fails the run, never hangs it.

Exceptional postconditions and call-presence obligations along the failure-propagation chain.
"""
PROPERTY = "C05"

field_types("cascade.executor.executor:Executor", workers="dict[WorkerId, ProcHandle | None]", shm_process="ProcHandle",
            data_server="ProcHandle", heartbeat_watcher="GraceWatcher", host="str", terminating="bool")


@spec
def bad(code):
    # a child has died: it has an exit code at all (children are only stopped by terminate(), which ends the loop that
    # calls healthcheck - so also a clean exit, e.g. sys.exit(0) inside a task body, is a death as far as the run goes)
    return code is not None


@assumed("cascade.executor.comms:GraceWatcher.is_breach")
def _(self):
    modifies("step_time_ms", "log_time_ms")


@assumed("cascade.executor.comms:GraceWatcher.elapsed_ms")
def _(self):
    modifies()


@assumed("cascade.executor.executor:Executor.to_controller")
def _(self, m):
    modifies("events", "step_time_ms")


@contract("cascade.executor.executor:Executor.healthcheck")
def _(self):
    dead_worker = exists(WorkerId, lambda w: w in self.workers and (self.workers[w] is None or bad(typed(self.workers[w], ProcHandle).exitcode)))
    dead_helper = bad(self.shm_process.exitcode) or bad(self.data_server.exitcode)
    # "if a worker process, the host's data server or its shared-memory server dies while the executor that owns it is
    #  alive, the run still ends ... with an error": the healthcheck must raise (recv_loop turns that into ExecutorFailure)
    raises(ValueError, when=dead_worker or dead_helper, tag="dead-child-is-reported", top=True)
    invariant(0, forall(WorkerId, lambda w: implies(w in loop0_seen, self.workers[w] is not None
                                                   and not bad(typed(self.workers[w], ProcHandle).exitcode))))
    modifies("events", "step_time_ms", "log_time_ms")
