"""C05 - a failing task or dying worker-side process fails the run, never hangs it.

Exceptional postconditions and call-presence obligations along the failure-propagation chain.
"""
PROPERTY = "C05"

field_types("cascade.executor.executor:Executor", workers="dict[WorkerId, ProcHandle | None]", shm_process="ProcHandle",
            data_server="ProcHandle", heartbeat_watcher="GraceWatcher", host="str", terminating="bool")


@spec
def bad(code):
    # a child has died: it has an exit code at all (children are only stopped by terminate(), which ends the loop that
    # calls healthcheck - so also a clean exit, e.g. sys.exit(0) inside a task body, is a death as far as the run goes)
    return code is not None


@assumed("cascade.executor.comms:GraceWatcher.is_breach")
def _(self):
    modifies("step_time_ms", "log_time_ms")


@assumed("cascade.executor.comms:GraceWatcher.elapsed_ms")
def _(self):
    modifies()


@assumed("cascade.executor.executor:Executor.to_controller")
def _(self, m):
    # hands m to the acknowledged sender (C06); ghost log entries: the message itself, and whether it is a failure / exit notice
    logs("to_controller", m)
    logs("to_controller_is_failure", isinstance(m, ExecutorFailure))
    logs("to_controller_is_exit", isinstance(m, ExecutorExit))
    modifies("events", "step_time_ms")


@contract("cascade.executor.executor:Executor.healthcheck")
def _(self):
    dead_worker = exists(WorkerId, lambda w: w in self.workers and (self.workers[w] is None or bad(typed(self.workers[w], ProcHandle).exitcode)))
    dead_helper = bad(self.shm_process.exitcode) or bad(self.data_server.exitcode)
    # "if a worker process, the host's data server or its shared-memory server dies while the executor that owns it is
    #  alive, the run still ends ... with an error": the healthcheck must raise (recv_loop turns that into ExecutorFailure)
    raises(ValueError, when=dead_worker or dead_helper, tag="dead-child-is-reported", top=True)
    invariant(0, forall(WorkerId, lambda w: implies(w in loop0_seen, self.workers[w] is not None
                                                   and not bad(typed(self.workers[w], ProcHandle).exitcode))))
    logs("healthcheck")   # ghost marker appended at call sites (call presence in recv_loop); the function itself is not asked to log it
    modifies("events", "step_time_ms", "log_time_ms")


# ---- worker side: a task that raises is REPORTED (TaskFailure to the executor), never swallowed, never propagated into the worker loop ------
treat_as_record("cascade.executor.runner.runner:ExecutionContext")


@assumed("cascade.executor.runner.packages:PackagesEnv.extend")
def _(self, packages):
    # installs the task's extra packages: may fail like any other step of the sequence
    may_raise(Exception, when=True)
    modifies()


@assumed("cascade.executor.runner.entrypoint:RunnerContext.project")
def _(self, taskSequence):
    # the per-sequence view of the job (tasks, parameter sources): a failure here (unknown task ..) is an exception like any other
    may_raise(Exception, when=True)
    modifies()


@assumed("cascade.executor.runner.runner:run")
def _(taskId, executionContext, memory):
    # running a task: may raise whatever the task body or the output handling raises (C10 has its contract); logged for call-presence
    # (ONE log entry stands for the whole run of the task: what happens inside is C10's business)
    logs("run", taskId)
    may_raise(Exception, when=True)
    modifies()


@assumed("cascade.executor.runner.memory:Memory.flush")
def _(self):
    logs("flush")
    may_raise(Exception, when=True)
    modifies()


@assumed("cascade.executor.comms:callback")
def _(address, msg):
    logs("callback", address, msg)
    modifies()


@contract("cascade.executor.runner.entrypoint:execute_sequence")
def _(taskSequence, memory, pckg, runnerContext):
    n0 = old(events_len())
    last = event(events_len() - 1)
    failed = ev_name(last) == "callback"
    # "if a task raises ... the run still ends ... with an error": whatever goes wrong while the sequence runs, execute_sequence itself
    # returns normally (the worker loop survives) and the LAST thing it does is then to report a TaskFailure for this worker to the executor;
    # a sequence that ran through ends with memory.flush() and reports no failure
    option(exceptions_top=True)   # no may_raise clause: ANY exception escaping execute_sequence is a failed top-level obligation
    ensures(forall(int, lambda j: implies(n0 <= j and j < events_len() - 1, ev_name(event(j)) != "callback")), tag="at-most-one-report-and-last", top=True)
    ensures(implies(failed, ev_argc(last, 2) and same(ev_arg(last, 0), runnerContext.callback)
                    and isinstance(ev_arg(last, 1), TaskFailure) and typed(ev_arg(last, 1), TaskFailure).worker == taskSequence.worker),
            tag="failure-is-reported-to-the-executor-for-this-worker", top=True)
    # the report names the task in hand: with R tasks started (R "run" entries), it is the R-th one (it raised, or flushing after it did) or
    # the (R+1)-th one (its preparation raised); None only when nothing was started
    flushed = events_len() - 2 >= n0 and ev_name(event(events_len() - 2)) == "flush"
    R = events_len() - 1 - n0 - (1 if flushed else 0)
    named = typed(ev_arg(last, 1), TaskFailure).task
    ensures(implies(failed and R == 0, named is None or (len(taskSequence.tasks) > 0 and same(named, taskSequence.tasks[0]))), tag="report-names-the-task-in-hand-none-started", top=True)
    ensures(implies(failed and R >= 1, R <= len(taskSequence.tasks) and (same(named, taskSequence.tasks[R - 1]) or (R < len(taskSequence.tasks) and same(named, taskSequence.tasks[R])))),
            tag="report-names-the-task-in-hand", top=True)
    ensures(implies(failed, typed(ev_arg(last, 1), TaskFailure).task is None
                    or exists(int, lambda i: 0 <= i and i < len(taskSequence.tasks) and taskSequence.tasks[i] == typed(ev_arg(last, 1), TaskFailure).task)),
            tag="report-names-a-task-of-the-sequence", top=True)
    # no failure reported => every task of the sequence was run, in order, and the memory was flushed afterwards
    ensures(implies(not failed, events_len() >= n0 + 1 and ev_name(last) == "flush"), tag="success-ends-with-flush", top=True)
    invariant(0, events_len() == n0 + loop0_index and forall(int, lambda j: implies(n0 <= j and j < events_len(), ev_name(event(j)) == "run")))
    invariant(0, implies(loop0_index == 0, taskId is None))
    invariant(0, implies(loop0_index > 0, events_len() > n0 and same(event(events_len() - 1), ev("run", taskId))
                         and same(taskId, taskSequence.tasks[loop0_index - 1])))
    modifies("events")


# ---- executor side: terminate() stops every child it started and never raises ---------------------------------------------------------
stub_class("ProcHandle", exitcode="int | None", pid="int")
external_returns(is_alive="bool")


pure_function("cascade.executor.runner.entrypoint:worker_address", returns="str", module="cascade.executor.executor")   # the ipc address derived from a worker id (f-string over repr)


@assumed("cascade.shm.client:shutdown")
def _():
    logs("shm_shutdown")
    may_raise(Exception, when=True)
    modifies()


@contract("cascade.executor.executor:Executor.terminate")
def _(self):
    n0 = old(events_len())
    option(exceptions_top=True)   # "we try catch everything since we dont want to leave any process dangling": terminate never raises
    # "the executor processes exit and leave no child processes ... behind": every worker process that was started is told to shut down
    # (WorkerShutdown on its own address) - one message per started worker, none for a worker never started; a second call does nothing
    ensures(implies(old(self.terminating), events_len() == n0), tag="second-call-is-a-no-op")
    ensures(self.terminating, tag="marks-terminating")
    ensures(implies(not old(self.terminating),
                    forall(WorkerId, lambda w: implies(w in self.workers and self.workers[w] is not None,
                                                       logged(ev("callback", worker_address(w), WorkerShutdown()))))),
            tag="every-started-worker-is-told-to-shut-down", top=True)
    # ... and the shared-memory server, if it is still alive, is asked to shut down ("leave no ... shared-memory segments behind")
    observes(shm_alive="is_alive")
    ensures(implies(not old(self.terminating) and shm_alive, logged(ev("shm_shutdown"))), tag="live-shm-server-is-shut-down", top=True)
    invariant(0, events_len() >= n0 and self.terminating
              and forall(WorkerId, lambda w: implies(w in loop0_seen and self.workers[w] is not None,
                                                     logged(ev("callback", worker_address(w), WorkerShutdown())))))
    modifies("terminating", "events")


# ---- executor side: the receive loop never stops silently ------------------------------------------------------------------------------
field_types("cascade.executor.executor:Executor", mlistener="Listener", sender="ReliableSender", datasets="set[DatasetId]", daddress="str")
external_class("cascade.executor.comms:Listener")
external_class("cascade.executor.comms:ReliableSender")
external_returns(recv_messages="list[Message]")
external_raises(recv_messages=["ValueError"], maybe_retry=["ValueError"])


@contract("cascade.executor.executor:Executor.recv_loop")
def _(self):
    told = logged(ev("to_controller_is_failure", True)) or logged(ev("to_controller_is_exit", True))
    # "if ... a worker process, the host's data server or its shared-memory server dies while the executor that owns it is alive, the
    #  controller's run still ends": the loop ends only by terminating, and it never terminates without having told the controller -
    #  ExecutorExit on an orderly shutdown, ExecutorFailure for ANY exception raised while serving (a dead child found by healthcheck,
    #  a retry budget exhausted, a malformed message) - before it stops its children
    option(exceptions_top=True)
    ensures(self.terminating, tag="loop-ends-only-by-terminating")
    ensures(implies(not old(self.terminating), told), tag="controller-is-told-before-the-executor-stops", top=True)
    invariant(0, implies(self.terminating and not old(self.terminating), told))
    # every turn of the loop that did not end in the failure handler has run the health check and the retry pass, in this order, last
    invariant(0, self.terminating or events_len() == old(events_len())
              or (events_len() >= 2 and ev_name(event(events_len() - 1)) == "maybe_retry" and ev_name(event(events_len() - 2)) == "healthcheck"),
              tag="every-turn-checks-health-then-retries")
    invariant(1, implies(self.terminating and not old(self.terminating), told) and not self.terminating)
    invariant(2, not self.terminating)
    invariant(3, not self.terminating)
    invariant(4, not self.terminating)
    modifies("terminating", "events", "step_time_ms", "log_time_ms", self.datasets)
