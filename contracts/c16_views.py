"""C16: 'records for every task its consumers, inputs and outputs exactly as the job's edges state' - the two views every
consumer of the edge list goes through (precompute, the controller's State, the runner's ExecutionContext)."""
PROPERTY = "C16"


@contract("cascade.low.views:dependants")
def _(edges):
    rv = result()
    # consumers of a dataset are exactly the sink tasks of the edges that start at it
    ensures(forall(DatasetId, str, lambda d, t: (d in rv and t in rv[d]) == exists(int, lambda i: 0 <= i and i < len(edges) and edges[i].source == d and edges[i].sink_task == t)),
            tag="consumers-exactly-as-edges", top=True)
    # the two directions separately (each is a simpler obligation than the equivalence)
    invariant(0, forall(int, lambda i: implies(0 <= i and i < loop0_index, edges[i].source in rv and edges[i].sink_task in rv[edges[i].source])))
    invariant(0, forall(DatasetId, str, lambda d, t: implies(d in rv and t in rv[d], exists(int, lambda i: 0 <= i and i < loop0_index and edges[i].source == d and edges[i].sink_task == t))))
    # the consumer sets are private to the view: one per dataset, created by the view
    invariant(0, forall(DatasetId, lambda d: implies(d in rv, fresh(rv[d]) and not same(rv[d], rv))))
    invariant(0, forall(DatasetId, DatasetId, lambda d1, d2: implies(d1 in rv and d2 in rv and d1 != d2, not same(rv[d1], rv[d2]))))
    loop_modifies(0, values_of(rv))
    modifies()


@spec
def designator(e):
    return e.sink_input_kw if e.sink_input_kw is not None else e.sink_input_ps


@spec
def well_formed_edge(e):
    # exactly one of the keyword / positional sink designators is given
    return (e.sink_input_kw is None) != (e.sink_input_ps is None)


@contract("cascade.low.views:param_source")
def _(edges):
    rv = result()
    # the inputs of a task are exactly the sink designators of the edges that end at it ...
    ensures(forall(str, Any, lambda t, p: (t in rv and p in rv[t]) == exists(int, lambda i: 0 <= i and i < len(edges) and edges[i].sink_task == t and designator(edges[i]) == p)),
            tag="inputs-exactly-as-edges", top=True)
    # ... and each is fed by the source of (the last) such edge
    ensures(forall(str, Any, lambda t, p: implies(t in rv and p in rv[t], exists(int, lambda i: 0 <= i and i < len(edges) and edges[i].sink_task == t and designator(edges[i]) == p
                                                                                    and rv[t][p] == edges[i].source))),
            tag="input-source-as-edge-states", top=True)
    raises(TypeError, exists(int, lambda i: 0 <= i and i < len(edges) and not well_formed_edge(edges[i])), tag="ill-formed-edge-rejected")
    invariant(0, forall(int, lambda i: implies(0 <= i and i < loop0_index, well_formed_edge(edges[i]))))
    invariant(0, forall(int, lambda i: implies(0 <= i and i < loop0_index, edges[i].sink_task in rv and designator(edges[i]) in rv[edges[i].sink_task])))
    invariant(0, forall(str, Any, lambda t, p: implies(t in rv and p in rv[t], exists(int, lambda i: 0 <= i and i < loop0_index and edges[i].sink_task == t and designator(edges[i]) == p
                                                                                         and rv[t][p] == edges[i].source))))
    invariant(0, forall(str, lambda t: implies(t in rv, fresh(rv[t]) and not same(rv[t], rv))))
    invariant(0, forall(str, str, lambda t1, t2: implies(t1 in rv and t2 in rv and t1 != t2, not same(rv[t1], rv[t2]))))
    loop_modifies(0, values_of(rv))
    modifies()


@contract("cascade.low.core:JobInstance.outputs_of")
def _(self, task_id):
    schema = self.tasks[task_id].definition.output_schema
    # "records for every task its ... outputs exactly as the job ... states": the outputs of a task are exactly (task, o) for the declared output names o
    raises(KeyError, when=task_id not in self.tasks, tag="unknown-task-is-an-error")
    ensures(forall(DatasetId, lambda d: (d in result()) == (d.task == task_id and d.output in schema)), tag="outputs-exactly-as-declared", top=True)
    modifies()
