"""C19 - a job accepted by the builder is well formed and carries the values given."""
PROPERTY = "C19"

field_types("cascade.low.builders:JobBuilder", nodes="dict[str, TaskInstance]", edges="list[Task2TaskEdge]")
persistent_fields("nodes", "edges")


@contract("cascade.low.builders:TaskBuilder.with_values")
def _(self, args, kwargs):
    types(args="list[Any]", kwargs="dict[str, Any]")
    r = typed(result(), TaskInstance)
    # "values bound to a task through the builder, positionally or by keyword, appear in the job under exactly those positions and names"
    ensures(forall(int, lambda i: implies(0 <= i and i < len(args), str(i) in r.static_input_ps and same(r.static_input_ps[str(i)], args[i]))),
            tag="positional-values-under-their-positions", top=True)
    ensures(forall(str, lambda k: implies(k in kwargs, k in r.static_input_kw and same(r.static_input_kw[k], kwargs[k]))),
            tag="keyword-values-under-their-names", top=True)
    # earlier bindings survive unless re-bound; nothing is invented
    ensures(forall(str, lambda k: implies(k in self.static_input_kw and k not in kwargs, k in r.static_input_kw and same(r.static_input_kw[k], self.static_input_kw[k]))),
            tag="earlier-keyword-bindings-kept")
    ensures(forall(str, lambda k: implies(k in r.static_input_kw, k in kwargs or k in self.static_input_kw)), tag="no-invented-keyword")
    ensures(forall(str, lambda k: implies(k in r.static_input_ps, k in self.static_input_ps or exists(int, lambda i: 0 <= i and i < len(args) and k == str(i)))),
            tag="no-invented-position")
    ensures(same(r.definition, self.definition), tag="definition-kept")
    # "building never mutates previously built jobs": no existing container is written (fresh ones are allocated)
    modifies()


@contract("cascade.low.builders:JobBuilder.with_node")
def _(self, name, task):
    r = typed(result(), JobBuilder)
    ensures(name in r.nodes and same(r.nodes[name], task) and forall(str, lambda k: implies(k != name, (k in r.nodes) == (k in self.nodes)
                                                                                            and implies(k in r.nodes, same(r.nodes[k], self.nodes[k])))),
            tag="node-added-to-a-new-builder", top=True)
    ensures(same(r.edges, self.edges))
    modifies()   # the receiver (and every earlier builder / job sharing its maps) is untouched


@contract("cascade.low.builders:JobBuilder.with_edge")
def _(self, source, sink, into, frum):
    types(into="str | int")
    r = typed(result(), JobBuilder)
    e = typed(r.edges[len(r.edges) - 1], Task2TaskEdge)
    ensures(len(r.edges) == len(self.edges) + 1 and forall(int, lambda i: implies(0 <= i and i < len(self.edges), same(r.edges[i], self.edges[i]))),
            tag="edge-appended-to-a-new-builder", top=True)
    ensures(e.source == DatasetId(source, frum) and e.sink_task == sink
            and implies(isinstance(into, str), same(e.sink_input_kw, into) and e.sink_input_ps is None)
            and implies(isinstance(into, int), same(e.sink_input_ps, into) and e.sink_input_kw is None), tag="edge-carries-the-given-endpoints", top=True)
    ensures(same(r.nodes, self.nodes))
    modifies()


@contract("cascade.low.builders:JobBuilder.build.<locals>.get_edge_errors")
def _(edge):
    captures(self="JobBuilder")
    types(edge="Task2TaskEdge")
    src_ok = edge.source.task in self.nodes
    out_ok = src_ok and edge.source.output in self.nodes[edge.source.task].definition.output_schema \
        and self.nodes[edge.source.task].definition.output_schema[edge.source.output] != ""
    sink_ok = edge.sink_task in self.nodes
    kw = edge.sink_input_kw is not None
    par_ok = sink_ok and kw and typed(edge.sink_input_kw, str) in self.nodes[edge.sink_task].definition.input_schema \
        and self.nodes[edge.sink_task].definition.input_schema[typed(edge.sink_input_kw, str)] != ""
    dangling = not src_ok or not out_ok or not sink_ok or (kw and not par_ok)
    # "every edge of the resulting job starts at an existing output of an existing task and ends at an existing task (and, for keyword
    #  edges, an existing parameter) ... otherwise it returns the list of problems": a dangling edge yields at least one problem,
    # and the check itself never raises
    ensures(implies(old(dangling), len(result()) >= 1), tag="dangling-edge-is-reported", top=True)
    ensures(implies(old(not dangling and not kw), len(result()) == 0), tag="well-formed-positional-edge-accepted", top=True)
    ensures(implies(old(not dangling and kw and (self.nodes[edge.sink_task].definition.input_schema[typed(edge.sink_input_kw, str)] == "Any"
                                            or self.nodes[edge.source.task].definition.output_schema[edge.source.output] == "Any")), len(result()) == 0),
            tag="well-formed-untyped-keyword-edge-accepted", top=True)
    modifies()
