"""C01 - the data path of one worker: what a task produced is what later tasks (and, through shared memory, other workers and
the controller) get.  Functions under contract: executor.runner.memory.Memory.handle / provide.  serde.ser_output / des_output
are dependencies treated as (uninterpreted) functions - their being inverse to each other is C17's business (pickle / custom
serdes: bounded stand-in there)."""
PROPERTY = "C01"

field_types("cascade.executor.runner.memory:Memory", local="dict[DatasetId, Any]", bufs="dict[DatasetId, AllocatedBuffer]", callback="str", worker="WorkerId")
load_class("cascade.shm.client:AllocatedBuffer")
load_class("cascade.executor.msg:DatasetPublished")
pure_function("cascade.executor.runner.memory:ds2shmid", returns="str")
pure_function("cascade.executor.serde:ser_output", returns="tuple[bytes, str]", module="cascade.executor.runner.memory")
pure_function("cascade.executor.serde:des_output", returns="Any", module="cascade.executor.runner.memory")
# the memoryview of a buffer is a function of the buffer (taking it has no effect the contracts mention)
pure_function("cascade.shm.client:AllocatedBuffer.view", returns="Any")


@assumed("cascade.shm.client:allocate")
def _(key, l, deser_fun, timeout_sec):
    logs("allocate", key, l, deser_fun)
    may_raise(Exception, True)
    modifies()


@assumed("cascade.shm.client:get")
def _(key, timeout_sec):
    logs("get", key)
    may_raise(Exception, True)
    modifies()


@assumed("cascade.shm.client:AllocatedBuffer.close")
def _(self):
    logs("close", self)
    may_raise(Exception, True)
    modifies()


@assumed("cascade.executor.comms:callback")
def _(address, msg):
    logs("callback", address, msg)
    modifies()


@contract("cascade.executor.runner.memory:Memory.handle")
def _(self, outputId, outputSchema, outputValue, isPublish):
    n0 = old(events_len())
    ser = serde.ser_output(outputValue, outputSchema)
    # the value is kept for the later tasks of this worker under exactly its dataset id; nothing else in the worker's memory changes
    ensures(outputId in self.local and same(self.local[outputId], outputValue), tag="value-kept-under-its-id", top=True)
    ensures(forall(DatasetId, lambda d: implies(d != outputId, (d in self.local) == old(d in self.local) and implies(d in self.local, same(self.local[d], old(self.local[d]))))),
            tag="other-datasets-untouched", top=True)
    # not to be published: nothing leaves the worker
    ensures(implies(not isPublish, events_len() == n0), tag="unpublished-stays-local", top=True)
    # published: the serialised value goes to shared memory under the dataset's key, with the decoding function the serialiser chose,
    # all of its bytes are written, the buffer is closed, and only THEN the dataset is announced - once, with this worker as origin
    ensures(implies(isPublish, events_len() == n0 + 4
                    and same(event(n0), ev("allocate", ds2shmid(outputId), len(ser[0]), ser[1]))
                    and ev_name(event(n0 + 1)) == "setslice" and ev_argc(event(n0 + 1), 4)
                    and ev_arg(event(n0 + 1), 1) is None and same(ev_arg(event(n0 + 1), 2), len(ser[0])) and same(ev_arg(event(n0 + 1), 3), ser[0])
                    and ev_name(event(n0 + 2)) == "close" and same(ev_arg(event(n0 + 1), 0), typed(ev_arg(event(n0 + 2), 0), AllocatedBuffer).view())
                    and same(event(n0 + 3), ev("callback", self.callback, DatasetPublished(self.worker, outputId, None)))),
            tag="published-bytes-are-the-serialised-value", top=True)
    # a failing step raises (the task fails): then nothing has been announced
    ensures_raise(Exception, forall(int, lambda j: implies(n0 <= j and j < events_len(), ev_name(event(j)) != "callback")), tag="no-announcement-on-failure", top=True)
    may_raise(Exception, isPublish)
    modifies(self.local, "events")


@contract("cascade.executor.runner.memory:Memory.provide")
def _(self, inputId, annotation):
    n0 = old(events_len())
    have = inputId in self.local
    # a value this worker already holds is handed out as it is, without touching shared memory
    ensures(implies(old(have), same(result(), old(self.local[inputId])) and events_len() == n0
                    and forall(DatasetId, lambda d: (d in self.local) == old(d in self.local) and implies(d in self.local, same(self.local[d], old(self.local[d]))))),
            tag="held-value-handed-out-unchanged", top=True)
    # otherwise it is read from shared memory under the dataset's own key and decoded with the function stored next to the bytes
    ensures(implies(not old(have), events_len() == n0 + 1 and same(event(n0), ev("get", ds2shmid(inputId)))
                    and inputId in self.bufs and inputId in self.local and same(result(), self.local[inputId])
                    and same(self.local[inputId], serde.des_output(self.bufs[inputId].view(), annotation, self.bufs[inputId].deser_fun))),
            tag="fetched-under-own-key-and-decoded-as-stored", top=True)
    ensures(implies(not old(have), forall(DatasetId, lambda d: implies(d != inputId, (d in self.local) == old(d in self.local) and implies(d in self.local, same(self.local[d], old(self.local[d])))))),
            tag="other-datasets-untouched")
    raises(ValueError, inputId not in self.local and inputId in self.bufs, tag="inconsistent-cache-rejected")
    may_raise(Exception, inputId not in self.local)
    modifies(self.local, self.bufs, "events")
