"""C06 - acknowledged messaging: exactly once, or a raised error.

Receiver side: Listener._recv_one decides, from the frames of ONE multipart message, whether something is handed to the
application; duplicates of an already acknowledged Syn are dropped; malformed shapes are rejected.
Sender side: ReliableSender keeps every unacknowledged message in `inflight` until it is acknowledged, resends it when due,
and raises when the retry budget is exhausted - it never forgets a message silently.
"""
PROPERTY = "C06"

field_types("cascade.executor.comms:Listener", acked="set[Syn]", poller="zmq.Poller", socket="zmq.Socket", address="str")
field_types("cascade.executor.comms:ReliableSender", hosts="dict[str, tuple[zmq.Socket, str]]", inflight="dict[int, _InFlightRecord]",
            idx="int", resend_grace="int", address="str")
external_returns(poll="list[tuple[zmq.Socket, int]]", recv_multipart="list[bytes]")
pure_function("cascade.executor.serde:des_message", returns="Message | DatasetTransmitPayloadHeader", module="cascade.executor.comms")
pure_function("cascade.executor.serde:ser_message", returns="bytes", module="cascade.executor.comms")
owning("inflight")


@assumed("cascade.executor.comms:callback")
def _(address, msg):
    # local un-Syn'ed send (here: the acknowledgement back to the Syn's sender)
    logs("callback", address, msg)
    modifies()


@contract("cascade.executor.comms:Listener._recv_one")
def _(self, timeout_ms):
    observes(ready="poll", data="recv_multipart")
    n = len(data)
    m0 = des_message(data[0])
    m1 = des_message(data[1])
    syn0 = isinstance(m0, Syn)
    hdr0 = isinstance(m0, DatasetTransmitPayloadHeader)
    dup = syn0 and typed(m0, Syn) in self.acked
    malformed = (len(ready) > 1 or (len(ready) == 1 and (
        n == 0
        or (syn0 and n == 1)
        or (hdr0 and n != 2)
        or (not syn0 and not hdr0 and n != 1)
        or (syn0 and not dup and n >= 2 and (isinstance(m1, Syn)
                                            or (isinstance(m1, DatasetTransmitPayloadHeader) and n != 3)
                                            or (not isinstance(m1, DatasetTransmitPayloadHeader) and n != 2))))))
    # "a malformed frame sequence is rejected with an error, never delivered as a different message"
    raises(ValueError, when=malformed, tag="malformed-frames-rejected", top=True)
    # nothing ready: nothing delivered, nothing remembered
    ensures(implies(len(ready) == 0, result() is None and forall(Syn, lambda s: (s in self.acked) == old(s in self.acked))), tag="idle-is-silent")
    # "handed to the receiving application exactly once": a Syn seen before is dropped, its first occurrence is delivered and remembered
    ensures(implies(len(ready) == 1 and old(dup), result() is None and forall(Syn, lambda s: (s in self.acked) == old(s in self.acked))),
            tag="duplicate-syn-dropped", top=True)
    ensures(implies(len(ready) == 1 and syn0 and not old(dup),
                    typed(m0, Syn) in self.acked
                    and forall(Syn, lambda s: implies(s != typed(m0, Syn), (s in self.acked) == old(s in self.acked)))
                    and (same(result(), m1) or (isinstance(m1, DatasetTransmitPayloadHeader) and isinstance(result(), DatasetTransmitPayload)
                                                and same(typed(result(), DatasetTransmitPayload).header, m1)
                                                and same(typed(result(), DatasetTransmitPayload).value, data[2])))),
            tag="first-syn-delivered-and-remembered", top=True)
    # every Syn - first or repeated - is acknowledged to its sender with its own index
    ensures(implies(len(ready) == 1 and n >= 1 and syn0, events_len() >= 1
                    and same(event(events_len() - 1), ev("callback", typed(m0, Syn).addr, Ack(typed(m0, Syn).idx)))),
            tag="every-syn-acknowledged", top=True)
    # local (un-Syn'ed) traffic is passed through unchanged and leaves the duplicate filter alone
    ensures(implies(len(ready) == 1 and not syn0, forall(Syn, lambda s: (s in self.acked) == old(s in self.acked))
                    and (same(result(), m0) or (hdr0 and isinstance(result(), DatasetTransmitPayload) and same(typed(result(), DatasetTransmitPayload).header, m0)
                                                and same(typed(result(), DatasetTransmitPayload).value, data[1])))),
            tag="local-messages-pass-through")
    logs_result("delivered")   # ghost marker at call sites: what this call handed over (None = nothing)
    logs_only("poll", "recv_multipart", "callback")   # what it puts on the log itself: the poll, the read, the acknowledgement
    modifies(self.acked, "events")


@class_invariant("cascade.executor.comms:ReliableSender")
def _(self):
    holds(forall(int, lambda i: implies(i in self.inflight, key_of(self.inflight[i], "inflight") == i and i < self.idx)), tag="inflight-indices-below-counter")


@contract("cascade.executor.comms:ReliableSender.send")
def _(self, host, m):
    types(m="Message")
    requires(host in self.hosts)
    i = old(self.idx)
    # every message gets a fresh, strictly increasing index and is remembered until acknowledged
    ensures(self.idx == i + 1 and i in self.inflight, tag="fresh-index-and-remembered", top=True)
    ensures(self.inflight[i].host == host and self.inflight[i].remaining == max_retries_per_message
            and same(self.inflight[i].message, (ser_message(Syn(i, self.address)), ser_message(m))), tag="record-carries-syn-and-message", top=True)
    ensures(forall(int, lambda k: implies(k != i, (k in self.inflight) == old(k in self.inflight)
                                          and implies(k in self.inflight, same(self.inflight[k], old(self.inflight[k]))
                                                      and self.inflight[k].remaining == old(self.inflight[k].remaining)))),
            tag="other-records-untouched", top=True)
    modifies(self.inflight, "idx", "events", "host", "message", "clazz", "at", "remaining")


@contract("cascade.executor.comms:ReliableSender.ack")
def _(self, idx):
    ensures(idx not in self.inflight, tag="acknowledged-is-forgotten", top=True)
    ensures(forall(int, lambda k: implies(k != idx, (k in self.inflight) == old(k in self.inflight)
                                          and implies(k in self.inflight, same(self.inflight[k], old(self.inflight[k]))))), tag="only-that-record", top=True)
    modifies(self.inflight)


@contract("cascade.executor.comms:ReliableSender.maybe_retry")
def _(self):
    # "if it can not be delivered the sender raises after a bounded number of retries rather than dropping it silently":
    # a retry pass never forgets a message ...
    ensures(forall(int, lambda k: (k in self.inflight) == old(k in self.inflight) and implies(k in self.inflight, same(self.inflight[k], old(self.inflight[k])))),
            tag="never-drops-silently", top=True)
    ensures_raise(ValueError, forall(int, lambda k: (k in self.inflight) == old(k in self.inflight)), tag="never-drops-silently-on-raise", top=True)
    # ... each record's budget only goes down, by at most one per pass ...
    ensures(forall(int, lambda k: implies(k in self.inflight, self.inflight[k].remaining <= old(self.inflight[k].remaining)
                                          and self.inflight[k].remaining >= old(self.inflight[k].remaining) - 1)), tag="budget-decreases-by-at-most-one", top=True)
    # ... and a normal return leaves every budget positive (an exhausted one raises instead): with a start budget of
    # max_retries_per_message this bounds the number of sends of one message
    requires(forall(int, lambda k: implies(k in self.inflight, self.inflight[k].remaining >= 1)))
    ensures(forall(int, lambda k: implies(k in self.inflight, self.inflight[k].remaining >= 1)), tag="returns-only-with-budget-left", top=True)
    observes(t0="time_ns")
    # ... a record that is due (older than the grace period, host still known) IS resent and pays for it
    ensures(forall(int, lambda k: implies(k in self.inflight and old(self.inflight[k].at) < t0 - self.resend_grace and old(self.inflight[k].host) in self.hosts,
                                          self.inflight[k].remaining == old(self.inflight[k].remaining) - 1)), tag="due-record-pays-one-retry", top=True)
    may_raise(ValueError, when=True)
    invariant(0, forall(int, lambda k: implies(k in self.inflight and k in loop0_seen and old(self.inflight[k].at) < t0 - self.resend_grace and old(self.inflight[k].host) in self.hosts,
                                               self.inflight[k].remaining == old(self.inflight[k].remaining) - 1)))
    invariant(0, forall(int, lambda k: (k in self.inflight) == old(k in self.inflight) and implies(k in self.inflight, same(self.inflight[k], old(self.inflight[k]))
                                       and self.inflight[k].remaining <= old(self.inflight[k].remaining)
                                       and self.inflight[k].remaining >= old(self.inflight[k].remaining) - 1
                                       and self.inflight[k].remaining >= 1
                                       and implies(k not in loop0_seen, self.inflight[k].remaining == old(self.inflight[k].remaining)
                                                   and self.inflight[k].at == old(self.inflight[k].at)))))
    modifies("at", "remaining", "events")


@contract("cascade.executor.comms:Listener.recv_messages")
def _(self, timeout_ms):
    types(timeout_ms="int | None")
    r = typed(result(), "list[Any]")
    may_raise(ValueError, when=True)     # a malformed frame sequence is rejected (C06: never delivered)
    # the batch given to the owner loop consists of deliveries of _recv_one only (each _recv_one return is a ghost log entry `delivered`): nothing is
    # invented between the duplicate filter and the application.  (The converse - every delivery is in the batch - needs an existential over list
    # positions under a quantifier over values; z3 and cvc5 time out on its preservation, so it is NOT claimed here: the C06 stand-in decides it.)
    ensures(forall(int, lambda i: implies(0 <= i and i < len(r), r[i] is not None and logged(ev("delivered", r[i])))), tag="only-deliveries-are-returned", top=True)
    invariant(0, len(messages) >= 1 and forall(int, lambda i: implies(0 <= i and i < len(messages), messages[i] is not None and logged(ev("delivered", messages[i])))))
    modifies(self.acked, "events")
