"""C02 / C04 - scheduler.assign.build_assignment: what an assignment asks for before its task may start.

'At the moment a task is dispatched every dataset it consumes ... is either present on the target host or a transfer of it to that host
has been commanded' (C02) and 'every transfer ... it commands names a source host that holds the dataset at that moment' (C04): the
`prep` list of the assignment is exactly what controller.act turns into transfer commands (act is proved in c04_controller.py)."""
PROPERTY = "C02"

field_types("cascade.scheduler.core:State",
            worker2ds="defaultdict[WorkerId, dict[DatasetId, DatasetStatus]]", ds2worker="defaultdict[DatasetId, dict[WorkerId, DatasetStatus]]",
            host2ds="defaultdict[HostId, dict[DatasetId, DatasetStatus]]", ds2host="defaultdict[DatasetId, dict[HostId, DatasetStatus]]")


@spec
def loadable(status):
    return status == DatasetStatus.preparing or status == DatasetStatus.available


@contract("cascade.scheduler.assign:build_assignment", also=["C04"])
def _(worker, task, state):
    requires(task in state.edge_i and task in state.task_o)
    ins = state.edge_i[task]
    on_worker = lambda d: worker in state.worker2ds and d in state.worker2ds[worker] and loadable(state.worker2ds[worker][d])
    on_host = lambda d: worker.host in state.host2ds and d in state.host2ds[worker.host] and loadable(state.host2ds[worker.host][d])
    holds = lambda d, h: d in state.ds2host and h in state.ds2host[d] and state.ds2host[d][h] == DatasetStatus.available
    rp = typed(result(), Assignment).prep
    # the assignment is for exactly this worker, this task, this task's outputs
    ensures(typed(result(), Assignment).worker == worker and len(typed(result(), Assignment).tasks) == 1 and typed(result(), Assignment).tasks[0] == task,
            tag="one-task-for-the-given-worker", top=True)
    ensures(forall(DatasetId, lambda d: (d in typed(result(), Assignment).outputs) == (d in state.task_o[task])), tag="publishes-the-tasks-outputs")
    # C04: "every transfer ... names a source host that holds the dataset at that moment": a preparation entry names an input of the task
    # and either the worker's own host (where the dataset is present or on its way) or a host that HOLDS it (status available) on entry
    ensures(forall(int, lambda i: implies(0 <= i and i < len(rp), rp[i][0] in ins
                                          and ((rp[i][1] == worker.host and old(on_host(rp[i][0]))) or old(holds(rp[i][0], rp[i][1]))))),
            tag="transfer-source-holds-the-dataset", top=True)
    # C02: "every dataset it consumes ... is either present on the target host or a transfer of it to that host has been commanded"
    ensures(forall(DatasetId, lambda d: implies(d in ins, old(on_worker(d)) or exists(int, lambda i: 0 <= i and i < len(rp) and rp[i][0] == d))),
            tag="every-input-present-or-requested", top=True)
    # an input that no host holds can not be prepared: the assignment is refused (the scheduler's bookkeeping is wrong), never issued
    raises(ValueError, when=exists(DatasetId, lambda d: d in ins and not on_worker(d) and not on_host(d)
                                   and not exists(str, lambda h: holds(d, h))), tag="input-held-nowhere-is-refused", top=True)
    # loop over the inputs (a set: each input once).  `prep` is the function's own list
    invariant(0, forall(int, lambda i: implies(0 <= i and i < len(prep), prep[i][0] in loop0_seen
                                               and ((prep[i][1] == worker.host and old(on_host(prep[i][0]))) or old(holds(prep[i][0], prep[i][1]))))),
              tag="entries-so-far-are-justified")
    invariant(0, forall(DatasetId, lambda d: implies(d in loop0_seen, old(on_worker(d)) or exists(int, lambda i: 0 <= i and i < len(prep) and prep[i][0] == d))),
              tag="inputs-so-far-are-covered")
    # what the loop has NOT visited yet is as on entry (it only marks visited inputs as 'preparing' at the worker's host)
    invariant(0, forall(DatasetId, lambda d: implies(d in ins and d not in loop0_seen,
                                                     on_worker(d) == old(on_worker(d)) and on_host(d) == old(on_host(d))
                                                     and forall(str, lambda h: holds(d, h) == old(holds(d, h))))),
              tag="unvisited-inputs-unchanged")
    loop_modifies(0, values_of(state.host2ds), values_of(state.ds2host), values_of(state.worker2ds))
    modifies(state.host2ds, state.ds2host, state.worker2ds)
