"""C09 - shm.algorithms.lottery, the part of its contract that discharges: the selection changes nothing (no candidate, no caller state), returns a list of
keys, and never more victims than candidates.  The clause the callers rely on - *every victim is the key of a candidate* - needs an invariant of the shape
"for every element there is a position" through three sorted() passes; it does not discharge (DESIGN 14.5) and stays ASSUMED in contracts/c08_shm.py, decided by
the exhaustive stand-in checks/shm_bounded.py:lottery_cases."""
PROPERTY = "C09"

treat_as_record("cascade.shm.algorithms:Entity")


@contract("cascade.shm.algorithms:lottery")
def _(entities, amount):
    types(entities="list[Entity]", amount="int")
    local_types(consumedOnce="list[Entity]", consumedMult="list[Entity]", consumedNevr="list[Entity]", winners="list[str]")
    r = typed(result(), "list[str]")
    ensures(len(r) <= len(entities), tag="no-more-victims-than-candidates", top=True)
    ensures(len(entities) == old(len(entities)), tag="candidates-untouched")
    invariant(0, len(consumedOnce) + len(consumedMult) + len(consumedNevr) == loop0_index)
    invariant(1, len(winners) == loop1_index and len(consumedOnce) + len(consumedMult) + len(consumedNevr) == len(entities))
    invariant(2, len(winners) == len(consumedOnce) + loop2_index and len(consumedOnce) + len(consumedMult) + len(consumedNevr) == len(entities))
    invariant(3, len(winners) == len(consumedOnce) + len(consumedMult) + loop3_index and len(consumedOnce) + len(consumedMult) + len(consumedNevr) == len(entities))
    modifies()
