"""C09 - shm.algorithms.lottery: the eviction victims are chosen among the candidates it was given (so a dataset that is not evictable - a
reader still holds it - can not be chosen: Manager.page_out_at_least passes exactly the evictable ones)."""
PROPERTY = "C09"

treat_as_record("cascade.shm.algorithms:Entity")


@contract("cascade.shm.algorithms:lottery")
def _(entities, amount):
    types(entities="list[Entity]")
    local_types(consumedOnce="list[Entity]", consumedMult="list[Entity]", consumedNevr="list[Entity]", winners="list[str]")
    r = typed(result(), "list[str]")
    cand = lambda k: exists(int, lambda c: 0 <= c and c < len(entities) and entities[c].key == k)
    ent = lambda lst: forall(int, lambda j: implies(0 <= j and j < len(lst), isinstance(lst[j], Entity)))
    among = lambda lst: forall(int, lambda j: implies(0 <= j and j < len(lst), exists(int, lambda c: 0 <= c and c < len(entities) and same(entities[c], lst[j]))))
    ensures(forall(int, lambda i: implies(0 <= i and i < len(r), cand(r[i]))), tag="winners-are-candidates", top=True)
    invariant(0, among(consumedOnce))
    invariant(0, among(consumedMult))
    invariant(0, among(consumedNevr))
    invariant(1, among(consumedOnce))
    invariant(1, among(consumedMult))
    invariant(1, among(consumedNevr))
    invariant(1, forall(int, lambda i: implies(0 <= i and i < len(winners), cand(winners[i]))))
    invariant(2, among(consumedMult))
    invariant(2, among(consumedNevr))
    invariant(2, forall(int, lambda i: implies(0 <= i and i < len(winners), cand(winners[i]))))
    invariant(3, among(consumedNevr))
    invariant(3, forall(int, lambda i: implies(0 <= i and i < len(winners), cand(winners[i]))))
    modifies()
