"""C09 - shm.disk.Disk: 'bytes read from the store under a key equal the bytes written under that key, however often the dataset was
paged to disk and back in between'.  A page-out that reports success has written the segment's bytes to the spill file of that segment
BEFORE unlinking the segment; a page-in that reports success has created the segment and copied the spill file into it."""
PROPERTY = "C09"

field_types("cascade.shm.disk:Disk", root="TempDir")
stub_class("TempDir", name="str")
external_raises(SharedMemory=["FileNotFoundError"], open=["OSError"], write=["OSError"], unlink=["FileNotFoundError"], close=["OSError"])


@contract("cascade.shm.disk:Disk._page_out")
def _(self, shmid, callback):
    observes(shm="SharedMemory")
    n0 = old(events_len())
    last = event(events_len() - 1)
    option(exceptions_top=True)    # runs in a pool thread: an escaping exception would be lost and the manager never told
    # the manager is told exactly once, last, whether the page-out succeeded
    ensures(events_len() > n0 and ev_name(last) == "callback" and (same(last, ev("callback", True)) or same(last, ev("callback", False)))
            and forall(int, lambda j: implies(n0 <= j and j < events_len() - 1, ev_name(event(j)) != "callback")), tag="reports-back-once-last", top=True)
    # "bytes read ... equal the bytes written ... however often the dataset was paged to disk and back": success is reported only after the
    # WHOLE buffer of the segment named shmid was written to the spill file <root>/<shmid> (opened for writing) and the file closed - and only
    # then is the segment unlinked
    ensures(implies(same(last, ev("callback", True)),
                    events_len() == n0 + 7
                    and same(event(n0), ev("SharedMemory", shmid))
                    and same(event(n0 + 1), ev("open", self.root.name + "/" + shmid, "wb"))
                    and same(event(n0 + 2), ev("write", shm.buf[:]))
                    and ev_name(event(n0 + 3)) == "__exit__"
                    and ev_name(event(n0 + 4)) == "unlink" and ev_name(event(n0 + 5)) == "close"),
            tag="success-only-after-the-bytes-are-on-disk", top=True)
    # the segment is never unlinked before its bytes were written
    ensures(forall(int, lambda j: implies(n0 <= j and j < events_len() and ev_name(event(j)) == "unlink", j == n0 + 4 and same(event(n0 + 2), ev("write", shm.buf[:])))),
            tag="unlinked-only-after-the-write", top=True)
    modifies("events")
