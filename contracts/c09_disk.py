"""C09 - shm.disk.Disk: 'bytes read from the store under a key equal the bytes written under that key, however often the dataset was
paged to disk and back in between'.  A page-out that reports success has written the segment's bytes to the spill file of that segment
BEFORE unlinking the segment; a page-in that reports success has created the segment and copied the spill file into it."""
PROPERTY = "C09"

field_types("cascade.shm.disk:Disk", root="TempDir")
stub_class("TempDir", name="str")
external_raises(SharedMemory=["FileNotFoundError"], open=["OSError"], write=["OSError"], unlink=["FileNotFoundError"], close=["OSError"])


@contract("cascade.shm.disk:Disk._page_out")
def _(self, shmid, callback):
    observes(shm="SharedMemory")
    n0 = old(events_len())
    last = event(events_len() - 1)
    option(exceptions_top=True)    # runs in a pool thread: an escaping exception would be lost and the manager never told
    # the manager is told exactly once, last, whether the page-out succeeded
    ensures(events_len() > n0 and ev_name(last) == "callback" and (same(last, ev("callback", True)) or same(last, ev("callback", False)))
            and forall(int, lambda j: implies(n0 <= j and j < events_len() - 1, ev_name(event(j)) != "callback")), tag="reports-back-once-last", top=True)
    # "bytes read ... equal the bytes written ... however often the dataset was paged to disk and back": success is reported only after the
    # WHOLE buffer of the segment named shmid was written to the spill file <root>/<shmid> (opened for writing) and the file closed - and only
    # then is the segment unlinked
    ensures(implies(same(last, ev("callback", True)),
                    events_len() == n0 + 7
                    and same(event(n0), ev("SharedMemory", shmid))
                    and same(event(n0 + 1), ev("open", self.root.name + "/" + shmid, "wb"))
                    and same(event(n0 + 2), ev("write", shm.buf[:]))
                    and ev_name(event(n0 + 3)) == "__exit__"
                    and ev_name(event(n0 + 4)) == "unlink" and ev_name(event(n0 + 5)) == "close"),
            tag="success-only-after-the-bytes-are-on-disk", top=True)
    # the segment is never unlinked before its bytes were written
    ensures(forall(int, lambda j: implies(n0 <= j and j < events_len() and ev_name(event(j)) == "unlink", j == n0 + 4 and same(event(n0 + 2), ev("write", shm.buf[:])))),
            tag="unlinked-only-after-the-write", top=True)
    modifies("events")


external_returns(read="bytes")
external_raises(read=["OSError"], unregister=["KeyError"])


@contract("cascade.shm.disk:Disk._page_in")
def _(self, shmid, size, callback):
    observes(shm="SharedMemory")
    n0 = old(events_len())
    last = event(events_len() - 1)
    option(exceptions_top=True)
    ensures(events_len() > n0 and ev_name(last) == "callback" and (same(last, ev("callback", True)) or same(last, ev("callback", False)))
            and forall(int, lambda j: implies(n0 <= j and j < events_len() - 1, ev_name(event(j)) != "callback")), tag="reports-back-once-last", top=True)
    is_write = lambda e: ev_name(event(e)) == "setslice"
    lo = lambda e: typed(ev_arg(event(e), 1), int)
    hi = lambda e: typed(ev_arg(event(e), 2), int)
    # "however often the dataset was paged to disk and back": success is reported only after a NEW segment of the dataset's size was created
    # under its own name, its spill file <root>/<shmid> was opened for reading, and the chunks read from it were copied into the segment's
    # buffer back to back from offset 0 - no gap, no overlap, each chunk at full length
    ensures(implies(same(last, ev("callback", True)),
                    same(event(n0), ev("SharedMemory", shmid)) and same(event(n0 + 1), ev("open", self.root.name + "/" + shmid, "rb"))
                    and forall(int, lambda e: implies(n0 + 2 <= e and e < events_len() and is_write(e),
                                                      same(ev_arg(event(e), 0), shm.buf) and hi(e) == lo(e) + len(typed(ev_arg(event(e), 3), bytes))
                                                      and (lo(e) == 0 if e == n0 + 3 else (is_write(e - 2) and lo(e) == hi(e - 2)))))),
            tag="success-only-after-the-file-was-copied-contiguously", top=True)
    invariant(0, events_len() >= n0 + 2 and same(event(n0), ev("SharedMemory", shmid)) and same(event(n0 + 1), ev("open", self.root.name + "/" + shmid, "rb"))
              and chunk_size == 4096 and i >= 0, tag="inv-prefix")
    invariant(0, forall(int, lambda j: implies(n0 <= j and j < events_len(), ev_name(event(j)) != "callback")), tag="inv-no-callback-yet")
    invariant(0, (events_len() - n0) % 2 == 0, tag="inv-even")
    invariant(0, (i == 0 if events_len() == n0 + 2 else (events_len() >= n0 + 4 and is_write(events_len() - 1) and hi(events_len() - 1) == i)), tag="inv-last-write-ends-at-i")
    invariant(0, forall(int, lambda e: implies(n0 + 2 <= e and e < events_len(), is_write(e) == ((e - n0) % 2 == 1))), tag="inv-alternation")
    invariant(0, forall(int, lambda e: implies(n0 + 2 <= e and e < events_len() and is_write(e),
                                               same(ev_arg(event(e), 0), shm.buf) and hi(e) == lo(e) + len(typed(ev_arg(event(e), 3), bytes))
                                               and (lo(e) == 0 if e == n0 + 3 else (is_write(e - 2) and lo(e) == hi(e - 2))))), tag="inv-contiguous")
    modifies("events")
