"""C10 - 'when a task runs its callable receives exactly the declared static arguments and upstream values in the declared
positions; each value a multi-output node yields is bound to the output under which it was declared; a count mismatch is a
task failure'.  Functions under contract: low.func.ensure, low.func.assert_iter_empty, executor.runner.runner.run."""
PROPERTY = "C10"


@contract("cascade.low.func:ensure")
def _(l, i):
    types(l="list[Any]")
    requires(i >= 0)
    n0 = old(len(l))
    # after ensure(l, i), l[i] = .. is safe; nothing already there is touched, the padding is None
    ensures(len(l) == (n0 if n0 >= i + 1 else i + 1), tag="long-enough")
    ensures(forall(int, lambda j: implies(0 <= j and j < n0, same(l[j], old(l[j])))), tag="existing-positions-kept")
    ensures(forall(int, lambda j: implies(n0 <= j and j < len(l), l[j] is None)), tag="padding-is-none")
    modifies(l)


inline("cascade.low.func:assert_iter_empty")
inline("cascade.low.func:assert_never")
pure_function("cascade.low.core:TaskDefinition.func_dec", returns="Any")
pure_function("cascade.low.func:resolve_callable", returns="Any")
# Memory.provide as a function of (memory, dataset, annotation): what the worker's memory holds for that dataset (its loading /
# caching side effects are on state this contract does not mention)
pure_function("cascade.executor.runner.memory:Memory.provide", returns="Any")


@assumed("cascade.executor.runner.memory:Memory.handle")
def _(self, outputId, outputSchema, outputValue, isPublish):
    logs("handle", outputId, outputSchema, outputValue, isPublish)
    modifies()


@contract("cascade.executor.runner.runner:run")
def _(taskId, executionContext, memory):
    task = executionContext.tasks[taskId]
    ps = task.static_input_ps
    kw = task.static_input_kw
    src = executionContext.param_source[taskId]
    schema = task.definition.output_schema
    requires(taskId in executionContext.tasks and taskId in executionContext.param_source)
    # positions are the decimal spellings of non-negative ints (what graph2job / the builders write), upstream positions are >= 0
    requires(forall(str, lambda k: implies(k in ps, int(k) >= 0 and str(int(k)) == k)))
    requires(forall(int, lambda p: implies(p in src, p >= 0)))
    requires(task.definition.func is not None)
    n0 = old(events_len())
    A = typed(ev_arg(event(n0), 1), "list[Any]")
    K = typed(ev_arg(event(n0), 2), "dict[str, Any]")
    # the callable is invoked first (before anything is stored) and once ...
    ensures(events_len() > n0 and ev_name(event(n0)) == "call" and same(ev_arg(event(n0), 0), TaskDefinition.func_dec(task.definition.func)),
            tag="callable-invoked", top=True)
    ensures(forall(int, lambda j: implies(0 <= j and j < events_len() - n0 - 1, ev_name(event(n0 + 1 + j)) == "handle")), tag="invoked-once", top=True)
    # ... with every upstream value in its declared position / under its declared name ...
    ensures(forall(int, lambda p: implies(p in src, p < len(A) and same(A[p], memory.provide(src[p][0], src[p][1])))), tag="upstream-values-in-declared-positions", top=True)
    ensures(forall(str, lambda k: implies(k in src, k in K and same(K[k], memory.provide(src[k][0], src[k][1])))), tag="upstream-values-under-declared-names", top=True)
    # ... every static argument in its declared position / under its declared name, unless an upstream value is wired there ...
    ensures(forall(int, lambda i: implies(i >= 0 and str(i) in ps and i not in src, i < len(A) and same(A[i], ps[str(i)]))), tag="static-values-in-declared-positions", top=True)
    ensures(forall(str, lambda k: implies(k in kw and k not in src, k in K and same(K[k], kw[k]))), tag="static-values-under-declared-names", top=True)
    # ... and nothing else: every other position is padding, no other keyword is passed
    ensures(forall(int, lambda i: implies(0 <= i and i < len(A) and i not in src and str(i) not in ps, A[i] is None)), tag="no-invented-positional")
    ensures(forall(str, lambda k: implies(k in K, k in kw or k in src)), tag="no-invented-keyword", top=True)
    raises(ValueError, len(schema) == 0, tag="task-without-output-rejected")
    # ---- outputs -------------------------------------------------------------------------------------------------------------
    observes(res="call")            # what the callable returned
    Y = yielded(res)                # for a multi-output task: the values it yields, in order
    N = len(schema)
    # one output: the returned value is stored under the only declared output
    ensures(implies(N == 1, events_len() == n0 + 2 and forall(str, lambda k: implies(k in schema, same(event(n0 + 1), ev("handle", DatasetId(taskId, k), schema[k], res, DatasetId(taskId, k) in executionContext.publish))))),
            tag="single-output-stored-under-its-name", top=True)
    # several outputs: the j-th yielded value is stored under the j-th declared output (declared outputs in their key order) ...
    ensures(implies(N > 1, events_len() == n0 + 1 + N and len(Y) == N), tag="one-store-per-declared-output", top=True)
    ensures(implies(N > 1, forall(int, lambda j: implies(0 <= j and j < N, ev_name(event(n0 + 1 + j)) == "handle" and ev_argc(event(n0 + 1 + j), 4)
                                                         and same(ev_arg(event(n0 + 1 + j), 2), Y[j])))),
            tag="jth-yield-stored-jth", top=True)
    ensures(implies(N > 1, forall(int, lambda j: implies(0 <= j and j < N,
                                                         typed(ev_arg(event(n0 + 1 + j), 0), DatasetId).task == taskId
                                                         and typed(ev_arg(event(n0 + 1 + j), 0), DatasetId).output in schema
                                                         and same(ev_arg(event(n0 + 1 + j), 1), schema[typed(ev_arg(event(n0 + 1 + j), 0), DatasetId).output])))),
            tag="stored-under-declared-outputs", top=True)
    ensures(implies(N > 1, forall(int, int, lambda j, j2: implies(0 <= j and j < j2 and j2 < N,
                                                                  typed(ev_arg(event(n0 + 1 + j), 0), DatasetId).output < typed(ev_arg(event(n0 + 1 + j2), 0), DatasetId).output))),
            tag="outputs-bound-in-key-order", top=True)
    # ... and a count mismatch is a task failure
    raises(ValueError, N > 1 and len(Y) != N, tag="count-mismatch-is-a-failure", top=True)
    # loop 0: static positional arguments are written at their positions
    invariant(0, events_len() == n0)
    invariant(0, forall(str, lambda k: implies(k in loop0_seen, k in ps and str(int(k)) == k and int(k) >= 0 and int(k) < len(args) and same(args[int(k)], ps[k]))))
    invariant(0, forall(int, lambda i: implies(0 <= i and i < len(args), args[i] is None or (str(i) in loop0_seen and same(args[i], ps[str(i)])))))
    # loop 1: upstream values overwrite / extend them
    invariant(1, events_len() == n0)
    invariant(1, forall(int, lambda p: implies(p in loop1_seen, p in src and p < len(args) and same(args[p], memory.provide(src[p][0], src[p][1])))))
    invariant(1, forall(int, lambda i: implies(i >= 0 and str(i) in ps and i not in loop1_seen, i < len(args) and same(args[i], ps[str(i)]))))
    invariant(1, forall(int, lambda i: implies(0 <= i and i < len(args) and i not in loop1_seen and str(i) not in ps, args[i] is None)))
    invariant(1, forall(str, lambda k: implies(k in loop1_seen, k in src and k in kwargs and same(kwargs[k], memory.provide(src[k][0], src[k][1])))))
    invariant(1, forall(str, lambda k: implies(k in kw and k not in loop1_seen, k in kwargs and same(kwargs[k], kw[k]))))
    invariant(1, forall(str, lambda k: implies(k in kwargs, k in kw or k in loop1_seen)))
    invariant(2, consumed(outputsI) == loop2_index and consumed(result) == loop2_index and same(result, res))
    invariant(2, events_len() == n0 + 1 + loop2_index and loop2_index <= N and loop2_index <= len(Y)
              and forall(int, lambda j: implies(0 <= j and j < loop2_index, same(event(n0 + 1 + j), ev("handle", DatasetId(taskId, outputs[j][0]), outputs[j][1], Y[j],
                                                                                              DatasetId(taskId, outputs[j][0]) in executionContext.publish)))))
    modifies("events")
