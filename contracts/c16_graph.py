"""C16 - scheduler.graph.nearest_common_descendant (the pure-Python fallback: the optional C extension `coptrs` is absent here, so this IS
the code that runs): 'the distance between two tasks is the smallest d such that some task is reachable from both within d steps (the depth
if there is none)'.  With paths[a][c] = number of steps from a to c (the depth L when c is not reachable from a - what enrich builds), the
smallest such d is  min(L, min over c of max(paths[a][c], paths[b][c]))."""
PROPERTY = "C16"


@spec
def meet(paths, a, b, c):
    # both a and b reach c within this many steps
    return paths[a][c] if paths[a][c] >= paths[b][c] else paths[b][c]


@contract("cascade.scheduler.graph:nearest_common_descendant")
def _(paths, nodes, L):
    types(paths="dict[str, dict[str, int]]", nodes="list[str]")
    n = len(nodes)
    # the component's tasks, each once; paths is total on them (enrich builds one row per task, rows are defaultdicts)
    requires(forall(int, int, lambda x, y: implies(0 <= x and x < y and y < n, nodes[x] != nodes[y])))
    requires(forall(int, int, lambda x, y: implies(0 <= x and x < n and 0 <= y and y < n, nodes[x] in paths and nodes[y] in paths[nodes[x]])))
    r = typed(result(), dict[str, dict[str, int]])
    ensures(forall(int, lambda x: implies(0 <= x and x < n, nodes[x] in r)), tag="one-row-per-task")
    ensures(forall(int, int, lambda x, y: implies(0 <= x and x < n and 0 <= y and y < n, nodes[y] in r[nodes[x]])), tag="one-entry-per-pair")
    ensures(forall(int, lambda x: implies(0 <= x and x < n, r[nodes[x]][nodes[x]] == 0)), tag="distance-to-itself-is-zero", top=True)
    # "the smallest d such that some task is reachable from both within d steps (the depth if there is none)"
    ensures(forall(int, int, lambda x, y: implies(0 <= x and x < n and 0 <= y and y < n and x != y, r[nodes[x]][nodes[y]] <= L)), tag="at-most-the-depth", top=True)
    ensures(forall(int, int, int, lambda x, y, z: implies(0 <= x and x < n and 0 <= y and y < n and x != y and 0 <= z and z < n,
                                                          r[nodes[x]][nodes[y]] <= meet(paths, nodes[x], nodes[y], nodes[z]))),
            tag="no-common-descendant-is-nearer", top=True)
    ensures(forall(int, int, lambda x, y: implies(0 <= x and x < n and 0 <= y and y < n and x != y,
                                                  r[nodes[x]][nodes[y]] == L
                                                  or exists(int, lambda z: 0 <= z and z < n and r[nodes[x]][nodes[y]] == meet(paths, nodes[x], nodes[y], nodes[z])))),
            tag="attained-by-some-common-descendant-or-the-depth", top=True)
    # ---- the fallback's three nested loops (loops 0-2 belong to the coptrs branch, which ends at `import coptrs`) -------------------------
    # rows: one finished row per task visited by the outer loop
    done_row = lambda x: (nodes[x] in ncd and forall(int, lambda y: implies(0 <= y and y < n, nodes[y] in ncd[nodes[x]]))
                          and ncd[nodes[x]][nodes[x]] == 0
                          and forall(int, lambda y: implies(0 <= y and y < n and y != x, ncd[nodes[x]][nodes[y]] <= L))
                          and forall(int, int, lambda y, z: implies(0 <= y and y < n and y != x and 0 <= z and z < n,
                                                                    ncd[nodes[x]][nodes[y]] <= meet(paths, nodes[x], nodes[y], nodes[z])))
                          and forall(int, lambda y: implies(0 <= y and y < n and y != x,
                                                            ncd[nodes[x]][nodes[y]] == L
                                                            or exists(int, lambda z: 0 <= z and z < n and ncd[nodes[x]][nodes[y]] == meet(paths, nodes[x], nodes[y], nodes[z])))))
    invariant(3, forall(int, lambda x: implies(0 <= x and x < loop3_index, done_row(x))))
    invariant(3, forall(str, lambda k: implies(k in ncd, exists(int, lambda x: 0 <= x and x < loop3_index and nodes[x] == k))))
    invariant(3, forall(str, str, lambda k1, k2: implies(k1 in ncd and k2 in ncd and k1 != k2, not same(ncd[k1], ncd[k2]))) and forall(str, lambda k: implies(k in ncd, fresh(ncd[k]))))
    # the row being filled: entries for the tasks visited by the middle loop
    done_entry = lambda y: (nodes[y] in ncd[a]
                            and implies(nodes[y] == a, ncd[a][nodes[y]] == 0)
                            and implies(nodes[y] != a, ncd[a][nodes[y]] <= L
                                        and forall(int, lambda z: implies(0 <= z and z < n, ncd[a][nodes[y]] <= meet(paths, a, nodes[y], nodes[z])))
                                        and (ncd[a][nodes[y]] == L or exists(int, lambda z: 0 <= z and z < n and ncd[a][nodes[y]] == meet(paths, a, nodes[y], nodes[z])))))
    # the middle and inner loops write ONE container: the row of the task in hand (allocated by this turn of the outer loop), so what the
    # outer invariant says about the finished rows needs no re-statement
    invariant(4, a == nodes[loop3_index] and a in ncd and forall(int, lambda y: implies(0 <= y and y < loop4_index, done_entry(y))))
    invariant(4, forall(str, lambda k: implies(k in ncd[a], exists(int, lambda y: 0 <= y and y < loop4_index and nodes[y] == k))))
    # the entry being minimised over the tasks visited by the inner loop
    invariant(5, a == nodes[loop3_index] and b == nodes[loop4_index] and b != a and a in ncd and b in ncd[a] and ncd[a][b] <= L
              and forall(int, lambda z: implies(0 <= z and z < loop5_index, ncd[a][b] <= meet(paths, a, b, nodes[z])))
              and (ncd[a][b] == L or exists(int, lambda z: 0 <= z and z < loop5_index and ncd[a][b] == meet(paths, a, b, nodes[z]))))
    invariant(5, forall(int, lambda y: implies(0 <= y and y < loop4_index, done_entry(y))))
    invariant(5, forall(str, lambda k: implies(k in ncd[a], k == b or exists(int, lambda y: 0 <= y and y < loop4_index and nodes[y] == k))))
    loop_modifies(3, values_of(ncd))
    loop_modifies(4, ncd[a])
    loop_modifies(5, ncd[a])
    modifies()
