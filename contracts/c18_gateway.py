"""C18 - the gateway attributes progress/results to the right job and keeps the newest.

Top-level clauses quote the property statement; helper clauses only carry frames.
"""
PROPERTY = "C18"

field_types("cascade.gateway.router:JobRouter", jobs="dict[str, Job]", poller="zmq.Poller")


owning("jobs")          # ghost: each Job object knows the id it is filed under
owned_field("results")  # ghost: each results dict knows the Job it belongs to


@class_invariant("cascade.gateway.router:JobRouter")
def _(self):
    # ownership: one Job object per job id, one results dict per Job (spawn_job allocates both afresh)
    holds(forall(str, lambda k: implies(k in self.jobs, key_of(self.jobs[k], "jobs") == k
                                        and same(owner_of(self.jobs[k].results, "results"), self.jobs[k]))),
          tag="one-job-object-per-id")


@contract("cascade.gateway.router:JobRouter.__init__")
def _(self, poller):
    ensures(len(self.jobs) == 0)
    modifies("jobs", "poller")


@assumed("cascade.executor.comms:get_context")
def _():
    # zmq context factory: outside the property; result is an opaque handle
    modifies("events")


@assumed("cascade.gateway.router:_spawn_subprocess")
def _(job_spec, addr, job_id):
    # starts an OS process (or submits to slurm); no gateway bookkeeping is touched; may fail
    may_raise(Exception, when=True)
    modifies("events")


@contract("cascade.low.func:next_uuid")
def _(s, g):
    types(s="set[str]", g="Callable")
    invariant(0, True)
    # "job identifiers are never reused": the id handed out is not among the ids in use
    ensures(result() not in s, tag="fresh-id", top=True)
    modifies("events")


@contract("cascade.gateway.router:JobRouter.spawn_job")
def _(self, job_spec):
    types(job_spec="Any")
    # "job identifiers are never reused": ids are never removed from self.jobs and a new id is not in it
    ensures(not old(result() in self.jobs) and result() in self.jobs, tag="new-id-unused", top=True)
    ensures(forall(str, lambda k: implies(old(k in self.jobs), k in self.jobs and same(self.jobs[k], old(self.jobs[k]))
                                          and self.jobs[k].progress == old(self.jobs[k].progress)
                                          and self.jobs[k].last_seen == old(self.jobs[k].last_seen)
                                          and same(self.jobs[k].results, old(self.jobs[k].results)))),
            tag="existing-jobs-kept", top=True)
    ensures(self.jobs[result()].progress == JobProgressStarted and len(self.jobs[result()].results) == 0, tag="starts-empty")
    may_raise(Exception, when=True)   # spawning a subprocess may fail; handle_fe turns that into an error response
    # ... and a failed spawn leaves every existing job as it was ("keeps serving the other jobs")
    ensures_raise(Exception, forall(str, lambda k: implies(old(k in self.jobs), k in self.jobs and same(self.jobs[k], old(self.jobs[k]))
                                                       and self.jobs[k].progress == old(self.jobs[k].progress)
                                                       and self.jobs[k].last_seen == old(self.jobs[k].last_seen)
                                                       and same(self.jobs[k].results, old(self.jobs[k].results)))),
                  tag="failed-spawn-keeps-existing-jobs", top=True)
    modifies(self.jobs, "events", "socket", "progress", "last_seen", "results")


@contract("cascade.gateway.router:JobRouter.maybe_update")
def _(self, job_id, progress, timestamp):
    requires(job_id in self.jobs)
    j = self.jobs[job_id]
    is_real = progress is not None and progress != JobProgressShutdown
    # "the progress shown is the one carried by the progress report with the greatest timestamp":
    # a strictly newer report is taken over together with its timestamp ...
    ensures(implies(is_real and timestamp > old(j.last_seen), j.progress == progress and j.last_seen == timestamp),
            tag="newer-report-wins", top=True)
    # ... "an older report arriving late never overwrites a newer one" ...
    ensures(implies(is_real and timestamp < old(j.last_seen), j.progress == old(j.progress) and j.last_seen == old(j.last_seen)),
            tag="older-report-ignored", top=True)
    # ... a tie may go either way, but never invents a value
    ensures(implies(is_real and timestamp == old(j.last_seen),
                    j.last_seen == old(j.last_seen) and (j.progress == old(j.progress) or j.progress == progress)),
            tag="tie-keeps-or-takes", top=True)
    # "the final shutdown notice does not erase it"; a report without progress changes nothing
    ensures(implies(not is_real, j.progress == old(j.progress) and j.last_seen == old(j.last_seen)),
            tag="shutdown-or-none-keeps-progress", top=True)
    # whole view: every other job is untouched, results untouched, no job appears or disappears
    ensures(forall(str, lambda k: implies(k in self.jobs and k != job_id,
                                          self.jobs[k].progress == old(self.jobs[k].progress)
                                          and self.jobs[k].last_seen == old(self.jobs[k].last_seen))),
            tag="other-jobs-untouched", top=True)
    modifies("progress", "last_seen", "events")


@contract("cascade.gateway.router:JobRouter.put_result")
def _(self, job_id, dataset_id, result):
    requires(job_id in self.jobs)
    r = self.jobs[job_id].results
    # "a result is returned exactly as uploaded and only for the job and dataset it was uploaded for"
    ensures(dataset_id in r and same(r[dataset_id], result), tag="stored-as-uploaded", top=True)
    ensures(forall(Any, lambda d: implies(not same(d, dataset_id), (d in r) == old(d in r) and implies(d in r, same(r[d], old(r[d]))))),
            tag="other-datasets-untouched", top=True)
    # ... "only for the job it was uploaded for": no other job's results change
    ensures(forall(str, Any, lambda k, d: implies(k in self.jobs and k != job_id,
                                                        (d in self.jobs[k].results) == old(d in self.jobs[k].results)
                                                        and implies(d in self.jobs[k].results, same(self.jobs[k].results[d], old(self.jobs[k].results[d]))))),
            tag="other-jobs-results-untouched", top=True)
    modifies(self.jobs[job_id].results)


@contract("cascade.gateway.router:JobRouter.get_result")
def _(self, job_id, dataset_id):
    known = job_id in self.jobs and dataset_id in self.jobs[job_id].results
    # "a request naming an unknown job or dataset gets an error": at this level, a KeyError (turned into an error response by handle_fe)
    raises(KeyError, when=not known, tag="unknown-job-or-dataset-is-an-error", top=True)
    ensures(same(result(), self.jobs[job_id].results[dataset_id]), tag="returns-uploaded-bytes", top=True)
    modifies()


treat_as_record("cascade.controller.report:ControllerReport")
pure_function("cascade.controller.report:deserialize", returns="ControllerReport", module="cascade.controller.report")
external_returns(recv="bytes")


@contract("cascade.gateway.server:handle_controller")
def _(socket, jobs):
    types(socket="zmq.Socket")
    observes(raw="recv")
    rep = deserialize(raw)
    res = rep.results
    requires(rep.job_id in jobs.jobs)
    requires(forall(str, lambda k: implies(k in jobs.jobs, key_of(jobs.jobs[k], "jobs") == k and same(owner_of(jobs.jobs[k].results, "results"), jobs.jobs[k]))))
    store = jobs.jobs[rep.job_id].results
    # a report names each dataset at most once (the Reporter uploads one result per report); duplicates inside ONE report are outside the claim
    requires(forall(int, int, lambda a, b: implies(0 <= a and a < b and b < len(res), typed(res[a], tuple[DatasetId, bytes])[0] != typed(res[b], tuple[DatasetId, bytes])[0])))
    # "a result is returned exactly as uploaded ... for the job and dataset it was uploaded for": EVERY result carried by a report is
    # stored under its dataset, unchanged - whatever else the report carries (progress, shutdown notice)
    ensures(forall(int, lambda i: implies(0 <= i and i < len(res), typed(res[i], tuple[DatasetId, bytes])[0] in store
                                          and same(store[typed(res[i], tuple[DatasetId, bytes])[0]], typed(res[i], tuple[DatasetId, bytes])[1]))),
            tag="every-uploaded-result-is-stored-as-uploaded", top=True)
    invariant(0, forall(int, lambda i: implies(0 <= i and i < loop0_index, typed(res[i], tuple[DatasetId, bytes])[0] in store)))
    invariant(0, forall(int, lambda i: implies(0 <= i and i < loop0_index, same(store[typed(res[i], tuple[DatasetId, bytes])[0]], typed(res[i], tuple[DatasetId, bytes])[1]))))
    invariant(0, rep.job_id in jobs.jobs)
    invariant(0, forall(str, lambda k: (k in jobs.jobs) == old(k in jobs.jobs) and implies(k in jobs.jobs, same(jobs.jobs[k], old(jobs.jobs[k])) and same(jobs.jobs[k].results, old(jobs.jobs[k].results)))))
    invariant(0, forall(str, lambda k: implies(k in jobs.jobs, key_of(jobs.jobs[k], "jobs") == k and same(owner_of(jobs.jobs[k].results, "results"), jobs.jobs[k]))))
    modifies(jobs.jobs[rep.job_id].results, "progress", "last_seen", "events")


@contract("cascade.gateway.router:JobRouter.progress_of")
def _(self, job_ids):
    types(job_ids="list[str]")
    # (the body re-binds the parameter: clauses name the value on entry through old(..))
    unknown = exists(int, lambda i: 0 <= i and i < len(job_ids) and job_ids[i] not in self.jobs)
    # "a request naming an unknown job ... gets an error": at this level a KeyError (handle_fe turns it into an error response)
    raises(KeyError, when=unknown, tag="unknown-job-is-an-error", top=True)
    r = typed(result(), dict[str, str])
    # "the progress the gateway shows for a job": what is reported for a job is that job's stored progress, for exactly the jobs asked for
    # (all jobs when none is named)
    ensures(forall(str, lambda k: implies(k in r, k in self.jobs and r[k] == self.jobs[k].progress)), tag="shows-the-stored-progress-of-that-job", top=True)
    ensures(forall(int, lambda i: implies(0 <= i and i < old(len(job_ids)), old(job_ids[i]) in r)), tag="every-named-job-is-answered", top=True)
    ensures(implies(old(len(job_ids)) == 0, forall(str, lambda k: (k in r) == (k in self.jobs))), tag="no-name-means-all-jobs", top=True)
    ensures(implies(old(len(job_ids)) > 0, forall(str, lambda k: implies(k in r, exists(int, lambda i: 0 <= i and i < old(len(job_ids)) and old(job_ids[i]) == k)))),
            tag="only-named-jobs-are-answered", top=True)
    modifies()


pure_function("cascade.gateway.client:parse_request", returns="SubmitJobRequest | JobProgressRequest | ResultRetrievalRequest | ShutdownRequest", module="cascade.gateway.api")
pure_function("cascade.gateway.client:serialize_response", returns="bytes", module="cascade.gateway.api")
external_returns(b64encode="bytes")


@contract("cascade.gateway.server:handle_fe")
def _(socket, jobs):
    types(socket="zmq.Socket")
    observes(rr="recv", enc="b64encode")
    m = parse_request(rr)
    requires(forall(str, lambda k: implies(k in jobs.jobs, key_of(jobs.jobs[k], "jobs") == k and same(owner_of(jobs.jobs[k].results, "results"), jobs.jobs[k]))))
    # "a request naming an unknown job or dataset gets an error response and the gateway keeps serving the other jobs":
    # whatever the request, handle_fe answers (exactly one send, last) instead of raising, and no job's progress or results change
    ensures(events_len() >= old(events_len()) + 2 and ev_name(event(events_len() - 1)) == "send", tag="every-request-is-answered", top=True)
    ensures(forall(str, lambda k: implies(old(k in jobs.jobs), k in jobs.jobs and same(jobs.jobs[k], old(jobs.jobs[k])))), tag="no-job-is-dropped-or-replaced", top=True)
    ensures(forall(str, lambda k: implies(old(k in jobs.jobs), jobs.jobs[k].progress == old(jobs.jobs[k].progress) and jobs.jobs[k].last_seen == old(jobs.jobs[k].last_seen))),
            tag="progress-of-every-job-kept", top=True)
    ensures(forall(str, lambda k: implies(old(k in jobs.jobs), same(jobs.jobs[k].results, old(jobs.jobs[k].results)))), tag="results-of-every-job-kept", top=True)
    ensures(result() == isinstance(m, ShutdownRequest), tag="stops-only-on-shutdown-request")
    rq = typed(m, ResultRetrievalRequest)
    known = isinstance(m, ResultRetrievalRequest) and rq.job_id in jobs.jobs and rq.dataset_id in jobs.jobs[rq.job_id].results
    sent = ev_arg(event(events_len() - 1), 0)
    # "a result is returned exactly as uploaded and only for the job and dataset it was uploaded for": the answer carries the base64 text of
    # exactly the bytes stored under (job, dataset) - base64.b64encode is the dependency, its argument and result are named here
    ensures(implies(old(known), same(event(events_len() - 2), ev("b64encode", old(jobs.jobs[rq.job_id].results[rq.dataset_id])))
                    and same(sent, serialize_response(ResultRetrievalResponse(result=enc, error=None)))), tag="result-returned-as-uploaded", top=True)
    # "a request naming an unknown job or dataset gets an error response"
    ensures(implies(isinstance(m, ResultRetrievalRequest) and not old(known),
                    exists(str, lambda e: same(sent, serialize_response(ResultRetrievalResponse(result=None, error=e))))),
            tag="unknown-job-or-dataset-gets-an-error-response", top=True)
    pq = typed(m, JobProgressRequest)
    unknown_job = isinstance(m, JobProgressRequest) and exists(int, lambda i: 0 <= i and i < len(pq.job_ids) and pq.job_ids[i] not in jobs.jobs)
    ensures(implies(old(unknown_job), exists(str, dict[str, str], lambda e, d: len(d) == 0 and same(sent, serialize_response(JobProgressResponse(progresses=d, error=e))))),
            tag="unknown-job-gets-an-error-response", top=True)
    modifies(jobs.jobs, "events", "socket", "progress", "last_seen", "results")
