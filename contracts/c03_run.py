"""C03 / C05 - controller.impl.run: 'the controller finishes ... and then shuts the executors down' - on every way out of the loop, normal or
exceptional.  Every step of the loop (initialize / assign / act / plan / flush_queues / notify, the bridge, the reporter) is an ASSUMED
contract that may do anything to the State and may raise: what is proved is the skeleton that surrounds them."""
PROPERTY = "C03"

stub_class("BridgeH")
stub_class("ReporterH")


@assumed("cascade.scheduler.api:initialize")
def _(environment, preschedule, outputs):
    may_raise(Exception, when=True)
    modifies()


@assumed("cascade.scheduler.api:assign")
def _(state, job, env):
    may_raise(Exception, when=True)
    modifies("events", "computable", "remaining", "ongoing_total")


@assumed("cascade.scheduler.api:plan")
def _(state, assignments):
    may_raise(Exception, when=True)
    modifies("events", "computable", "remaining", "ongoing_total")


@assumed("cascade.controller.act:act")
def _(bridge, state, assignment):
    may_raise(Exception, when=True)
    modifies("events")


@assumed("cascade.controller.act:flush_queues")
def _(bridge, state):
    may_raise(Exception, when=True)
    modifies("events", "computable", "remaining", "ongoing_total")


@assumed("cascade.controller.notify:notify")
def _(state, job, events, reporter):
    may_raise(Exception, when=True)
    modifies("events", "computable", "remaining", "ongoing_total")


@assumed("cascade.scheduler.core:has_computable")
def _(state):
    modifies()


@assumed("cascade.scheduler.core:has_awaitable")
def _(state):
    modifies()


@assumed("cascade.controller.report:Reporter.__init__")
def _(self, report_address):
    # the last step before the loop is entered (parses the address, opens a PUSH socket): its ghost entry marks "the loop was reached"
    logs("loop_reached")
    modifies("socket", "job_id", "events")


@assumed("cascade.controller.report:Reporter.shutdown")
def _(self):
    logs("reporter_shutdown")
    modifies()


@assumed("cascade.executor.bridge:Bridge.shutdown")
def _(self):
    logs("bridge_shutdown")
    modifies("events")


@assumed("cascade.executor.bridge:Bridge.get_environment")
def _(self):
    modifies()


@assumed("cascade.executor.bridge:Bridge.recv_events")
def _(self):
    logs("recv_events")
    may_raise(ValueError, when=True)
    modifies("events")


@assumed("cascade.executor.serde:SerdeRegistry.register")
def _(cls, t, ser, des):
    may_raise(Exception, when=True)
    modifies()


pure_function("cascade.low.core:type_dec", returns="Any")


@contract("cascade.controller.impl:run", also=["C05"])
def _(job, bridge, preschedule, report_address):
    may_raise(Exception, when=True)
    shut = (events_len() >= 2 and same(event(events_len() - 2), ev("bridge_shutdown")) and same(event(events_len() - 1), ev("reporter_shutdown")))
    # "... and then shuts the executors down": whatever happens inside the loop - completion, a failure notice turned into an exception by the
    # bridge, a crash of the controller's own bookkeeping - the last two things run() does are bridge.shutdown() and reporter.shutdown()
    ensures(shut and same(result(), state), tag="executors-shut-down-on-completion", top=True)
    ensures_raise(Exception, implies(logged(ev("loop_reached")), shut), tag="executors-shut-down-on-failure", top=True)
    invariant(0, True)
    invariant(1, logged(ev("loop_reached")))
    invariant(2, logged(ev("loop_reached")))
    modifies("events", "computable", "remaining", "ongoing_total", "socket", "job_id")
