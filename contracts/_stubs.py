"""Declarations of external object shapes used by contracts (no repository code)."""

# multiprocessing.Process as seen by Executor: only exitcode / pid are read by the code under contract
stub_class("ProcHandle", exitcode="int | None", pid="int")
