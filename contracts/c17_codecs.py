"""C17 - the pickle-based encodings: executor messages, payload framing, controller reports.

pickle is a dependency: `codec_pair` ASSUMES loads(dumps(v)) == v.  What is PROVED is that the repository's own code composes
the dependency correctly: the decoder applied to exactly what the encoder produced gives the original back - for every message,
whichever of the repository's functions produced the frames (ser_message, ReliableSender.send, send_data, callback) - and that
`report.deserialize` rejects anything that is not a report.
"""
PROPERTY = "C17"

codec_pair("pickle", enc="pickle.dumps", dec="pickle.loads")
treat_as_record("cascade.controller.report:ControllerReport")


@harness("serde-message-roundtrip", module="cascade.executor.serde")
def _(m: Message):
    r = des_message(ser_message(m))
    ensures(r == m, tag="decode-of-encode-is-identity", top=True)


@harness("report-roundtrip", module="cascade.controller.report")
def _(rep: ControllerReport):
    r = deserialize(serialize(rep))
    ensures(r == rep, tag="decode-of-encode-is-identity", top=True)


@harness("report-rejects-non-report", module="cascade.controller.report")
def _(x: Any):
    requires(not isinstance(x, ControllerReport))
    raised = False
    try:
        r = deserialize(pickle.dumps(x))
    except TypeError:
        raised = True
    ensures(raised, tag="non-report-rejected-not-delivered", top=True)


# ---- framing: what the sending functions put on the wire is what Listener._recv_one turns back into the message ------------------
field_types("cascade.executor.comms:Listener", acked="set[Syn]", poller="zmq.Poller", socket="zmq.Socket", address="str")
field_types("cascade.executor.comms:ReliableSender", hosts="dict[str, tuple[zmq.Socket, str]]", inflight="dict[int, _InFlightRecord]",
            idx="int", resend_grace="int", address="str")
external_returns(poll="list[tuple[zmq.Socket, int]]", recv_multipart="list[bytes]")


@assumed("cascade.executor.comms:get_socket")
def _(address):
    # opens a zmq PUSH socket: outside the property (its set-up calls are not recorded; what is SENT on it is)
    modifies()


@harness("framing-reliable-send", module="cascade.executor.comms")
def _(sender: ReliableSender, listener: Listener, host: str, m: Message):
    observes(ready="poll", data="recv_multipart")
    requires(host in sender.hosts)
    requires(not isinstance(m, Syn))   # Syn is the envelope of this layer, never its payload
    sender.send(host, m)
    rejected = False
    r = None
    try:
        r = listener._recv_one(None)
    except Exception:
        rejected = True   # frames other than the ones sent may be malformed or undecodable (C06 decides those)
    # event(old(events_len())) is the call send() made on the socket: send_multipart((syn_frame, message_frame))
    ensures(ev_name(event(old(events_len()))) == "send_multipart", tag="send-puts-frames-on-the-socket")
    # the frames of send(), delivered as they are to a listener that has not seen this Syn: accepted, and the application gets exactly m
    ensures(implies(len(ready) == 1 and len(data) == 2
                    and same(data[0], typed(ev_arg(event(old(events_len())), 0), tuple[bytes, bytes])[0])
                    and same(data[1], typed(ev_arg(event(old(events_len())), 0), tuple[bytes, bytes])[1])
                    and not old(Syn(sender.idx, sender.address) in listener.acked),
                    not rejected and r == m), tag="decode-of-encode-is-identity", top=True)


@harness("framing-send-data", module="cascade.executor.comms")
def _(listener: Listener, address: str, payload: DatasetTransmitPayload, syn: Syn):
    observes(ready="poll", data="recv_multipart")
    send_data(address, payload, syn)
    rejected = False
    r = None
    try:
        r = listener._recv_one(None)
    except Exception:
        rejected = True
    # send_data's call on the socket is send_multipart((syn_frame, header_frame, value)); delivered as it is to a listener that has
    # not seen this Syn, the application gets the payload: same header, same bytes
    ensures(ev_name(event(old(events_len()))) == "send_multipart", tag="send-data-puts-frames-on-the-socket")
    ensures(implies(len(ready) == 1 and len(data) == 3
                    and same(data[0], typed(ev_arg(event(old(events_len())), 0), tuple[bytes, bytes, bytes])[0])
                    and same(data[1], typed(ev_arg(event(old(events_len())), 0), tuple[bytes, bytes, bytes])[1])
                    and same(data[2], typed(ev_arg(event(old(events_len())), 0), tuple[bytes, bytes, bytes])[2])
                    and not old(syn in listener.acked),
                    not rejected and r == payload), tag="payload-frames-decode-to-the-payload", top=True)


@harness("framing-local-callback", module="cascade.executor.comms")
def _(listener: Listener, address: str, m: Message):
    observes(ready="poll", data="recv_multipart")
    requires(not isinstance(m, Syn))   # local traffic is never a Syn (callback is documented as local-only)
    callback(address, m)
    rejected = False
    r = None
    try:
        r = listener._recv_one(None)
    except Exception:
        rejected = True
    ensures(ev_name(event(old(events_len()))) == "send", tag="callback-puts-one-frame-on-the-socket")
    ensures(implies(len(ready) == 1 and len(data) == 1 and same(data[0], ev_arg(event(old(events_len())), 0)), not rejected and r == m),
            tag="local-frame-decodes-to-the-message", top=True)
