"""Per-function obligations on the controller's small functions (C02 / C03 / C04).

The whole-history clauses of C01-C04 are explored by ctrlx (bounded); what is PROVED here is the local decision rule of each
function, for every State: when a dataset is queued for purging / fetching, what act() commands, how completion is recognised.
"""
PROPERTY = "C04"


@assumed("cascade.executor.bridge:Bridge.transmit")
def _(self, ds, source, target):
    logs("transmit", ds, source, target)   # exactly this one entry is appended to the external-call log
    modifies("transmit_idx_counter")


@assumed("cascade.executor.bridge:Bridge.task_sequence")
def _(self, taskSequence):
    logs("task_sequence", taskSequence)
    modifies()


@contract("cascade.controller.notify:consider_purge")
def _(state, dataset):
    no_consumer_left = dataset not in state.purging_tracker or len(state.purging_tracker[dataset]) == 0
    delivered_if_requested = dataset not in state.outputs or state.outputs[dataset] is not None
    go = no_consumer_left and delivered_if_requested
    q = state.purging_queue
    # "commands a host to drop a dataset only after every task that consumes it has completed and, if the dataset was requested
    #  by the caller, after its value has reached the caller": it is queued for dropping under exactly that condition
    ensures(implies(not old(go), len(q) == old(len(q)) and forall(int, lambda i: implies(0 <= i and i < len(q), same(q[i], old(q[i]))))
                    and forall(DatasetId, lambda d: (d in state.purging_tracker) == old(d in state.purging_tracker))),
            tag="not-queued-while-needed", top=True)
    ensures(implies(old(go), len(q) == old(len(q)) + 1 and same(q[len(q) - 1], dataset)
                    and forall(int, lambda i: implies(0 <= i and i < old(len(q)), same(q[i], old(q[i]))))
                    and dataset not in state.purging_tracker
                    and forall(DatasetId, lambda d: implies(d != dataset, (d in state.purging_tracker) == old(d in state.purging_tracker)))),
            tag="queued-once-when-free", top=True)
    ensures(same(result(), state))
    modifies(state.purging_queue, state.purging_tracker)


@contract("cascade.controller.notify:consider_fetch")
def _(state, dataset, at):
    go = dataset in state.outputs and state.outputs[dataset] is None and dataset not in state.fetching_queue
    f = state.fetching_queue
    # a fetch is queued only for a requested output whose value has not arrived, from the host that just announced it
    ensures(implies(old(go), dataset in f and f[dataset] == at), tag="fetch-queued-for-missing-requested-output", top=True)
    ensures(implies(not old(go), (dataset in f) == old(dataset in f) and implies(dataset in f, f[dataset] == old(f[dataset]))), tag="no-fetch-otherwise", top=True)
    ensures(forall(DatasetId, lambda d: implies(d != dataset, (d in f) == old(d in f) and implies(d in f, f[d] == old(f[d])))), tag="other-entries-untouched")
    ensures(same(result(), state))
    modifies(state.fetching_queue)


@contract("cascade.controller.notify:is_last_output_of", prop="C02")
def _(dataset, job):
    schema = job.tasks[dataset.task].definition.output_schema
    requires(dataset.task in job.tasks and len(schema) >= 1)
    # completion is recognised on the output the runner publishes last: the greatest key in sorted order
    ensures(result() == (dataset.output in schema and forall(str, lambda k: implies(k in schema, k <= dataset.output))),
            tag="last-output-is-greatest-key", top=True)
    modifies()


@contract("cascade.scheduler.core:has_awaitable", prop="C03")
def _(state):
    # "never waits for events when nothing is outstanding": waiting is requested iff a task is running or a requested output is missing
    ensures(result() == (state.ongoing_total > 0 or exists(Any, lambda d: d in state.outputs and state.outputs[d] is None)),
            tag="awaitable-iff-ongoing-or-missing-output", top=True)
    modifies()


@contract("cascade.scheduler.core:has_computable", prop="C03")
def _(state):
    ensures(result() == (state.computable > 0), tag="computable-iff-counter-positive")
    modifies()


@spec
def is_transmit_into(e, host):
    # e is the log entry of bridge.transmit(ds, source, target) with target == host and source != host
    return ev_name(e) == "transmit" and ev_argc(e, 3) and same(ev_arg(e, 2), host) and not same(ev_arg(e, 1), host)


@contract("cascade.controller.act:act", prop="C02")
def _(bridge, state, assignment):
    types(bridge="Bridge")
    preps = assignment.prep
    here = assignment.worker.host
    n0 = old(events_len())
    # every command act() issues before the task sequence is a transfer INTO the assigned worker's host FROM another host
    # (a preparation whose source is the worker's own host is a no-op, never a self-transfer)
    ensures(forall(int, lambda j: implies(n0 <= j and j < events_len() - 1, is_transmit_into(event(j), here))),
            tag="only-inbound-transfers-commanded", top=True)
    ensures(events_len() - 1 - n0 <= len(preps), tag="at-most-one-transfer-per-preparation", top=True)
    # the task sequence is sent once, last, to the assigned worker with the assigned tasks and outputs
    ensures(events_len() >= n0 + 1 and same(event(events_len() - 1), ev("task_sequence", TaskSequence(assignment.worker, assignment.tasks, assignment.outputs))),
            tag="task-sequence-sent-once-last", top=True)
    invariant(0, events_len() >= n0 and events_len() - n0 <= loop0_index
              and forall(int, lambda j: implies(n0 <= j and j < events_len(), is_transmit_into(event(j), here))))
    invariant(1, True)
    modifies("events", "transmit_idx_counter")
