"""C07 - 'the target host ends up holding exactly one copy of the dataset whose bytes and decoding function equal the source's,
and announces its arrival exactly once'.  Functions under contract: DataServer.store_payload (target side) and
DataServer.send_payload (source side).  The shm client and the zmq helpers are assumed (event-logging) contracts."""
PROPERTY = "C07"

field_types("cascade.executor.data_server:DataServer", host="str", maddress="str", daddress="str", dlistener="Listener")
load_class("cascade.shm.client:ConflictError")
load_class("cascade.shm.client:AllocatedBuffer")
pure_function("cascade.executor.runner.memory:ds2shmid", returns="str")


@assumed("cascade.shm.client:allocate")
def _(key, l, deser_fun, timeout_sec):
    logs("allocate", key, l, deser_fun)
    may_raise(ConflictError, True)     # the dataset is already there (a redundant transfer)
    may_raise(Exception, True)         # shm daemon unreachable, out of space, ...
    modifies()


@assumed("cascade.shm.client:AllocatedBuffer.view")
def _(self):
    logs("view", self)
    may_raise(ValueError, True)
    modifies()


@assumed("cascade.shm.client:AllocatedBuffer.close")
def _(self):
    logs("close", self)
    may_raise(Exception, True)
    modifies()


@assumed("cascade.executor.comms:callback")
def _(address, msg):
    logs("callback", address, msg)
    modifies()


@contract("cascade.executor.data_server:DataServer.store_payload")
def _(self, payload):
    ds = payload.header.ds
    n0 = old(events_len())
    # never raises: every failure is reported to the controller instead
    # an announcement is made at most once, last, and only after allocate(key of ds, len(value), the SOURCE's deser_fun) ->
    # view -> write of exactly the payload bytes -> close  have all succeeded
    ensures(forall(int, lambda j: implies(n0 <= j and j < events_len() and ev_name(event(j)) == "callback" and isinstance(ev_arg(event(j), 1), DatasetPublished),
                                          j == n0 + 4 and events_len() == n0 + 5
                                          and same(event(n0), ev("allocate", ds2shmid(ds), len(payload.value), payload.header.deser_fun))
                                          and ev_name(event(n0 + 1)) == "view" and ev_name(event(n0 + 2)) == "setslice" and ev_name(event(n0 + 3)) == "close"
                                          and ev_argc(event(n0 + 2), 4) and ev_arg(event(n0 + 2), 1) is None and same(ev_arg(event(n0 + 2), 2), len(payload.value))
                                          and same(ev_arg(event(n0 + 2), 3), payload.value)
                                          and same(ev_arg(event(n0 + 1), 0), ev_arg(event(n0 + 3), 0)))),
            tag="announced-only-after-the-bytes-are-stored", top=True)
    ensures(forall(int, lambda j: implies(n0 <= j and j < events_len() and ev_name(event(j)) == "callback" and isinstance(ev_arg(event(j), 1), DatasetPublished),
                                          same(event(j), ev("callback", self.maddress, DatasetPublished(self.host, ds, payload.header.confirm_idx))))),
            tag="announcement-names-dataset-host-and-transfer", top=True)
    ensures(forall(int, int, lambda j, j2: implies(n0 <= j and j < j2 and j2 < events_len(), not (ev_name(event(j)) == "callback" and ev_name(event(j2)) == "callback"))),
            tag="at-most-one-report", top=True)
    ensures(forall(int, lambda j: implies(n0 <= j and j < events_len() and ev_name(event(j)) == "callback",
                                          same(ev_arg(event(j), 0), self.maddress)
                                          and (isinstance(ev_arg(event(j), 1), DatasetPublished)
                                               or (isinstance(ev_arg(event(j), 1), DatasetTransmitFailure) and typed(ev_arg(event(j), 1), DatasetTransmitFailure).host == self.host)))),
            tag="reports-go-to-the-controller", top=True)
    modifies("events")


@assumed("cascade.shm.client:get")
def _(key, timeout_sec):
    logs("get", key)
    may_raise(Exception, True)         # unknown dataset, shm daemon unreachable ...
    modifies()


@assumed("cascade.executor.comms:send_data")
def _(address, data, syn):
    logs("send_data", address, data, syn)
    may_raise(Exception, True)
    modifies()


@spec
def is_send(e):
    return ev_name(e) == "send_data" and ev_argc(e, 3)


@contract("cascade.executor.data_server:DataServer.send_payload")
def _(self, command):
    n0 = old(events_len())
    addressed_here = command.source == self.host and command.target != self.host
    # a payload leaves this host only for a command addressed from it to ANOTHER host, after the dataset was obtained from shared
    # memory under its own key; it carries the dataset id, the decoding function stored WITH the bytes, the command's index as the
    # confirmation index, and is sent to the address the command names
    ensures(forall(int, lambda j: implies(n0 <= j and j < events_len() and is_send(event(j)),
                                          addressed_here and j == n0 + 2
                                          and same(event(n0), ev("get", ds2shmid(command.ds))) and ev_name(event(n0 + 1)) == "view"
                                          and same(ev_arg(event(j), 0), command.daddress)
                                          and typed(ev_arg(event(j), 1), DatasetTransmitPayload).header.ds == command.ds
                                          and typed(ev_arg(event(j), 1), DatasetTransmitPayload).header.confirm_idx == command.idx
                                          and typed(ev_arg(event(j), 1), DatasetTransmitPayload).header.confirm_address == self.daddress
                                          and typed(ev_arg(event(j), 1), DatasetTransmitPayload).header.deser_fun == typed(ev_arg(event(n0 + 1), 0), AllocatedBuffer).deser_fun
                                          and same(ev_arg(event(j), 2), Syn(command.idx, self.dlistener.address)))),
            tag="payload-sent-as-commanded", top=True)
    ensures(implies(not old(addressed_here), events_len() == n0 + 1), tag="misaddressed-command-touches-nothing", top=True)
    # whatever happens, a buffer that was opened is closed again (the reader registration is released), and failures are reported
    ensures(forall(int, lambda j: implies(n0 <= j and j < events_len() and ev_name(event(j)) == "view",
                                          ev_name(event(events_len() - 1)) == "close" and same(ev_arg(event(events_len() - 1), 0), ev_arg(event(j), 0)))),
            tag="opened-buffer-is-closed")
    ensures(forall(int, lambda j: implies(n0 <= j and j < events_len() and ev_name(event(j)) == "callback",
                                          same(ev_arg(event(j), 0), self.maddress) and isinstance(ev_arg(event(j), 1), DatasetTransmitFailure)
                                          and typed(ev_arg(event(j), 1), DatasetTransmitFailure).host == self.host)),
            tag="failures-reported-to-the-controller", top=True)
    may_raise(Exception, True)   # only from buf.close() in the finally block
    modifies("events")


# ---- maybe_clean: a transfer's future leaves the bookkeeping only after it was dealt with ---------------------------------------------
field_types("cascade.executor.data_server:DataServer", futs_in_progress="dict[DatasetTransmitCommand | DatasetTransmitPayload, JobFuture]",
            awaiting_confirmation="dict[int, tuple[DatasetTransmitCommand, int]]", cap="int")
stub_class("JobFuture")   # concurrent.futures.Future as seen by the data server
external_returns(done="bool")
pure_external_method("JobFuture.result", returns="int")          # of a future that is done: what the job returned (send_payload / store_payload return a time)
pure_external_method("JobFuture.exception")                      # of a future that is done: what the job raised, or None


@contract("cascade.executor.data_server:DataServer.maybe_clean")
def _(self):
    futs = self.futs_in_progress
    conf = self.awaiting_confirmation
    requires(self.cap >= 1)
    # transfer indices identify commands (the bridge hands out a fresh index per command; a retry re-submits the SAME command)
    requires(forall(DatasetTransmitCommand, DatasetTransmitCommand, lambda k1, k2: implies(k1 in futs and k2 in futs and k1 != k2, k1.idx != k2.idx)))
    # "even if payloads or confirmations are lost ... or retried": a send whose future is taken off the books WITHOUT an error must have its
    # completion time recorded under its transfer index - that record is what the retry pass of recv_loop works from; a future is never
    # dropped unseen
    ensures(forall(DatasetTransmitCommand, lambda k: implies(old(k in futs) and k not in futs and old(futs[k]).exception() is None,
                                                             k.idx in conf and conf[k.idx] == (k, old(futs[k]).result()))),
            tag="completed-send-is-recorded-for-confirmation", top=True)
    ensures(len(futs) < self.cap, tag="returns-with-room-for-a-new-job")
    ensures(forall(Any, lambda k: implies(k in futs, old(k in futs) and same(futs[k], old(futs[k])))), tag="no-future-appears")
    invariant(0, forall(Any, lambda k: implies(k in futs, old(k in futs) and same(futs[k], old(futs[k])))))
    invariant(0, forall(DatasetTransmitCommand, lambda k: implies(old(k in futs) and k not in futs and old(futs[k]).exception() is None,
                                                                  k.idx in conf and conf[k.idx] == (k, old(futs[k]).result()))))
    invariant(1, forall(Any, lambda k: implies(k in futs, old(k in futs) and same(futs[k], old(futs[k])))))
    invariant(1, forall(DatasetTransmitCommand, lambda k: implies(old(k in futs) and k not in futs and old(futs[k]).exception() is None,
                                                                  k.idx in conf and conf[k.idx] == (k, old(futs[k]).result()))))
    invariant(1, forall(int, lambda i: implies(loop1_index <= i and i < len(keys), keys[i] in futs)))
    invariant(1, forall(int, int, lambda i, j: implies(0 <= i and i < j and j < len(keys), keys[i] != keys[j])))
    modifies(self.futs_in_progress, self.awaiting_confirmation, "events")
