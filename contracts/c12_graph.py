"""C12 - serialising a graph loses nothing: what one node / one input reference contributes to the serialised form.
Functions under contract: graph.nodes.Output.serialise, Node.serialise, Node.get_output (the decoder's lookup).  The whole-graph
round trip (topological rebuild in export.deserialise, JSON, the Cascade file format) stays with the bounded stand-in."""
PROPERTY = "C12"

field_types("earthkit.workflows.graph.nodes:Node", name="str", inputs="dict[str, Output]", outputs="list[str]", payload="Any")
field_types("earthkit.workflows.graph.nodes:Output", parent="Node", name="str")
external_returns(hasattr="bool")
inline("earthkit.workflows.graph.nodes:Node._make_output")
inline("earthkit.workflows.graph.nodes:Output.__init__")


@contract("earthkit.workflows.graph.nodes:Output.serialise")
def _(self):
    # a reference to the default output is written as the parent's name alone, any other as the pair (parent name, output name):
    # the two shapes are distinguishable (str vs tuple) and each determines (parent name, output name)
    ensures(implies(self.name == "0", same(result(), self.parent.name)), tag="default-output-as-parent-name", top=True)
    ensures(implies(self.name != "0", same(result(), (self.parent.name, self.name))), tag="named-output-as-pair", top=True)
    modifies()


@contract("earthkit.workflows.graph.nodes:Node.get_output")
def _(self, name):
    types(name="str | None")
    wanted = "0" if name is None else typed(name, str)
    present = exists(int, lambda i: 0 <= i and i < len(self.outputs) and self.outputs[i] == wanted)
    # the decoder's lookup: an existing output is returned as a reference to exactly (this node, that name); a missing one is an error
    ensures(typed(result(), Output).parent is self and typed(result(), Output).name == wanted, tag="reference-to-the-named-output", top=True)
    raises(AttributeError, not present, tag="missing-output-rejected", top=True)
    modifies()


@contract("earthkit.workflows.graph.nodes:Node.serialise")
def _(self):
    r = result()
    outs = typed(r["outputs"], "list[str]")
    ins = typed(r["inputs"], "dict[str, Any]")
    # every declared output, in order, in a list of its own (the serialised form does not alias the node)
    ensures("outputs" in r and fresh(outs) and len(outs) == len(self.outputs) and forall(int, lambda i: implies(0 <= i and i < len(outs), outs[i] == self.outputs[i])),
            tag="outputs-kept-in-order", top=True)
    # every input under its own name, as the serialised reference to its source; no input invented
    ensures("inputs" in r and forall(str, lambda k: implies(k in self.inputs, k in ins)), tag="input-names-kept", top=True)
    ensures(forall(str, lambda k: implies(k in ins, k in self.inputs)), tag="no-input-invented", top=True)
    ensures(forall(str, lambda k: implies(k in self.inputs, same(ins[k], self.inputs[k].parent.name if self.inputs[k].name == "0" else (self.inputs[k].parent.name, self.inputs[k].name)))),
            tag="input-references-kept", top=True)
    # the payload is kept (as it is, or as its own serialised form) whenever there is one
    ensures(("payload" in r) == (self.payload is not None), tag="payload-kept-iff-present", top=True)
    modifies("events")
