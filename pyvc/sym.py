"""Symbolic values for pyvc: a universal z3 datatype `Val` plus typed Python-level wrappers.

Python ints are unbounded, so SMT `Int` is their exact semantics.  Immutable values (None, int, bool,
str, enum members, tuples, frozen dataclass records, class objects, opaque blobs) are first-order terms
with structural equality (== Python `==` for those types, except that `True == 1` is NOT modelled:
bool and int are distinct tags - listed as an encoding assumption).  Mutable objects and containers are
references into the heap kept by `state.Heap`.
"""
from __future__ import annotations

import itertools
import z3

# ----------------------------------------------------------------------------------------------
# the universal value sort
_Val = z3.Datatype("Val")
_VL = z3.Datatype("ValList")
_Val.declare("none")
_Val.declare("int", ("ival", z3.IntSort()))
_Val.declare("bool", ("bval", z3.BoolSort()))
_Val.declare("str", ("sval", z3.StringSort()))
_Val.declare("ref", ("rid", z3.IntSort()))
_Val.declare("enum", ("ecls", z3.IntSort()), ("eidx", z3.IntSort()))
_Val.declare("tup", ("targs", _VL))
_Val.declare("rec", ("rcls", z3.IntSort()), ("rargs", _VL))
_Val.declare("cls", ("cid", z3.IntSort()))
_Val.declare("opq", ("oid", z3.IntSort()))
_VL.declare("nil")
_VL.declare("cons", ("hd", _Val), ("tl", _VL))
Val, VL = z3.CreateDatatypes(_Val, _VL)

IntS, BoolS, StrS = z3.IntSort(), z3.BoolSort(), z3.StringSort()
SetS = z3.ArraySort(Val, BoolS)  # set of Val
MapS = z3.ArraySort(Val, Val)  # total map Val->Val (domain kept separately)
SeqArrS = z3.ArraySort(IntS, Val)

_fresh = itertools.count()


def fresh_name(prefix: str) -> str:
    return f"{prefix}!{next(_fresh)}"


def fresh_int(prefix="i"):
    return z3.Int(fresh_name(prefix))


def fresh_bool(prefix="b"):
    return z3.Bool(fresh_name(prefix))


def fresh_str(prefix="s"):
    return z3.String(fresh_name(prefix))


def fresh_val(prefix="v"):
    return z3.Const(fresh_name(prefix), Val)


def fresh_const(prefix, sort):
    return z3.Const(fresh_name(prefix), sort)


def vl_of(terms) -> z3.ExprRef:
    out = VL.nil
    for t in reversed(list(terms)):
        out = VL.cons(t, out)
    return out


# ----------------------------------------------------------------------------------------------
# static type descriptions (from annotations / sidecar `types`)
class Ty:
    kind = "any"

    def __repr__(self):
        return self.kind


class TAny(Ty):
    kind = "any"


class TInt(Ty):
    kind = "int"


class TBool(Ty):
    kind = "bool"


class TStr(Ty):
    kind = "str"


class TNone(Ty):
    kind = "none"


class TBytes(Ty):
    kind = "bytes"


class TOpaque(Ty):
    """values we never look into (callables, sockets as plain values, blobs)"""

    kind = "opaque"


class TClass(Ty):
    kind = "class"

    def __init__(self, name):
        self.name = name  # ClassInfo name, resolved lazily through the registry

    def __repr__(self):
        return f"class({self.name})"


class TDict(Ty):
    kind = "dict"

    def __init__(self, k: Ty, v: Ty, default=None):
        self.k, self.v, self.default = k, v, default  # default: Ty of defaultdict factory product or None

    def __repr__(self):
        return f"dict[{self.k},{self.v}]"


class TList(Ty):
    kind = "list"

    def __init__(self, v: Ty):
        self.v = v

    def __repr__(self):
        return f"list[{self.v}]"


class TSet(Ty):
    kind = "set"

    def __init__(self, v: Ty):
        self.v = v

    def __repr__(self):
        return f"set[{self.v}]"


class TTuple(Ty):
    kind = "tuple"

    def __init__(self, items):
        self.items = list(items)

    def __repr__(self):
        return f"tuple{self.items}"


class TUnion(Ty):
    kind = "union"

    def __init__(self, alts):
        self.alts = list(alts)

    def __repr__(self):
        return "|".join(map(repr, self.alts))


ANY, INT, BOOL, STR, NONE, BYTES, OPAQUE = TAny(), TInt(), TBool(), TStr(), TNone(), TBytes(), TOpaque()


# ----------------------------------------------------------------------------------------------
# class registry (filled by frontend from the real source)
class ClassInfo:
    _ids = itertools.count(1)

    def __init__(self, name, kind, fields=None, bases=(), module=None, node=None):
        self.name = name
        self.kind = kind  # 'record' (frozen dataclass) | 'object' (heap) | 'enum' | 'exception' | 'external'
        self.fields: dict[str, Ty] = dict(fields or {})  # ordered
        self.defaults: dict[str, object] = {}  # field -> ast default expr
        self.bases = list(bases)
        self.module = module
        self.node = node
        self.id = next(ClassInfo._ids)
        self.members: list[str] = []  # enum member names (index = position)
        self.member_values: dict[str, object] = {}
        self.methods: dict[str, object] = {}  # name -> (FunctionDef, kind)
        self.class_attrs: dict[str, object] = {}  # name -> ast expr

    def __repr__(self):
        return f"<ClassInfo {self.name} {self.kind}>"


class Registry:
    def __init__(self):
        self.classes: dict[str, ClassInfo] = {}
        self.by_id: dict[int, ClassInfo] = {}

    def add(self, ci: ClassInfo):
        self.classes[ci.name] = ci
        self.by_id[ci.id] = ci
        return ci

    def get(self, name) -> ClassInfo | None:
        return self.classes.get(name)

    def is_subclass(self, a: ClassInfo, b: ClassInfo) -> bool:
        if a is b:
            return True
        for bn in a.bases:
            bi = self.classes.get(bn)
            if bi is not None and self.is_subclass(bi, b):
                return True
            if bi is None and bn == b.name:
                return True
        return False

    def subclasses(self, b: ClassInfo):
        return [c for c in self.classes.values() if self.is_subclass(c, b)]


# ----------------------------------------------------------------------------------------------
# typed wrappers
class SV:
    ty: Ty = ANY

    def val(self) -> z3.ExprRef:
        raise NotImplementedError


class SInt(SV):
    ty = INT

    def __init__(self, t):
        self.t = z3.IntVal(t) if isinstance(t, int) else t

    _v = None  # the Val term this wrapper was unpacked from (equal to Val.int(t) under its type guard)

    def val(self):
        return self._v if self._v is not None else Val.int(self.t)

    def __repr__(self):
        return f"SInt({self.t})"


class SBool(SV):
    ty = BOOL

    def __init__(self, t):
        self.t = z3.BoolVal(t) if isinstance(t, bool) else t

    _v = None  # the Val term this wrapper was unpacked from (equal to Val.bool(t) under its type guard)

    def val(self):
        return self._v if self._v is not None else Val.bool(self.t)

    def __repr__(self):
        return f"SBool({self.t})"


class SStr(SV):
    ty = STR

    def __init__(self, t):
        self.t = z3.StringVal(t) if isinstance(t, str) else t

    _v = None  # the Val term this wrapper was unpacked from (equal to Val.str(t) under its type guard)

    def val(self):
        return self._v if self._v is not None else Val.str(self.t)

    def __repr__(self):
        return f"SStr({self.t})"


class SNone(SV):
    ty = NONE

    def val(self):
        return Val.none

    def __repr__(self):
        return "SNone"


NONEV = SNone()


class SRef(SV):
    """reference to a heap object (instance of a non-frozen class) or to a mutable container"""

    def __init__(self, t, ty: Ty):
        self.t = t  # Int term
        self.ty = ty  # TClass / TDict / TList / TSet

    def val(self):
        return Val.ref(self.t)

    def __repr__(self):
        return f"SRef({self.t}:{self.ty})"


class SEnum(SV):
    def __init__(self, ci: ClassInfo, idx):
        self.ci = ci
        self.idx = z3.IntVal(idx) if isinstance(idx, int) else idx
        self.ty = TClass(ci.name)

    def val(self):
        return Val.enum(z3.IntVal(self.ci.id), self.idx)

    def __repr__(self):
        return f"SEnum({self.ci.name},{self.idx})"


class STuple(SV):
    def __init__(self, items):
        self.items = list(items)
        self.ty = TTuple([getattr(i, "ty", ANY) for i in self.items])

    def val(self):
        return Val.tup(vl_of(i.val() for i in self.items))

    def __repr__(self):
        return f"STuple({self.items})"


class SRec(SV):
    """value of a frozen dataclass (immutable => a first-order term)"""

    def __init__(self, ci: ClassInfo, fields: dict):
        self.ci = ci
        self.fields = dict(fields)
        self.ty = TClass(ci.name)

    _v = None  # the Val term this record was unpacked from (equal to the rebuilt term under its type guard)

    def val(self):
        if self._v is not None:
            return self._v
        return Val.rec(z3.IntVal(self.ci.id), vl_of(self.fields[f].val() for f in self.ci.fields))

    def __repr__(self):
        return f"SRec({self.ci.name},{self.fields})"


class SAny(SV):
    """a Val term whose tag is not statically known (unions, Any)"""

    def __init__(self, t, ty: Ty = ANY):
        self.t = t
        self.ty = ty

    def val(self):
        return self.t

    def __repr__(self):
        return f"SAny({self.t}:{self.ty})"


class SClass(SV):
    """a class object (result of type(x), or a class name used as a value)"""

    def __init__(self, ci: ClassInfo):
        self.ci = ci

    def val(self):
        return Val.cls(z3.IntVal(self.ci.id))

    def __repr__(self):
        return f"SClass({self.ci.name})"


class SOpaque(SV):
    ty = OPAQUE

    def __init__(self, t=None, label=""):
        self.t = fresh_int("opq") if t is None else t
        self.label = label

    def val(self):
        return Val.opq(self.t)

    def __repr__(self):
        return f"SOpaque({self.label or self.t})"


class SFunc(SV):
    """a Python-level closure: real AST + captured environment (never stored in the SMT heap)"""

    def __init__(self, node, env, name="", self_val=None, module=None, owner=None, qual=None):
        self.node, self.env, self.name, self.self_val, self.module, self.owner = node, env, name, self_val, module, owner
        self.qual = qual
        self._opq = fresh_int("fn")

    def val(self):
        return Val.opq(self._opq)

    def __repr__(self):
        return f"SFunc({self.name})"


class SBuiltin(SV):
    def __init__(self, name, fn, self_val=None):
        self.name, self.fn, self.self_val = name, fn, self_val

    def val(self):
        av = getattr(self, "as_value", None)
        if av is not None:
            return av.val()  # an attribute of an outside object used as a value (see Engine.getattr)
        raise TypeError("builtin has no SMT value")

    def __repr__(self):
        return f"SBuiltin({self.name})"


class SModule(SV):
    def __init__(self, name):
        self.name = name

    def __repr__(self):
        return f"SModule({self.name})"


# ----------------------------------------------------------------------------------------------
def from_val(t: z3.ExprRef, ty: Ty, reg: Registry) -> SV:
    """wrap a Val term according to its static type (the well-typedness of stored data is assumed)"""
    k = ty.kind
    if k in ("int", "bool", "str"):
        w = {"int": SInt, "bool": SBool, "str": SStr}[k]({"int": Val.ival, "bool": Val.bval, "str": Val.sval}[k](t))
        w._v = t
        return w
    if k == "none":
        return NONEV
    if k in ("dict", "list", "set"):
        return SRef(Val.rid(t), ty)
    if k == "opaque" or k == "bytes":
        return SOpaque(Val.oid(t))
    if k == "tuple":
        items, cur = [], Val.targs(t)
        for it in ty.items:
            items.append(from_val(VL.hd(cur), it, reg))
            cur = VL.tl(cur)
        return STuple(items)
    if k == "class":
        ci = reg.get(ty.name)
        if ci is None:
            return SAny(t, ty)
        if ci.kind == "record":
            fields, cur = {}, Val.rargs(t)
            for f, fty in ci.fields.items():
                fields[f] = from_val(VL.hd(cur), fty, reg)
                cur = VL.tl(cur)
            r = SRec(ci, fields)
            r._v = t
            return r
        if ci.kind == "enum":
            return SEnum(ci, Val.eidx(t))
        if ci.kind in ("object", "external"):
            return SRef(Val.rid(t), ty)
        return SAny(t, ty)
    return SAny(t, ty)


def type_constraint(t: z3.ExprRef, ty: Ty, reg: Registry, depth=0, shallow=False):
    """the well-formedness predicate of a Val term of static type ty (used as an assumption on inputs).
    shallow: for unions of record classes only the class tags are constrained (field shapes are constrained lazily when an
    alternative is selected by narrowing)"""
    k = ty.kind
    if shallow and k == "union":
        return z3.Or(*[type_constraint(t, a, reg, depth + 1, True) for a in ty.alts])
    if shallow and k == "class":
        ci = reg.get(ty.name)
        if ci is not None and ci.kind == "record":
            return z3.And(Val.is_rec(t), Val.rcls(t) == ci.id)
    if k == "int":
        return Val.is_int(t)
    if k == "bool":
        return Val.is_bool(t)
    if k == "str":
        return Val.is_str(t)
    if k == "none":
        return Val.is_none(t)
    if k in ("dict", "list", "set"):
        return z3.And(Val.is_ref(t), Val.rid(t) >= 0)
    if k in ("opaque", "bytes"):
        return Val.is_opq(t)
    if k == "tuple":
        cs, cur = [Val.is_tup(t)], Val.targs(t)
        for it in ty.items:
            cs.append(VL.is_cons(cur))
            cs.append(type_constraint(VL.hd(cur), it, reg, depth + 1))
            cur = VL.tl(cur)
        cs.append(VL.is_nil(cur))
        return z3.And(*cs)
    if k == "union":
        return z3.Or(*[type_constraint(t, a, reg, depth + 1) for a in ty.alts])
    if k == "class":
        ci = reg.get(ty.name)
        if ci is None:
            return z3.BoolVal(True)
        if ci.kind == "record":
            cs, cur = [Val.is_rec(t), Val.rcls(t) == ci.id], Val.rargs(t)
            for f, fty in ci.fields.items():
                cs.append(VL.is_cons(cur))
                if depth < 4:
                    cs.append(type_constraint(VL.hd(cur), fty, reg, depth + 1))
                cur = VL.tl(cur)
            cs.append(VL.is_nil(cur))
            return z3.And(*cs)
        if ci.kind == "enum":
            return z3.And(Val.is_enum(t), Val.ecls(t) == ci.id, Val.eidx(t) >= 0, Val.eidx(t) < len(ci.members))
        if ci.kind in ("object", "external"):
            return z3.And(Val.is_ref(t), Val.rid(t) >= 0)
    return z3.BoolVal(True)


def to_val(v) -> z3.ExprRef:
    return v.val()


def forall_pat(vars_, body, pattern=None):
    """ForAll with an E-matching pattern when the pattern term is admissible (no ite / boolean connectives), else without"""
    if pattern is not None:
        try:
            return z3.ForAll(vars_, body, patterns=[pattern])
        except z3.Z3Exception:
            pass
    return z3.ForAll(vars_, body)
