"""Sidecar contract files: parsed with `ast` (never imported), keyed by module:qualname.

A contract is written as a Python function whose parameters are those of the target; its body is a list of clauses:

    requires(E)                      precondition (pre-state)
    ensures(E, tag=..., top=True)    postcondition of a normal return; may use old(..), result()
    raises(Exc, when=E)              if E holds on entry the call MUST raise Exc
    may_raise(Exc, when=E)           the call MAY raise Exc when E held on entry (anything else escaping is a failure)
    ensures_raise(Exc, E)            post-state condition when Exc is raised
    modifies("field", ..)            frame: object fields by name, "events", or container expressions over the parameters
    invariant(k, E) / loop_modifies(k, ..) / decreases(k, E)      for the k-th loop of the body (source order, 0-based)
    captures(name="Type", ..)        types of the free variables of a nested function under contract
    types(name="Type", ..)           override / supply parameter types
    name = E                         let-binding usable in later clauses (macro, evaluated where it is used)

`top=True` marks a clause that is a sentence of the property statement; other clauses are helpers: a failing helper alone
is reported as undecided, never as a violation (DESIGN 3.5a).
"""
from __future__ import annotations

import ast
import glob
import os


class Clause:
    def __init__(self, expr, tag="", top=False, lineno=0, src=""):
        self.expr, self.tag, self.top, self.lineno, self.src = expr, tag, top, lineno, src


class Contract:
    def __init__(self, target, fn: ast.FunctionDef, file: str, prop: str):
        self.target, self.file, self.property = target, file, prop
        self.params = [a.arg for a in fn.args.posonlyargs + fn.args.args + fn.args.kwonlyargs]
        self.lets: dict[str, ast.expr] = {}
        self.requires: list[Clause] = []
        self.ensures: list[Clause] = []
        self.raises: list[tuple[str, Clause]] = []
        self.may_raise: list[tuple[str, Clause]] = []
        self.ensures_raise: list[tuple[str, Clause]] = []
        self.modifies: list | None = None
        self.invariants: dict[int, list[Clause]] = {}
        self.loop_modifies: dict[int, list] = {}
        self.decreases: dict[int, ast.expr] = {}
        self.logs: list[tuple[str, list]] = []  # events the call appends to the external-call log (assumed contracts)
        self.logs_only: list[str] | None = None  # with "events" in modifies: the only entry names the call may add to the log
        self.logs_result: list[str] = []  # ghost entries (name, result) appended at call sites after a normal return
        self.observes: dict[str, str] = {}  # spec variable -> external method whose (first) result it denotes
        self.captures: dict[str, ast.expr] = {}
        self.types: dict[str, ast.expr] = {}
        self.local_types: dict[str, ast.expr] = {}
        self.assumptions: list[str] = []
        self.opts: dict = {}
        self.fn = fn
        self._parse(fn)

    def _clause(self, call, idx=0):
        kw = {k.arg: k.value for k in call.keywords}
        tag = kw["tag"].value if "tag" in kw else ""
        top = bool(kw["top"].value) if "top" in kw else False
        e = call.args[idx] if len(call.args) > idx else kw.get("when")
        if e is None:
            e = ast.Constant(value=True)
        return Clause(e, tag, top, call.lineno, ast.unparse(e))

    def _parse(self, fn):
        for st in fn.body:
            if isinstance(st, ast.Expr) and isinstance(st.value, ast.Constant):
                continue
            if isinstance(st, ast.Assign) and len(st.targets) == 1 and isinstance(st.targets[0], ast.Name):
                self.lets[st.targets[0].id] = st.value
                continue
            if not (isinstance(st, ast.Expr) and isinstance(st.value, ast.Call) and isinstance(st.value.func, ast.Name)):
                raise SyntaxError(f"{self.file}:{st.lineno}: not a contract clause")
            call = st.value
            name = call.func.id
            if name == "requires":
                self.requires.append(self._clause(call))
            elif name == "ensures":
                self.ensures.append(self._clause(call))
            elif name in ("raises", "may_raise", "ensures_raise"):
                if len(call.args) < 1 or not isinstance(call.args[0], ast.Name) or (len(call.args) < 2 and not any(k.arg == "when" for k in call.keywords)):
                    raise SyntaxError(f"{self.file}:{st.lineno}: {name}(ExceptionClass, condition, ..) expected")  # never drop a clause silently
                exc = ast.unparse(call.args[0])
                cl = self._clause(call, 1)
                getattr(self, name).append((exc, cl))
            elif name == "modifies":
                self.modifies = (self.modifies or []) + list(call.args)
            elif name == "invariant":
                k = call.args[0].value
                self.invariants.setdefault(k, []).append(self._clause(call, 1))
            elif name == "loop_modifies":
                k = call.args[0].value
                self.loop_modifies.setdefault(k, []).extend(call.args[1:])
            elif name == "decreases":
                self.decreases[call.args[0].value] = call.args[1]
            elif name == "logs":
                self.logs.append((call.args[0].value, list(call.args[1:])))
            elif name == "logs_only":
                self.logs_only = (self.logs_only or []) + [a.value for a in call.args]
            elif name == "logs_result":
                self.logs_result.append(call.args[0].value)
            elif name == "observes":
                for k in call.keywords:
                    self.observes[k.arg] = k.value.value
            elif name == "captures":
                for k in call.keywords:
                    self.captures[k.arg] = k.value
            elif name == "types":
                for k in call.keywords:
                    self.types[k.arg] = k.value
            elif name == "local_types":
                for k in call.keywords:
                    self.local_types[k.arg] = k.value
            elif name == "assumes":
                self.assumptions.append(call.args[0].value)
            elif name == "option":
                for k in call.keywords:
                    self.opts[k.arg] = ast.literal_eval(k.value)
            else:
                raise SyntaxError(f"{self.file}:{st.lineno}: unknown clause {name}")

    def all_clause_count(self):
        return len(self.requires) + len(self.ensures) + len(self.raises) + len(self.may_raise) + len(self.ensures_raise)


CLAUSE_NAMES = {"logs", "logs_only", "logs_result", "observes", "requires", "ensures", "raises", "may_raise", "ensures_raise", "modifies", "invariant", "loop_modifies",
                "decreases", "captures", "types", "local_types", "assumes", "option"}


class Harness:
    """a proof harness: sidecar code that calls the REAL functions on fully symbolic inputs (loop-free => complete proof).
    Clause calls in its body form the contract; the remaining statements are executed by the engine in the namespace of
    the repository module `module` (so repository names resolve exactly as they do there)."""

    def __init__(self, name, fn: ast.FunctionDef, module: str, file: str, prop: str):
        self.name, self.module, self.file, self.property = name, module, file, prop
        clause_stmts, body = [], []
        for st in fn.body:
            if (isinstance(st, ast.Expr) and isinstance(st.value, ast.Call) and isinstance(st.value.func, ast.Name)
                    and st.value.func.id in CLAUSE_NAMES):
                clause_stmts.append(st)
            else:
                body.append(st)
        cfn = ast.FunctionDef(name=fn.name, args=fn.args, body=clause_stmts or [ast.Pass()], decorator_list=[], returns=None, lineno=fn.lineno, col_offset=0)
        self.contract = Contract(f"harness:{name}", cfn, file, prop)
        self.contract.assumed = False
        self.contract.extra_props = []
        self.fn = ast.FunctionDef(name=fn.name, args=fn.args, body=body or [ast.Pass()], decorator_list=[], returns=fn.returns, lineno=fn.lineno, col_offset=0)
        ast.fix_missing_locations(self.fn)


class ClassInvariant:
    def __init__(self, cls_target, fn, file):
        self.cls_target, self.file = cls_target, file
        self.clauses: list[Clause] = []
        self.lets: dict[str, ast.expr] = {}
        for st in fn.body:
            if isinstance(st, ast.Expr) and isinstance(st.value, ast.Constant):
                continue
            if isinstance(st, ast.Assign):
                self.lets[st.targets[0].id] = st.value
                continue
            call = st.value
            kw = {k.arg: k.value for k in call.keywords}
            self.clauses.append(Clause(call.args[0], kw["tag"].value if "tag" in kw else "", bool(kw["top"].value) if "top" in kw else False,
                                       call.lineno, ast.unparse(call.args[0])))


class ContractDB:
    def __init__(self, directory=None):
        self.contracts: dict[str, Contract] = {}
        self.inline: set[str] = set()
        self.class_invariants: dict[str, ClassInvariant] = {}
        self.field_types: dict[str, dict[str, ast.expr]] = {}  # class target -> field -> type expr
        self.externals: dict = {}
        self.external_funcs: dict = {}
        self.assumptions: list[str] = []
        self.files: list[str] = []
        self.spec_funcs: dict[str, ast.FunctionDef] = {}
        self.external_returns: dict[str, ast.expr] = {}  # external method name -> type expression of its result
        self.aggregates: dict[str, dict] = {}  # name -> {over: owning dict field, fields: [..], contrib: Lambda, cls: class target}
        self.persistent_fields: set[str] = set()  # fields holding pyrsistent PMap / PVector values: .set / .append return NEW containers
        self.as_record: set[str] = set()  # non-frozen dataclasses that the code under contract never mutates nor compares by identity
        self.external_raises: dict[str, list[str]] = {}  # external method / constructor name -> exception classes it may raise
        self.pure_modules: dict[str, str] = {}
        self.ext_module: str | None = None
        self.pure_functions: dict[str, ast.expr] = {}  # repo/external function -> result type; modelled as an uninterpreted function
        self.harnesses: dict[str, Harness] = {}
        self.load_classes: list[str] = []  # repository classes a sidecar names that the verified module does not import by name
        self.stub_classes: dict[str, dict] = {}  # shapes of objects from outside the repository (process handles ...)
        self.owned_fields: set[str] = set()  # container-valued fields with an ownership ghost (container -> its object)
        self.owning: set[str] = set()  # dict-valued fields with an ownership ghost (value object -> its key)
        from . import models
        self.externals.update(models.LOCK_EXTERNALS)
        if directory:
            for f in sorted(glob.glob(os.path.join(directory, "*.py"))):
                self.load(f)

    def load(self, path, text=None):
        text = open(path).read() if text is None else text
        tree = ast.parse(text)
        self.files.append(path)
        prop = ""
        for node in tree.body:
            if isinstance(node, ast.Assign) and isinstance(node.targets[0], ast.Name) and node.targets[0].id == "PROPERTY":
                prop = node.value.value
            elif isinstance(node, ast.Expr) and isinstance(node.value, ast.Call) and isinstance(node.value.func, ast.Name):
                c = node.value
                n = c.func.id
                if n == "inline":
                    for a in c.args:
                        self.inline.add(a.value)
                elif n == "field_types":
                    d = self.field_types.setdefault(c.args[0].value, {})
                    for k in c.keywords:
                        d[k.arg] = k.value
                elif n == "external_returns":
                    for k in c.keywords:
                        if k.arg == "module":
                            self.ext_module = k.value.value
                        else:
                            self.external_returns[k.arg] = k.value
                elif n == "aggregate":
                    kw = {k.arg: k.value for k in c.keywords}
                    self.aggregates[c.args[0].value] = {"over": kw["over"].value, "fields": [e.value for e in kw["fields"].elts], "contrib": kw["contrib"],
                                                        "module": kw["module"].value, "cls": kw["cls"].value}
                elif n == "persistent_fields":
                    for a in c.args:
                        self.persistent_fields.add(a.value)
                elif n == "treat_as_record":
                    for a in c.args:
                        self.as_record.add(a.value)
                elif n == "external_raises":
                    for k in c.keywords:
                        self.external_raises[k.arg] = [e.value for e in k.value.elts]
                elif n == "pure_function":
                    kw = {k.arg: k.value for k in c.keywords}
                    self.pure_functions[c.args[0].value] = kw.get("returns")
                    if "module" in kw:
                        self.pure_modules[c.args[0].value] = kw["module"].value
                elif n == "stub_class":
                    self.stub_classes[c.args[0].value] = {k.arg: k.value for k in c.keywords}
                elif n == "owned_field":
                    for a in c.args:
                        self.owned_fields.add(a.value)
                elif n == "owning":
                    for a in c.args:
                        self.owning.add(a.value)
                elif n == "assumption":
                    self.assumptions.append(c.args[0].value)
                elif n == "load_class":
                    self.load_classes.append(c.args[0].value)
                elif n == "pure_external_method":
                    # a method of an object from outside the repository whose result is a FUNCTION of the receiver (and arguments): e.g. the
                    # result() / exception() of a Future that is done.  Calls are not logged; the result is typed by `returns`
                    kw = {k.arg: k.value for k in c.keywords}
                    from . import models as _m
                    self.externals[c.args[0].value] = _m.make_pure_method(c.args[0].value, kw.get("returns"))
                    self.assumptions.append(f"external method {c.args[0].value} is a pure function of its receiver (assumed of the dependency)")
                elif n == "codec_pair":
                    kw = {k.arg: k.value.value for k in c.keywords}
                    from . import models as _m
                    self.externals[kw["enc"]] = _m.make_codec_enc(c.args[0].value)
                    self.externals[kw["dec"]] = _m.make_codec_dec(c.args[0].value)
                    self.assumptions.append(f"codec pair {c.args[0].value}: {kw['dec']}({kw['enc']}(v)) == v for every value v, and {kw['dec']} accepts whatever "
                                            f"{kw['enc']} produced (dependency, assumed); the encoded bytes are otherwise opaque")
                elif n == "external_class":
                    self.externals.setdefault("__classes__", set()).add(c.args[0].value)
            elif isinstance(node, ast.FunctionDef):
                for d in node.decorator_list:
                    if isinstance(d, ast.Name) and d.id == "spec":
                        self.spec_funcs[node.name] = node
                    if isinstance(d, ast.Call) and isinstance(d.func, ast.Name):
                        if d.func.id in ("contract", "assumed"):
                            tgt = d.args[0].value
                            kw = {k.arg: k.value for k in d.keywords}
                            p = kw["prop"].value if "prop" in kw else prop
                            self.contracts[tgt] = Contract(tgt, node, path, p)
                            # an ASSUMED contract is used at call sites but never verified: listed as an assumption
                            self.contracts[tgt].assumed = d.func.id == "assumed"
                            self.contracts[tgt].extra_props = [e.value for e in kw["also"].elts] if "also" in kw else []
                        elif d.func.id == "harness":
                            kw = {k.arg: k.value for k in d.keywords}
                            h = Harness(d.args[0].value, node, kw["module"].value, path, kw["prop"].value if "prop" in kw else prop)
                            self.harnesses[h.name] = h
                            self.contracts[f"harness:{h.name}"] = h.contract
                        elif d.func.id == "class_invariant":
                            self.class_invariants[d.args[0].value] = ClassInvariant(d.args[0].value, node, path)
                        elif d.func.id == "spec":
                            self.spec_funcs[node.name] = node

    def get(self, qual):
        return self.contracts.get(qual)

    @classmethod
    def for_target(cls, directory, target, extra_sources=()):
        """the contract database a target is verified against: ONLY the sidecar file that carries its @contract / @harness (plus
        _stubs.py and generated sources).  Sidecars of other properties - which may give the same callee a different abstraction
        (an @assumed event-logging view here, a full contract there) - cannot interfere."""
        import re
        needle = target.split(":", 1)[1] if target.startswith("harness:") else target
        pat = re.compile(r'@(contract|harness)\(\s*"' + re.escape(needle) + r'"')
        db = cls(None)
        chosen = []
        for f in sorted(glob.glob(os.path.join(directory, "*.py"))):
            if os.path.basename(f) == "_stubs.py" or pat.search(open(f).read()):
                chosen.append(f)
        for f in chosen:
            db.load(f)
        for name, text in extra_sources or ():
            db.load(name, text=text)
        return db

    def is_inline(self, qual):
        return qual in self.inline

    def external_for(self, qual):
        return self.external_funcs.get(qual)
