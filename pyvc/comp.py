"""comprehensions over symbolic collections (filled in later)"""
from .state import Unsupported


def comprehension(eng, node, st, fi, kind):
    raise Unsupported(f"comprehension ({kind}) at line {node.lineno}")
