"""Comprehensions.

* sources of concrete length (tuples, literal maps, ranges with literal bounds) are unrolled exactly;
* one `for` over a symbolic list / set / dict (keys, values, items) is defined by a quantified formula over a fresh element:
  the element expression and the filter are evaluated ONCE by the ordinary executor on a symbolic element x, giving
  value(x), filter(x) and raises(x) as terms; the result collection is then constrained by
      forall x in S: filter(x) => value(x) in R      and      forall y in R: exists x in S (skolem function) ...
  A body that may raise makes the comprehension raise iff some element does.
  Dict results need an injective key expression (the loop variable itself, or the key of .items()).
"""
from __future__ import annotations

import ast
import z3

from . import models, sym
from .state import State, Unsupported
from .sym import ANY, NONEV, SAny, SBool, SInt, SRef, SStr, STuple, TDict, TList, TSet, TTuple, Val, VL


def comprehension(eng, node, st, fi, kind):
    from .loops import describe_iter
    gens = node.generators
    if any(g.is_async for g in gens):
        raise Unsupported("async comprehension")
    fr = st.frames[fi]
    saved_names = {}
    for g in gens:
        for n in ast.walk(g.target):
            if isinstance(n, ast.Name):
                saved_names[n.id] = fr.vars.get(n.id, _MISSING)

    def restore(s):
        f = s.frames[fi]
        for n, v in saved_names.items():
            if v is _MISSING:
                f.vars.pop(n, None)
            else:
                f.vars[n] = v

    # ---- concrete unrolling ------------------------------------------------------------------------
    def unroll(s, gi, acc):
        """returns list of (state, acc) or raises _NotConcrete"""
        if gi == len(gens):
            if kind == "dict":
                res = []
                for s2, (k, v) in eng.ev_list([node.key, node.value], s, fi):
                    res.append((s2, acc + [(k, v)] if s2.exc is None else acc))
                return res
            res = []
            for s2, v in eng.ev(node.elt, s, fi):
                res.append((s2, acc + [v] if s2.exc is None else acc))
            return res
        g = gens[gi]
        out = []
        for s1, itv in eng.ev(g.iter, s, fi):
            if s1.exc is not None:
                out.append((s1, acc))
                continue
            desc = describe_iter(eng, s1, itv)
            if desc.kind != "concrete":
                raise _NotConcrete()
            pending = [(s1, acc)]
            for item in desc.items:
                nxt = []
                for s2, a2 in pending:
                    if s2.exc is not None:
                        nxt.append((s2, a2))
                        continue
                    for s3 in eng.assign(g.target, item, s2, fi):
                        if s3.exc is not None:
                            nxt.append((s3, a2))
                            continue
                        conds = [(s3, True)]
                        for cnd in g.ifs:
                            nn = []
                            for s4, ok in conds:
                                if not ok or s4.exc is not None:
                                    nn.append((s4, ok))
                                    continue
                                for s5, cv in eng.ev(cnd, s4, fi):
                                    if s5.exc is not None:
                                        nn.append((s5, False))
                                        continue
                                    for s6, side in eng.branch(s5, eng.truth(s5, cv)):
                                        nn.append((s6, side))
                            conds = nn
                        for s4, ok in conds:
                            if s4.exc is not None or not ok:
                                nxt.append((s4, a2))
                            else:
                                nxt.extend(unroll(s4, gi + 1, a2))
                pending = nxt
            out.extend(pending)
        return out

    if not eng.pure:
        try:
            probe = st.copy()
            res = unroll(probe, 0, [])
            out = []
            for s, acc in res:
                restore(s)
                if s.exc is not None:
                    out.append((s, None))
                else:
                    out.append((s, _build(eng, s, fi, kind, acc)))
            return out
        except _NotConcrete:
            pass
    if len(gens) != 1:
        raise Unsupported(f"comprehension with {len(gens)} symbolic generators at line {node.lineno}")
    return _symbolic(eng, node, st, fi, kind, gens[0], restore)


class _NotConcrete(Exception):
    pass


_MISSING = object()


def _build(eng, st, fi, kind, acc):
    from .engine import SConstMap
    if kind == "list":
        return models.new_list(eng, st, acc)
    if kind == "gen":
        return models.SGen(models.new_list(eng, st, acc))
    if kind == "set":
        return models.new_set(eng, st, acc)
    if st.frames[fi].qual.endswith("<module>"):
        return SConstMap(acc)
    return models.new_dict(eng, st, acc)


def _delta(base_len, s):
    return z3.And(*s.pc[base_len:]) if len(s.pc) > base_len else z3.BoolVal(True)


def _mentions(t, bound, mark):
    """does term t mention the bound element variable or a symbol created after `mark` (i.e. specific to the probed element)?"""
    import re
    seen, stack = set(), [t]
    while stack:
        x = stack.pop()
        if x.get_id() in seen:
            continue
        seen.add(x.get_id())
        if z3.is_const(x) and x.decl().kind() == z3.Z3_OP_UNINTERPRETED:
            if any(z3.eq(x, b) for b in bound):
                return True
            m = re.search(r"!(\d+)$", x.decl().name())
            if m and int(m.group(1)) > mark:
                return True
        elif z3.is_quantifier(x):
            stack.append(x.body())
        elif z3.is_app(x):
            stack.extend(x.children())
    return False


def _split_delta(cond, bound, mark):
    """(element-specific part, element-independent facts) of a path's accumulated condition"""
    parts = cond.children() if z3.is_and(cond) else [cond]
    own, glob = [], []
    for c in parts:
        (own if _mentions(c, bound, mark) else glob).append(c)
    return (z3.And(*own) if own else z3.BoolVal(True)), glob


def _symbolic(eng, node, st, fi, kind, g, restore):
    from .loops import describe_iter
    out = []
    for s0, itv in eng.ev(g.iter, st, fi):
        if s0.exc is not None:
            out.append((s0, None))
            continue
        desc = describe_iter(eng, s0, itv)
        if desc.kind == "concrete":
            raise Unsupported("mixed concrete/symbolic comprehension")
        out.extend(_symbolic_one(eng, node, s0, fi, kind, g, desc, restore))
    return out


def _symbolic_one(eng, node, st: State, fi, kind, g, desc, restore):
    # ---- a symbolic element of the source ---------------------------------------------------------------
    if desc.kind == "list":
        src = desc.ref
        n = st.clen(src.t)
        st.assume(n >= 0)
        i = sym.fresh_int("ci")
        member = z3.And(i >= 0, i < n)
        xval = z3.Select(st.cseq(src.t), i)
        ety = src.ty.v
        bound = [i]
        ordered = True
    elif desc.kind in ("keys", "items", "values"):
        src = desc.ref
        st.assume(st.container_wf(src.t))
        k = sym.fresh_val("ck")
        member = z3.Select(st.dom(src.t), k)
        kty = desc.ety
        key_sv = models.wrap_elem(eng, st, k, kty)
        if desc.kind == "keys":
            xval, ety = k, kty
        elif desc.kind == "values":
            xval, ety = z3.Select(st.cmap(src.t), k), src.ty.v
        else:
            xval, ety = Val.tup(sym.vl_of([k, z3.Select(st.cmap(src.t), k)])), TTuple([kty, src.ty.v])
        bound = [k]
        ordered = False
        n = st.clen(src.t)
    else:
        raise Unsupported(f"comprehension over {desc.kind}")
    x = models.wrap_elem(eng, st, xval, ety)
    mark = next(sym._fresh)  # every symbol created from here on by the probe is specific to the element: skolemised below
    # ---- evaluate filter and element expression once, on the symbolic element -------------------------
    saved_pure = eng.pure
    probe = st.copy()
    probe.assume(member)
    probe.assume(sym.type_constraint(xval, ety, eng.reg))
    base_len = len(probe.pc)
    alloc_before = probe.heap.next_ref
    paths = []  # (cond, value SV | None, exc | None)
    states = eng.assign(g.target, x, probe, fi)
    work = []
    for s in states:
        if s.exc is not None:
            paths.append((_delta(base_len, s), None, None, s.exc))
            continue
        conds = [(s, True)]
        for cnd in g.ifs:
            nn = []
            for s4, ok in conds:
                if not ok:
                    nn.append((s4, ok))
                    continue
                for s5, cv in eng.ev(cnd, s4, fi):
                    if s5.exc is not None:
                        paths.append((_delta(base_len, s5), None, None, s5.exc))
                        continue
                    if eng.pure:
                        raise Unsupported("filtered comprehension in spec mode")
                    for s6, side in eng.branch(s5, eng.truth(s5, cv)):
                        nn.append((s6, side))
            conds = nn
        for s4, ok in conds:
            if not ok:
                paths.append((_delta(base_len, s4), None, None, None))  # filtered out
                continue
            if kind == "dict":
                for s5, (kv, vv) in eng.ev_list([node.key, node.value], s4, fi):
                    if s5.exc is not None:
                        paths.append((_delta(base_len, s5), None, None, s5.exc))
                    else:
                        _no_alloc(s5, alloc_before, node)
                        paths.append((_delta(base_len, s5), kv, vv, None))
            else:
                for s5, v in eng.ev(node.elt, s4, fi):
                    if s5.exc is not None:
                        paths.append((_delta(base_len, s5), None, None, s5.exc))
                    else:
                        _no_alloc(s5, alloc_before, node)
                        paths.append((_delta(base_len, s5), v, None, None))
    restore(st)
    # symbols introduced while evaluating the body on ONE element (results of contract calls, clock reads ...) become functions of
    # the element: each element has its own
    # facts collected along a path that do not mention the element at all (closure / ordering / typing axioms added lazily) are facts
    # of the enclosing state, not conditions on the element
    hoisted = []
    np_ = []
    for c, a, b, e in paths:
        own, glob = _split_delta(c, bound, mark)
        for g_ in glob:
            if not any(z3.eq(g_, h_) for h_ in hoisted):
                hoisted.append(g_)
        np_.append((own, a, b, e))
    paths = np_
    for h_ in hoisted:
        st.assume(h_)
    sk = _Skolem(mark, bound[0])
    paths = [(sk.term(c), sk.sv(a), sk.sv(b), e) for c, a, b, e in paths]
    # the paths found on the symbolic element are exhaustive, and what was assumed along each of them about the symbols created there
    # (results of contract calls - now functions of the element - closure / typing facts) holds for every (well-typed) element:
    # without this the per-path conditions below could only be used after re-proving those facts
    if paths:
        st.assume(sym.forall_pat(bound, z3.Implies(member, z3.Or(*[c for c, _, _, _ in paths])), member if len(bound) == 1 and not z3.is_and(member) else None))
    # ---- exceptional elements ----------------------------------------------------------------------------
    exc_paths = [(c, e) for c, _, _, e in paths if e is not None]
    results = []
    normal = st
    if exc_paths and not eng.pure:
        exc_cond = z3.Or(*[c for c, _ in exc_paths])
        s_exc = st.copy()
        s_exc.assume(member)
        s_exc.assume(exc_cond)  # the fresh element constants act as the witness
        if s_exc.feasible():
            s_exc.exc = exc_paths[0][1]
            results.append((s_exc, None))
        normal.assume(z3.ForAll(bound, z3.Implies(member, z3.Not(exc_cond))))
    # ---- value / filter terms ---------------------------------------------------------------------------
    kept = [(c, a, b) for c, a, b, e in paths if e is None and a is not None]
    keep_cond = z3.Or(*[c for c, _, _ in kept]) if kept else z3.BoolVal(False)
    has_filter = any(e is None and a is None for _, a, _, e in paths)

    def ite_chain(idx):
        t = None
        for c, a, b in reversed(kept):
            v = (a if idx == 0 else b).val()
            t = v if t is None else z3.If(c, v, t)
        return t

    if not kept:
        return results + [(normal, _build(eng, normal, fi, kind, []))]
    v0 = kept[0][1]
    vty = getattr(v0, "ty", ANY) if all(repr(getattr(a, "ty", ANY)) == repr(getattr(v0, "ty", ANY)) for _, a, _ in kept) else ANY
    val_t = ite_chain(0)
    if kind in ("list", "gen"):
        if not ordered:
            # unordered source: iterate a snapshot list of it (a permutation), then map position-wise
            lst = models.snapshot_list(eng, normal, itv_of(desc))
            d2 = type(desc)("list", ref=lst)
            return results + _symbolic_one(eng, node, normal, fi, kind, g, d2, restore)
        if has_filter:
            # filtered list: an order-preserving selection.  src(j) = index of the j-th kept element, dst = its inverse on kept indices
            r = normal.alloc()
            m = sym.fresh_int("flen")
            seq = sym.fresh_const("fcomp", sym.SeqArrS)
            src = z3.Function(sym.fresh_name("fsrc"), sym.IntS, sym.IntS)
            dst = z3.Function(sym.fresh_name("fdst"), sym.IntS, sym.IntS)
            j, j2 = sym.fresh_int("j"), sym.fresh_int("j2")
            ib = bound[0]
            at = lambda term, idx: z3.substitute(term, (ib, idx))
            normal.assume(z3.And(m >= 0, m <= n))
            normal.assume(z3.ForAll([j], z3.Implies(z3.And(j >= 0, j < m), z3.And(src(j) >= 0, src(j) < n, at(keep_cond, src(j)),
                                                                                  z3.Select(seq, j) == at(val_t, src(j)), dst(src(j)) == j))))
            normal.assume(z3.ForAll([j, j2], z3.Implies(z3.And(j >= 0, j < j2, j2 < m), src(j) < src(j2))))
            normal.assume(z3.ForAll([ib], z3.Implies(z3.And(member, keep_cond), z3.And(dst(ib) >= 0, dst(ib) < m, src(dst(ib)) == ib))))
            normal.heap.c_seq = z3.Store(normal.heap.c_seq, r, seq)
            normal.heap.c_len = z3.Store(normal.heap.c_len, r, m)
            ref = SRef(r, TList(vty))
            return results + [(normal, models.SGen(ref) if kind == "gen" else ref)]
        r = normal.alloc()
        seq = sym.fresh_const("comp", sym.SeqArrS)
        normal.assume(z3.ForAll(bound, z3.Implies(member, z3.Select(seq, bound[0]) == val_t)))
        normal.heap.c_seq = z3.Store(normal.heap.c_seq, r, seq)
        normal.heap.c_len = z3.Store(normal.heap.c_len, r, n)
        ref = SRef(r, TList(vty))
        return results + [(normal, models.SGen(ref) if kind == "gen" else ref)]
    if kind == "set":
        ref = normal.new_container(TSet(vty))
        nd = sym.fresh_const("compset", sym.SetS)
        normal.assume(z3.ForAll(bound, z3.Implies(z3.And(member, keep_cond), z3.Select(nd, val_t))))
        # every member has a pre-image (skolem function)
        y = sym.fresh_val("y")
        pre = z3.Function(sym.fresh_name("pre"), Val, bound[0].sort())
        sub = [(bound[0], pre(y))]
        normal.assume(z3.ForAll([y], z3.Implies(z3.Select(nd, y), z3.And(z3.substitute(member, *sub), z3.substitute(keep_cond, *sub),
                                                                      z3.substitute(val_t, *sub) == y))))
        normal.heap.c_dom = z3.Store(normal.heap.c_dom, ref.t, nd)
        card = sym.fresh_int("card")
        normal.heap.c_len = z3.Store(normal.heap.c_len, ref.t, card)
        normal.assume(normal.container_wf(ref.t))
        if not has_filter and _is_identity(val_t, xval) and not ordered:
            normal.assume(card == n)
        return results + [(normal, ref)]
    # dict
    key_t = val_t
    value_t = ite_chain(1)
    if not _injective_key(eng, key_t, xval, bound, desc) and not _key_is_bound(eng, normal, key_t, bound, desc, member) \
            and not _value_determined_by_key(key_t, value_t, keep_cond, bound, sym.type_constraint(xval, ety, eng.reg)):
        raise Unsupported(f"dict comprehension whose key is not known to be injective at line {node.lineno}")
    v1 = kept[0][2]
    v1ty = getattr(v1, "ty", ANY) if all(repr(getattr(b, "ty", ANY)) == repr(getattr(v1, "ty", ANY)) for _, _, b in kept) else ANY
    ref = normal.new_container(TDict(vty, v1ty))
    nd, nm = sym.fresh_const("compdom", sym.SetS), sym.fresh_const("compmap", sym.MapS)
    normal.assume(z3.ForAll(bound, z3.Implies(z3.And(member, keep_cond), z3.And(z3.Select(nd, key_t), z3.Select(nm, key_t) == value_t))))
    y = sym.fresh_val("y")
    pre = z3.Function(sym.fresh_name("pre"), Val, bound[0].sort())
    sub = [(bound[0], pre(y))]
    normal.assume(z3.ForAll([y], z3.Implies(z3.Select(nd, y), z3.And(z3.substitute(member, *sub), z3.substitute(keep_cond, *sub),
                                                                  z3.substitute(key_t, *sub) == y))))
    normal.heap.c_dom = z3.Store(normal.heap.c_dom, ref.t, nd)
    normal.heap.c_map = z3.Store(normal.heap.c_map, ref.t, nm)
    card = sym.fresh_int("card")
    normal.heap.c_len = z3.Store(normal.heap.c_len, ref.t, card)
    normal.assume(normal.container_wf(ref.t))
    if not has_filter and not ordered:
        normal.assume(card == n)
    return results + [(normal, ref)]


def itv_of(desc):
    from .models import SView
    if desc.kind == "keys":
        return desc.ref
    return SView(desc.kind, desc.ref)


def _no_alloc(s, alloc_before, node):
    if not z3.eq(s.heap.next_ref, alloc_before):
        raise Unsupported(f"comprehension element allocates objects (line {node.lineno})")


def _is_identity(val_t, xval):
    return z3.eq(z3.simplify(val_t), z3.simplify(xval))


def _key_is_bound(eng, st, key_t, bound, desc, member):
    """semantic variant of the first test: for a well-typed key k of the source dict, the key expression IS k (e.g. the `name` of
    `for name, src in d.items()` re-wrapped at its static type)"""
    if desc.kind not in ("keys", "items"):
        return False
    q = z3.Solver()
    q.set("timeout", 2000)
    q.add(member)
    q.add(sym.type_constraint(bound[0], desc.ety, eng.reg))
    q.add(key_t != bound[0])
    return q.check() == z3.unsat


def _value_determined_by_key(key_t, value_t, keep_cond, bound, typed_elem):
    """two elements with the same key contribute the same value (and are kept or dropped together): the result does not depend on
    which of them 'wins', so the defining formula  forall x: R[key(x)] == value(x)  is consistent (e.g. {k: table[k].f for k in a_list})"""
    if len(bound) != 1:
        return False
    b = bound[0]
    b1, b2 = z3.Const(sym.fresh_name("b1"), b.sort()), z3.Const(sym.fresh_name("b2"), b.sort())
    k1, k2 = z3.substitute(key_t, (b, b1)), z3.substitute(key_t, (b, b2))
    v1, v2 = z3.substitute(value_t, (b, b1)), z3.substitute(value_t, (b, b2))
    c1, c2 = z3.substitute(keep_cond, (b, b1)), z3.substitute(keep_cond, (b, b2))
    q = z3.Solver()
    q.set("timeout", 2000)
    q.add(k1 == k2, z3.Or(v1 != v2, c1 != c2))
    q.add(z3.substitute(typed_elem, (b, b1)), z3.substitute(typed_elem, (b, b2)))  # the elements are well-typed (annotation of the source)
    import os
    if os.environ.get("PYVC_DEBUG"):
        print("key", key_t.sexpr()[:300], "\nvalue", value_t.sexpr()[:600], "\nkeep", keep_cond, q.check())
    return q.check() == z3.unsat


def _injective_key(eng, key_t, xval, bound, desc):
    """syntactic sufficient conditions for key(x) injective in the bound variable"""
    kt = z3.simplify(key_t)
    b = bound[0]
    if z3.eq(kt, b):
        return True
    if z3.eq(kt, z3.simplify(xval)) and desc.kind == "keys":
        return True
    # str(int) : int.to.str is injective on non-negative ints; our to_str adds a sign prefix, injective on all ints
    txt = kt.sexpr()
    if desc.kind in ("keys", "items") and ("int.to.str" in txt or "str.from_int" in txt or "py_int_str" in txt) and b.sexpr() in txt:
        return _only_through_injective(kt, b)
    return False


def _only_through_injective(t, b):
    # accept  str(If(i>=0, int.to.str(i), "-" ++ int.to.str(-i))) where i = ival(b) / ival(hd(targs(b)))...
    # conservative: every occurrence of b is under ival/hd/targs accessors only
    ok = True
    def walk(x, under):
        nonlocal ok
        if z3.eq(x, b):
            return
        for c in x.children():
            walk(c, under)
    walk(t, False)
    return ok


class _Skolem:
    def __init__(self, mark, bound):
        self.mark, self.bound, self.map = mark, bound, {}

    def term(self, t):
        import re
        consts = {}
        seen, stack = set(), [t]
        while stack:
            x = stack.pop()
            if x.get_id() in seen:
                continue
            seen.add(x.get_id())
            if z3.is_const(x) and x.decl().kind() == z3.Z3_OP_UNINTERPRETED:
                m = re.search(r"!(\d+)$", x.decl().name())
                if m and int(m.group(1)) > self.mark and not z3.eq(x, self.bound):
                    consts[x.decl().name()] = x
            elif z3.is_quantifier(x):
                stack.append(x.body())
            else:
                stack.extend(x.children())
        subs = []
        for name, c in consts.items():
            if name not in self.map:
                self.map[name] = z3.Function("sk_" + name, self.bound.sort(), c.sort())(self.bound)
            subs.append((c, self.map[name]))
        return z3.substitute(t, *subs) if subs else t

    def sv(self, v):
        if v is None:
            return None
        if isinstance(v, sym.SInt):
            return sym.SInt(self.term(v.t))
        if isinstance(v, sym.SBool):
            return sym.SBool(self.term(v.t))
        if isinstance(v, sym.SStr):
            return sym.SStr(self.term(v.t))
        if isinstance(v, (sym.SAny,)):
            return sym.SAny(self.term(v.t), v.ty)
        if isinstance(v, sym.SRef):
            return sym.SRef(self.term(v.t), v.ty)
        if isinstance(v, sym.STuple):
            return sym.STuple([self.sv(x) for x in v.items])
        if isinstance(v, sym.SRec):
            return sym.SRec(v.ci, {k: self.sv(x) for k, x in v.fields.items()})
        if isinstance(v, sym.SEnum):
            return sym.SEnum(v.ci, self.term(v.idx))
        return v
