"""Counterexample extraction: z3 model -> JSON-able description of the function's inputs (parameters + reachable pre-state)."""
from __future__ import annotations

import re
import z3

from . import sym
from .sym import SAny, SBool, SClass, SEnum, SInt, SNone, SOpaque, SRec, SRef, SStr, STuple, Val, VL


def _z3str(v) -> str:
    s = v.as_string()
    # z3 escapes non-printable / non-ascii as \u{XX}
    return re.sub(r"\\u\{([0-9a-fA-F]+)\}", lambda m: chr(int(m.group(1), 16)), s)


class Extractor:
    def __init__(self, model, reg, state0, max_depth=4):
        self.m, self.reg, self.st, self.max_depth = model, reg, state0, max_depth
        self.seen_refs: dict[int, dict] = {}

    def ev(self, t):
        return self.m.eval(t, model_completion=True)

    def val(self, t, ty=None, depth=0):
        """concretise a Val term"""
        v = self.ev(t)
        if ty is not None and ty.kind not in ("any", "union"):
            return self.sv(sym.from_val(v, ty, self.reg), depth)
        d = v.decl().name()
        if d == "none":
            return None
        if d == "int":
            return self.ev(Val.ival(v)).as_long()
        if d == "bool":
            return z3.is_true(self.ev(Val.bval(v)))
        if d == "str":
            return _z3str(self.ev(Val.sval(v)))
        if d == "ref":
            return {"__ref__": self.ev(Val.rid(v)).as_long()}
        if d == "enum":
            ci = self.reg.by_id.get(self.ev(Val.ecls(v)).as_long())
            idx = self.ev(Val.eidx(v)).as_long()
            return {"__enum__": ci.name if ci else "?", "member": ci.members[idx] if ci and 0 <= idx < len(ci.members) else idx}
        if d == "tup":
            out, cur = [], self.ev(Val.targs(v))
            while cur.decl().name() == "cons" and len(out) < 16:
                out.append(self.val(VL.hd(cur), None, depth + 1))
                cur = self.ev(VL.tl(cur))
            return {"__tuple__": out}
        if d == "rec":
            ci = self.reg.by_id.get(self.ev(Val.rcls(v)).as_long())
            if ci is not None:
                return self.sv(sym.from_val(v, sym.TClass(ci.name), self.reg), depth)
            return {"__rec__": "?"}
        if d == "opq":
            return {"__opaque__": self.ev(Val.oid(v)).as_long()}
        if d == "cls":
            return {"__cls__": self.ev(Val.cid(v)).as_long()}
        return {"__unknown__": str(v)[:60]}

    def sv(self, v, depth=0):
        from .engine import SBytes
        if depth > self.max_depth:
            return {"__truncated__": True}
        if isinstance(v, SInt):
            return self.ev(v.t).as_long()
        if isinstance(v, SBool):
            return z3.is_true(self.ev(v.t))
        if isinstance(v, SStr):
            return _z3str(self.ev(v.t))
        if isinstance(v, SNone):
            return None
        if isinstance(v, SEnum):
            idx = self.ev(v.idx).as_long()
            return {"__enum__": v.ci.name, "module": v.ci.module, "member": v.ci.members[idx] if 0 <= idx < len(v.ci.members) else idx}
        if isinstance(v, STuple):
            return {"__tuple__": [self.sv(x, depth + 1) for x in v.items]}
        if isinstance(v, SRec):
            return {"__class__": v.ci.name, "module": v.ci.module, "fields": {f: self.sv(x, depth + 1) for f, x in v.fields.items()}}
        if isinstance(v, SAny):
            return self.val(v.t, v.ty if v.ty.kind != "any" else None, depth)
        if isinstance(v, SClass):
            return {"__cls__": v.ci.name}
        if isinstance(v, SOpaque):
            return {"__opaque__": str(v.label or "")}
        if isinstance(v, SBytes):
            from . import bytesalg
            try:
                n = self.ev(bytesalg.blen(v)).as_long()
            except Exception:
                n = 0
            return {"__bytes_len__": n}
        if isinstance(v, SRef):
            rid = self.ev(v.t).as_long()
            k = v.ty.kind
            if k == "class":
                ci = self.reg.get(v.ty.name)
                dyn = self.ev(z3.Select(self.st.heap.dyn_cls, v.t)).as_long()
                dci = self.reg.by_id.get(dyn, ci)
                if dci is not None and ci is not None and self.reg.is_subclass(dci, ci):
                    ci = dci
                if rid in self.seen_refs:
                    return {"__ref__": rid}
                out = {"__ref__": rid, "__class__": ci.name if ci else "?", "module": ci.module if ci else None, "fields": {}}
                self.seen_refs[rid] = out
                if ci is not None:
                    for f, fty in ci.fields.items():
                        if f.startswith("__"):
                            continue
                        try:
                            out["fields"][f] = self.val(self.st.read_field(v.t, f), fty, depth + 1)
                        except Exception as e:  # noqa
                            out["fields"][f] = {"__error__": str(e)[:60]}
                return out
            if k in ("dict", "set"):
                keys = self._array_keys(self.ev(self.st.dom(v.t)))
                kty = v.ty.k if k == "dict" else v.ty.v
                if k == "set":
                    return {"__set__": [self.val(kk, kty, depth + 1) for kk in keys]}
                items = []
                for kk in keys:
                    items.append([self.val(kk, kty, depth + 1), self.val(z3.Select(self.st.cmap(v.t), kk), v.ty.v, depth + 1)])
                return {"__dict__": items}
            if k == "list":
                n = self.ev(self.st.clen(v.t)).as_long()
                return {"__list__": [self.val(z3.Select(self.st.cseq(v.t), i), v.ty.v, depth + 1) for i in range(min(max(n, 0), 12))]}
        return {"__unknown__": repr(v)[:60]}

    def _array_keys(self, arr):
        """keys mapped to True in a model value of sort Array Val Bool (store chains / lambdas over finitely many points)"""
        keys = []
        cur = arr
        guard = 0
        while guard < 64:
            guard += 1
            if z3.is_store(cur):
                a, k, v = cur.children()
                if z3.is_true(v) and not any(z3.eq(k, x) for x in keys):
                    keys.append(k)
                cur = a
            elif z3.is_const_array(cur) or z3.is_K(cur):
                break
            else:
                break
        # a key stored True and later (outer) stored False would be wrong here; stores are listed outermost first, so
        # re-evaluate membership to be safe
        return [k for k in keys if z3.is_true(self.ev(z3.Select(arr, k)))]


def extract_inputs(model, reg, state0, frame_vars):
    ex = Extractor(model, reg, state0)
    out = {}
    for name, v in frame_vars.items():
        try:
            out[name] = ex.sv(v)
        except Exception as e:  # noqa
            out[name] = {"__error__": str(e)[:80]}
    return out
