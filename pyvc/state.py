"""Execution state of the symbolic executor: path condition, frames, heap, pending exception, event log."""
from __future__ import annotations

import z3

from . import sym
from .sym import SetS, MapS, SeqArrS, IntS, Val

EMPTY_SET = z3.K(Val, z3.BoolVal(False))


_QCACHE: dict[int, bool] = {}


def _has_quant(t) -> bool:
    i = t.get_id()
    if i in _QCACHE:
        return _QCACHE[i]
    seen, stack, res = set(), [t], False
    while stack:
        x = stack.pop()
        xi = x.get_id()
        if xi in seen:
            continue
        seen.add(xi)
        if z3.is_quantifier(x):
            res = True
            break
        stack.extend(x.children())
    _QCACHE[i] = res
    return res


class Unsupported(Exception):
    """a construct outside the supported subset: the obligation is UNDECIDED, never a violation"""


class SExc:
    """a pending / caught exception instance"""

    def __init__(self, ci, args=(), where=""):
        self.ci, self.args, self.where = ci, list(args), where

    def __repr__(self):
        return f"SExc({self.ci.name} @ {self.where})"


class Frame:
    def __init__(self, vars=None, module=None, qual="", self_val=None):
        self.vars = dict(vars or {})
        self.module = module
        self.qual = qual
        self.unbound: set[str] = set()  # names known local but not yet assigned

    def copy(self):
        f = Frame(self.vars, self.module, self.qual)
        f.unbound = set(self.unbound)
        return f


class Heap:
    """field arrays + containers.  All arrays are total; allocation is a monotone counter.
    The INITIAL heap uses deterministic constant names so that a part first touched after a state copy denotes the same
    initial array in every copy."""

    def __init__(self):
        self.fields: dict[str, z3.ExprRef] = {}  # field name -> Array Int -> Val
        self.c_dom = z3.Const("Cdom0", z3.ArraySort(IntS, SetS))
        self.c_map = z3.Const("Cmap0", z3.ArraySort(IntS, MapS))
        self.c_len = z3.Const("Clen0", z3.ArraySort(IntS, IntS))
        self.c_seq = z3.Const("Cseq0", z3.ArraySort(IntS, SeqArrS))
        self.next_ref = z3.Int("alloc0")
        self.dyn_cls = z3.Const("Dyncls0", z3.ArraySort(IntS, IntS))  # ref -> class id

    def copy(self):
        h = Heap.__new__(Heap)
        h.fields = dict(self.fields)
        h.c_dom, h.c_map, h.c_len, h.c_seq = self.c_dom, self.c_map, self.c_len, self.c_seq
        h.next_ref, h.dyn_cls = self.next_ref, self.dyn_cls
        return h


ALLOC0 = z3.Int("alloc0")


def closure_axioms():
    """every reference stored in the initial heap's containers denotes an object allocated before the call"""
    c, k, i = z3.Int("cl!c"), z3.Const("cl!k", Val), z3.Int("cl!i")
    cm = z3.Const("Cmap0", z3.ArraySort(IntS, MapS))
    cs = z3.Const("Cseq0", z3.ArraySort(IntS, SeqArrS))
    e1 = z3.Select(z3.Select(cm, c), k)
    e2 = z3.Select(z3.Select(cs, c), i)
    # stated for every stored value: on non-reference values `rid` is an unspecified accessor, which these axioms pin into
    # the allocated range too (harmless: no well-typed execution looks at it) - this keeps the axioms usable under quantifiers
    # where the tag of a stored value is not known
    return [z3.ForAll([c, k], z3.And(Val.rid(e1) >= 0, Val.rid(e1) < ALLOC0), patterns=[e1]),
            z3.ForAll([c, i], z3.And(Val.rid(e2) >= 0, Val.rid(e2) < ALLOC0), patterns=[e2])]


def field_closure_axiom(name):
    r = z3.Int("cl!r")
    f = z3.Const(f"F0_{name}", z3.ArraySort(IntS, Val))
    e = z3.Select(f, r)
    return z3.ForAll([r], z3.And(Val.rid(e) >= 0, Val.rid(e) < ALLOC0), patterns=[e])


class State:
    def __init__(self):
        self.pc: list[z3.ExprRef] = list(closure_axioms())
        self.frames: list[Frame] = []
        self.heap = Heap()
        self.exc: SExc | None = None
        self.ev_len = z3.IntVal(0)
        self.ev_arr = z3.Const(sym.fresh_name("events"), SeqArrS)
        self.ev_set = z3.K(Val, z3.BoolVal(False))  # ghost: the SET of entries logged since the verified function was entered (spec: logged(e))
        self.ghost: dict[str, object] = {}
        self.written_fields: set[str] = set()
        self.written_containers: list = []  # ref terms
        self.notes: list[str] = []
        self.depth = 0

    def copy(self) -> "State":
        s = State.__new__(State)
        s.pc = list(self.pc)
        s.frames = [f.copy() for f in self.frames]
        s.heap = self.heap.copy()
        s.exc = self.exc
        s.ev_len, s.ev_arr = self.ev_len, self.ev_arr
        s.ev_set = self.ev_set
        s.alloc_log = getattr(self, "alloc_log", ())
        s.ghost = dict(self.ghost)
        if "__distinct__" in s.ghost:
            s.ghost["__distinct__"] = dict(s.ghost["__distinct__"])  # facts proved under one branch's assumptions must not leak to siblings
        s.written_fields = set(self.written_fields)
        s.written_containers = list(self.written_containers)
        s.notes = list(self.notes)
        s.depth = self.depth
        return s

    def assume(self, t):
        if z3.is_true(t):
            return
        self.pc.append(t)

    def field(self, name):
        h = self.heap
        if name not in h.fields:
            h.fields[name] = z3.Const(f"F0_{name}", z3.ArraySort(IntS, Val))
            if not name.startswith("__"):
                self.pc.append(field_closure_axiom(name))
        return h.fields[name]

    # ---- allocation ------------------------------------------------------------------------
    def alloc(self):
        r = self.heap.next_ref
        n = z3.Int(sym.fresh_name("alloc"))
        self.assume(n == r + 1)
        self.heap.next_ref = n
        self.alloc_log = getattr(self, "alloc_log", ()) + (r,)  # provenance (python-level): references allocated along this path, in order
        return r

    # ---- object fields ---------------------------------------------------------------------
    def read_field(self, ref_t, name):
        return self.resolve(self.field(name), ref_t)

    def write_field(self, ref_t, name, val_t):
        self.heap.fields[name] = z3.Store(self.field(name), ref_t, val_t)
        self.written_fields.add(name)

    # ---- containers ------------------------------------------------------------------------
    def dom(self, r):
        return self.resolve(self.heap.c_dom, r)

    def cmap(self, r):
        return self.resolve(self.heap.c_map, r)

    def clen(self, r):
        return self.resolve(self.heap.c_len, r)

    def cseq(self, r):
        return self.resolve(self.heap.c_seq, r)

    def resolve(self, arr, idx):
        """Select(arr, idx) with read-over-write resolved at construction time: stores at indices that are provably different from
        idx on this path (cheap check on the quantifier-free part of the path condition, cached) are skipped.  Purely an
        optimisation - the returned term is equal to Select(arr, idx) under the path condition."""
        idx = z3.simplify(idx)
        cur = arr
        for _ in range(64):
            if not z3.is_store(cur):
                break
            a, i, v = cur.children()
            if z3.eq(z3.simplify(i), idx):
                return v
            if self._distinct(i, idx):
                cur = a
                continue
            break
        return z3.simplify(z3.Select(cur, idx))

    def _distinct(self, a, b):
        d = z3.simplify(a - b)
        if z3.is_int_value(d):
            return d.as_long() != 0
        key = (a.get_id(), b.get_id())
        cache = self.ghost.setdefault("__distinct__", {})
        if key in cache:
            return cache[key]
        sv = z3.Solver()
        sv.set("timeout", 300)
        for p in self.pc:
            if not _has_quant(p):
                sv.add(p)
        sv.add(a == b)
        res = sv.check() == z3.unsat
        cache[key] = res  # facts are only ever added to a path condition, so a proved disequality stays valid
        if not res:
            cache.pop(key)
        return res

    def container_wf(self, r):
        """true facts about every Python dict/set/list (assumed on access)"""
        l = self.clen(r)
        return z3.And(l >= 0, (l == 0) == (self.dom(r) == EMPTY_SET))

    def list_wf(self, r):
        return self.clen(r) >= 0

    def set_dom(self, r, d):
        self.heap.c_dom = z3.Store(self.heap.c_dom, r, d)
        self.written_containers.append(r)

    def set_map(self, r, m):
        self.heap.c_map = z3.Store(self.heap.c_map, r, m)
        self.written_containers.append(r)

    def set_len(self, r, l):
        self.heap.c_len = z3.Store(self.heap.c_len, r, l)
        self.written_containers.append(r)

    def set_seq(self, r, s):
        self.heap.c_seq = z3.Store(self.heap.c_seq, r, s)
        self.written_containers.append(r)

    def new_container(self, kind_ty):
        r = self.alloc()
        self.heap.c_dom = z3.Store(self.heap.c_dom, r, EMPTY_SET)
        self.heap.c_len = z3.Store(self.heap.c_len, r, z3.IntVal(0))
        w = sym.SRef(r, kind_ty)
        from . import models
        models.assume_kind(self, w)
        return w

    # ---- events ----------------------------------------------------------------------------
    def log_event(self, name: str, args):
        vals = []
        for a in args:
            try:
                vals.append(a.val())
            except Exception:  # a value with no first-order embedding (composite bytes, closures): logged as an anonymous blob
                vals.append(sym.fresh_val("unloggable"))
        ev = Val.tup(sym.vl_of([Val.str(z3.StringVal(name))] + vals))
        self.ev_arr = z3.Store(self.ev_arr, self.ev_len, ev)
        self.ev_len = self.ev_len + 1
        self.ev_set = z3.Store(self.ev_set, ev, z3.BoolVal(True))

    def havoc_ev_set(self):
        """unknown entries may have been logged: the set only grows"""
        new = z3.Const(sym.fresh_name("evset"), self.ev_set.sort())
        e = sym.fresh_val("e")
        self.assume(z3.ForAll([e], z3.Implies(z3.Select(self.ev_set, e), z3.Select(new, e)), patterns=[z3.Select(new, e)]))
        self.ev_set = new

    # ---- solver ----------------------------------------------------------------------------
    def check(self, extra=(), timeout_ms=5000):
        s = z3.Solver()
        s.set("timeout", timeout_ms)
        for p in self.pc:
            s.add(p)
        for e in extra:
            s.add(e)
        r = s.check()
        return str(r), s

    def feasible(self, extra=()):
        """path pruning only: decided on the quantifier-free part of the path condition (a weaker condition, so `unsat`
        really means infeasible; quantified facts are used when obligations are discharged)"""
        s = z3.Solver()
        s.set("timeout", 1500)
        for p in self.pc:
            if not _has_quant(p):
                s.add(p)
        for e in extra:
            s.add(e)
        return s.check() != z3.unsat

    def must_qf(self, cond, timeout_ms=400) -> bool:
        """cheap: is cond implied by the quantifier-free part of the path condition?  (False = not shown)"""
        q = z3.Solver()
        q.set("timeout", timeout_ms)
        for p in self.pc:
            if not _has_quant(p):
                q.add(p)
        q.add(z3.Not(cond))
        return q.check() == z3.unsat

    def must(self, cond) -> bool:
        """is cond implied by the path condition?"""
        # cheap attempt first: the quantifier-free part of the path condition (a subset of the assumptions: `unsat` carries over)
        q = z3.Solver()
        q.set("timeout", 1500)
        nq = 0
        for p in self.pc:
            if not _has_quant(p):
                q.add(p)
            else:
                nq += 1
        q.add(z3.Not(cond))
        r0 = q.check()
        if r0 == z3.unsat:
            return True
        if nq == 0:
            return False
        r, _ = self.check([z3.Not(cond)], timeout_ms=3000)
        return r == "unsat"
