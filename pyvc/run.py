"""command line: verify one or more targets and print a summary (development aid)."""
import sys, json, time
from .frontend import Frontend
from .contracts import ContractDB
from .verify import Verifier


def verify_targets(targets, contracts_dir, timeout_ms=10000, verbose=False):
    fe = Frontend()
    db = ContractDB(contracts_dir)
    ver = Verifier(fe, db, timeout_ms)
    reports = []
    for t in targets:
        rep = ver.verify_function(t)
        ver.discharge(rep)
        reports.append(rep)
    return reports


def main():
    import os
    here = os.path.dirname(os.path.dirname(os.path.abspath(__file__)))
    targets = sys.argv[1:]
    fe = Frontend()
    db = ContractDB(os.path.join(here, "contracts"))
    if not targets:
        targets = list(db.contracts)
    ver = Verifier(fe, db, int(os.environ.get("PYVC_TIMEOUT_MS", "10000")))
    for t in targets:
        t0 = time.time()
        ver = Verifier(fe, ContractDB.for_target(os.path.join(here, "contracts"), t), int(os.environ.get("PYVC_TIMEOUT_MS", "10000")))
        rep = ver.verify_function(t)
        ver.discharge(rep)
        res = {}
        for ob in rep.obligations:
            res[ob.result] = res.get(ob.result, 0) + 1
        print(f"{t}: paths={rep.paths} obligations={len(rep.obligations)} {res} undecided={rep.undecided} {time.time()-t0:.2f}s")
        if os.environ.get("PYVC_TIMES"):
            for ob in rep.obligations:
                if ob.seconds > 2:
                    print(f"    {ob.seconds:6.1f}s {ob.result} {ob.backend} {ob.id}")
        for ob in rep.obligations:
            if ob.result != "discharged":
                print("   ", ob.result, ob.id, "|", ob.clause[:100], "|", ob.note)
                if ob.model is not None and os.environ.get("PYVC_MODEL"):
                    print("      model:", str(ob.model)[:1500])


if __name__ == "__main__":
    main()
