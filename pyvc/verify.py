"""Verification of one function against its contract, and use of contracts at call sites.

verify_function:  pre ∧ class-invariant ⇒ wp(real body, post ∧ class-invariant ∧ frame ∧ exceptional post)
Every obligation is one SMT query  pc ∧ ¬goal  (unsat = discharged).
"""
from __future__ import annotations

import ast
import os
import time
import traceback
import z3

from . import models, sym
from .contracts import Clause, Contract, ContractDB
from .engine import Engine, Outcome, SBytes, _assigned_names, _walk_own
from .frontend import Frontend
from .state import Frame, SExc, State, Unsupported
from .sym import (ANY, NONEV, SAny, SBool, SFunc, SInt, SRef, SStr, STuple, TClass, Val)


class Obligation:
    def __init__(self, oid, target, kind, clause_src, pc, goal, top, path_no, note=""):
        self.id, self.target, self.kind, self.clause = oid, target, kind, clause_src
        self.pc, self.goal, self.top, self.path_no, self.note = pc, goal, top, path_no, note
        self.result = None
        self.backend = None
        self.seconds = 0.0
        self.model = None

    def brief(self):
        return {"id": self.id, "target": self.target, "kind": self.kind, "clause": self.clause[:160], "result": self.result,
                "backend": self.backend, "seconds": round(self.seconds, 4), "top": self.top, "path": self.path_no}


class FunctionReport:
    def __init__(self, target):
        self.target = target
        self.obligations: list[Obligation] = []
        self.undecided: list[str] = []  # reasons (unsupported construct etc.)
        self.paths = 0
        self.vacuous = False
        self.dropped = 0
        self.inlined: list[str] = []
        self.externals: list[str] = []
        self.source = {}
        self.seconds = 0.0
        self.canary = None


# --------------------------------------------------------------------------------------------------
def symbolic_value(eng: Engine, st: State, name: str, ty: sym.Ty, exact_cls=True):
    """a fresh, well-typed symbolic input of static type ty"""
    if ty.kind == "bytes":
        from . import bytesalg
        return bytesalg.blob(st, name)
    t = sym.fresh_val(name)
    st.assume(sym.type_constraint(t, ty, eng.reg))
    v = sym.from_val(t, ty, eng.reg)
    _wf_refs(eng, st, v, ty)
    return v


def _wf_refs(eng, st, v, ty, depth=0):
    if isinstance(v, sym.SRec) and depth < 4:
        for f, x in v.fields.items():
            _wf_refs(eng, st, x, v.ci.fields.get(f, ANY), depth + 1)
        return
    if isinstance(v, STuple) and depth < 4:
        for x in v.items:
            _wf_refs(eng, st, x, getattr(x, "ty", ANY), depth + 1)
        return
    if isinstance(v, SRef):
        st.assume(z3.And(v.t >= 0, v.t < st.heap.next_ref))
        eng.models.assume_kind(st, v)
        if ty.kind in ("dict", "set", "list"):
            eng.typed_container(st, v, deep=True)  # well-typedness of a container PARAMETER's elements (annotation of the real function)
        if ty.kind == "class":
            # encoding assumption: the container-valued fields of ONE object hold pairwise distinct containers
            ci0 = eng.reg.get(ty.name)
            if ci0 is not None:
                cf = [f for f, t in ci0.fields.items() if t.kind in ("dict", "list", "set")]
                if 2 <= len(cf) <= 40:
                    refs = [Val.rid(st.read_field(v.t, f)) for f in cf]
                    st.assume(z3.Distinct(*refs))
        if ty.kind == "class":
            ci = eng.reg.get(ty.name)
            subs = eng.reg.subclasses(ci) if ci else []
            if ci is not None and len(subs) == 1:
                st.assume(z3.Select(st.heap.dyn_cls, v.t) == ci.id)
            elif ci is not None:
                st.assume(z3.Or(*[z3.Select(st.heap.dyn_cls, v.t) == s.id for s in subs]))


def spec_eval(eng: Engine, st: State, fi: int, expr, lets=None, old=None, result=None) -> z3.ExprRef:
    """evaluate a contract expression to a z3 Bool in spec (pure) mode"""
    saved = (eng.pure, eng.old_state, eng.result_val, getattr(eng, "spec_lets", {}))
    eng.pure = True
    eng.old_state = old
    eng.result_val = result
    eng.spec_lets = dict(lets or {})
    pending, st.exc = st.exc, None  # postconditions of exceptional exits are evaluated on the state itself
    try:
        (s, v), = eng.ev(expr, st, fi)
        st.pc = s.pc
        return eng.truth(s, v)
    finally:
        st.exc = pending
        eng.pure, eng.old_state, eng.result_val, eng.spec_lets = saved


# let-bindings and spec functions are resolved through Engine.lookup -> patch in here
_orig_lookup = Engine.lookup


def _lookup(self, name, st, fi, node=None):
    obs = getattr(self, "spec_observes", None)
    if self.pure and obs and name in obs and name not in st.frames[fi].vars:
        v = st.ghost.get("obs:" + obs[name])
        if v is None:
            # the external call did not happen on this path: the name denotes an arbitrary value of the declared type
            v = self.external_result(st, obs[name])
        return v
    lets = getattr(self, "spec_lets", None)
    if self.pure and lets and name in lets and name not in st.frames[fi].vars:
        expr = lets[name]
        (s, v), = self.ev(expr, st, fi)
        return v
    if self.pure and self.contracts is not None and name in self.contracts.spec_funcs and name not in st.frames[fi].vars:
        fn = self.contracts.spec_funcs[name]
        return SFunc(fn, {}, name=name, module=st.frames[fi].module, qual=f"<spec>:{name}")
    return _orig_lookup(self, name, st, fi, node)


Engine.lookup = _lookup


# --------------------------------------------------------------------------------------------------
class Verifier:
    def __init__(self, fe: Frontend, db: ContractDB, timeout_ms=10000):
        self.fe, self.db, self.timeout_ms = fe, db, timeout_ms

    # ---- set-up of the symbolic pre-state ------------------------------------------------------
    def _apply_field_types(self, eng):
        for name, fields in self.db.stub_classes.items():
            if self.fe.reg.get(name) is None:
                ci = sym.ClassInfo(name, "external", {})
                self.fe.reg.add(ci)
                for f, texpr in fields.items():
                    ci.fields[f] = self.fe.parse_type(texpr, None)
        for name in self.db.load_classes:
            modname, cname = name.split(":")
            if self.fe.class_info(modname, cname) is None:
                raise Unsupported(f"load_class target {name} not found")
        for cls_target, fields in self.db.field_types.items():
            modname, cname = cls_target.split(":")
            ci = self.fe.class_info(modname, cname)
            if ci is None:
                raise Unsupported(f"field_types target {cls_target} not found")
            mi = self.fe.module(modname)
            for f, texpr in fields.items():
                ci.fields[f] = self.fe.parse_type(texpr, mi)
        for name in self.db.as_record:
            modname, cname = name.split(":")
            ci = self.fe.class_info(modname, cname)
            if ci is not None:
                ci.kind = "record"
        for name in self.db.externals.get("__classes__", ()):  # classes treated as external boundaries
            modname, cname = name.split(":")
            ci = self.fe.class_info(modname, cname)
            if ci is not None:
                ci.kind = "external"
                ci.methods = {}

    def _harness_module(self, h):
        """namespace of a harness = namespace of the repository module it is declared for"""
        from .frontend import ModuleInfo
        base = self.fe.module(h.module)
        if base is None:
            raise Unsupported(f"harness module {h.module} not found")
        mi = ModuleInfo.__new__(ModuleInfo)
        mi.name, mi.path, mi.text = base.name, base.path, base.text
        mi.tree = base.tree
        mi.functions, mi.classes, mi.assigns, mi.ann, mi.imports = base.functions, base.classes, base.assigns, base.ann, base.imports
        return mi

    def initial_state(self, eng: Engine, target: str, c: Contract):
        if target.startswith("harness:"):
            h = self.db.harnesses[target.split(":", 1)[1]]
            mi, fn, owner, chain = self._harness_module(h), h.fn, None, []
            self.fe.consumed[target] = {"sha256": "", "loc": len(h.fn.body), "file": os.path.relpath(h.file, os.path.dirname(os.path.dirname(os.path.abspath(__file__)))), "lineno": h.fn.lineno, "harness": True}
        else:
            mi, fn, owner, chain = self.fe.find(target)
        st = State()
        st.assume(st.heap.next_ref >= 1)
        fr = Frame({}, mi, target)
        st.frames.append(fr)
        a = fn.args
        params = a.posonlyargs + a.args + a.kwonlyargs
        owner_ci = self.fe._load_class(mi, owner) if owner is not None else None
        is_method = owner_ci is not None and not chain
        decos = [d.id for d in fn.decorator_list if isinstance(d, ast.Name)]
        for i, p in enumerate(params):
            texpr = c.types.get(p.arg, p.annotation)
            if i == 0 and is_method and "staticmethod" not in decos and texpr is p.annotation and p.annotation is None:
                if "classmethod" in decos:
                    fr.vars[p.arg] = sym.SClass(owner_ci)
                    continue
                ty = TClass(owner_ci.name)
            else:
                ty = self.fe.parse_type(texpr, mi)
            fr.vars[p.arg] = symbolic_value(eng, st, p.arg, ty)
            if isinstance(fr.vars[p.arg], sym.SOpaque) and not fr.vars[p.arg].label:
                fr.vars[p.arg].label = p.arg  # a call of an opaque parameter (a callback) is logged under the parameter's name
        if a.vararg is not None:
            ty = self.fe.parse_type(c.types.get(a.vararg.arg), mi) if a.vararg.arg in c.types else sym.TList(ANY)
            fr.vars[a.vararg.arg] = symbolic_value(eng, st, a.vararg.arg, ty)
        if a.kwarg is not None:
            ty = self.fe.parse_type(c.types.get(a.kwarg.arg), mi) if a.kwarg.arg in c.types else sym.TDict(sym.STR, ANY)
            fr.vars[a.kwarg.arg] = symbolic_value(eng, st, a.kwarg.arg, ty)
        # captured variables of nested functions
        for name, texpr in c.captures.items():
            fr.vars[name] = symbolic_value(eng, st, name, self.fe.parse_type(texpr, mi))
        fr.unbound = _assigned_names(fn) - set(fr.vars)
        return mi, fn, owner_ci, st

    def class_inv_for(self, mi, owner_ci, target):
        """class invariant clauses applying to a method/closure of owner_ci"""
        if owner_ci is None:
            return None
        return self.db.class_invariants.get(f"{owner_ci.module}:{owner_ci.name}")

    # ---- main entry ------------------------------------------------------------------------------
    def verify_function(self, target: str, mutate=None) -> FunctionReport:
        rep = FunctionReport(target)
        t0 = time.time()
        c = self.db.get(target)
        if c is None:
            rep.undecided.append("no contract")
            return rep
        eng = Engine(self.fe, self.db)
        eng.verifying = target
        eng._verifier = self
        eng.inline_all = target.startswith("harness:") or bool(c.opts.get("inline_all"))
        eng.spec_observes = dict(c.observes)

        def callsite(cc, cl, st_, g, node_):
            fake = Clause(cl.expr, tag=f"callee-pre {cc.target.split(':')[1]}:{cl.tag or cl.lineno}", top=False, lineno=cl.lineno, src=cl.src)
            self._ob(rep, c, "callee-precondition", fake, st_, g, len(rep.obligations))
        eng.callsite_obligation = callsite
        eng.loop_handler = self._make_loop_handler(rep, c)
        self._eng = eng
        try:
            self._apply_field_types(eng)
            mi, fn, owner_ci, st = self.initial_state(eng, target, c)
            if mutate is not None:
                fn = mutate(fn)
            rep.source = self.fe.consumed.get(target, {})
            eng.local_types = {k: self.fe.parse_type(v, mi) for k, v in getattr(c, "local_types", {}).items()}
            self._fn_node = fn
            self._loops = [n for n in _ordered_loops(fn)]
            fi = 0
            inv = self.class_inv_for(mi, owner_ci, target)
            self_name = "self" if "self" in st.frames[0].vars else None
            # requires
            for cl in c.requires:
                st.assume(spec_eval(eng, st, fi, cl.expr, c.lets))
            if inv is not None and self_name and not c.opts.get("no_class_invariant_pre", False) and not target.endswith(".__init__"):
                for cl in inv.clauses:
                    st.assume(spec_eval(eng, st, fi, cl.expr, {**inv.lets, **c.lets}))
            r, _ = st.check(timeout_ms=1500)  # vacuity canary: the precondition must not be refutable
            rep.canary = r
            if r == "unsat":
                rep.vacuous = True
                rep.undecided.append("precondition unsatisfiable (vacuous contract)")
                return rep
            self._is_gen = any(isinstance(n, (ast.Yield, ast.YieldFrom)) for n in _walk_own(fn))
            old = st.copy()
            self._old = old
            if self._is_gen:
                st.frames[0].vars["__yield__"] = models.new_list(eng, st, [], sym.TList(ANY))  # allocated by the call: outside the frame
            # when-conditions of raises clauses are pre-state predicates
            outs = eng.ex_block(fn.body, st, fi)
            rep.paths = len(outs)
            # vacuity guard: every path was feasible at its last branch; one that is infeasible where it ends had contradictory facts put
            # on it by the executor afterwards - its obligations would be discharged vacuously
            dead = [i for i, o in enumerate(outs) if not o.st.feasible()]
            if dead:
                rep.undecided.append(f"vacuity guard: path(s) {dead[:6]} of {len(outs)} end with a contradictory path condition (engine limitation)")
            for pno, o in enumerate(outs):
                self._check_outcome(eng, rep, c, inv, old, o, pno, fi, self_name)
        except Unsupported as e:
            if os.environ.get("PYVC_DEBUG"):
                traceback.print_exc()
            rep.undecided.append(f"unsupported: {e}")
        except RecursionError:
            rep.undecided.append("unsupported: recursion limit")
        rep.dropped = eng.dropped
        rep.inlined = sorted(eng.inlined)
        rep.externals = sorted(eng.externals_used)
        rep.seconds = time.time() - t0
        return rep

    def _ob(self, rep, c, kind, clause: Clause | None, st: State, goal, pno, top=None, note=""):
        n = len(rep.obligations)
        tag = (clause.tag if clause is not None and clause.tag else f"{kind}@{clause.lineno}" if clause is not None else kind)
        oid = f"{c.property}/{c.target.split(':')[1]}/{tag}/p{pno}"
        ob = Obligation(oid, c.target, kind, clause.src if clause is not None else note, list(st.pc), goal,
                        clause.top if (clause is not None and top is None) else bool(top), pno, note)
        rep.obligations.append(ob)
        return ob

    def _check_outcome(self, eng, rep, c: Contract, inv, old: State, o: Outcome, pno, fi, self_name):
        st = o.st
        lets = c.lets
        # in postconditions a PARAMETER name denotes the argument the function was called with, also when the body re-binds the name
        # (`outputValue = "ok"`): otherwise `self.local[id] == outputValue` would compare the store with the re-bound value and hold vacuously.
        # (objects are unaffected: their state is read from the post-state heap; locals keep their final values)
        fr_post, fr_pre = st.frames[fi], old.frames[0]
        rebound = {p: fr_post.vars.get(p) for p in c.params if p in fr_pre.vars and fr_post.vars.get(p) is not fr_pre.vars[p]}
        for p in rebound:
            fr_post.vars[p] = fr_pre.vars[p]
        try:
            return self._check_outcome2(eng, rep, c, inv, old, o, pno, fi, self_name)
        finally:
            for p, v in rebound.items():
                if v is None:
                    fr_post.vars.pop(p, None)
                else:
                    fr_post.vars[p] = v

    def _check_outcome2(self, eng, rep, c: Contract, inv, old: State, o: Outcome, pno, fi, self_name):
        st = o.st
        lets = c.lets
        if o.kind in ("next", "return"):
            result = o.value if o.value is not None else NONEV
            if getattr(self, "_is_gen", False):
                result = st.frames[fi].vars["__yield__"]  # a generator's result is the list of what it yields
            for cl in c.ensures:
                g = spec_eval(eng, st, fi, cl.expr, lets, old=old, result=result)
                self._ob(rep, c, "ensures", cl, st, g, pno)
            # must-raise clauses: a normal return requires the when-condition to have been false on entry
            for exc, cl in c.raises:
                w = spec_eval(eng, old.copy_with_pc(st.pc) if hasattr(old, "copy_with_pc") else _with_pc(old, st), fi, cl.expr, lets)
                self._ob(rep, c, f"must-raise {exc}", cl, st, z3.Not(w), pno)
            if inv is not None and self_name and not c.opts.get("no_class_invariant_post", False):
                for cl in inv.clauses:
                    g = spec_eval(eng, st, fi, cl.expr, {**inv.lets, **lets}, old=old, result=result)
                    self._ob(rep, c, "class-invariant", cl, st, g, pno)
            self._frame_obligations(eng, rep, c, old, st, pno)
            if c.logs_only is not None:
                names = c.logs_only + [nm for nm, _ in c.logs] + list(getattr(c, "logs_result", []))
                fake = Clause(None, tag="frame-event-names", top=False, src=f"only entries named {names} are added to the log")
                self._ob(rep, c, "frame", fake, st, _only_names(old.ev_set, st.ev_set, names), pno)
        elif o.kind == "raise":
            exc: SExc = st.exc
            allowed = []
            for en, cl in list(c.raises) + list(c.may_raise):
                eci = eng.reg.get(en)
                if eci is None:
                    raise Unsupported(f"unknown exception {en} in contract")
                if eng.reg.is_subclass(exc.ci, eci):
                    allowed.append(spec_eval(eng, _with_pc(old, st), fi, cl.expr, lets))
            goal = z3.Or(*allowed) if allowed else z3.BoolVal(False)
            fake = Clause(ast.Constant(value=True), tag=f"no-unexpected-{exc.ci.name}", top=c.opts.get("exceptions_top", False),
                          src=f"raises {exc.ci.name} at {exc.where} only when declared")
            self._ob(rep, c, "exception-allowed", fake, st, goal, pno)
            for en, cl in c.ensures_raise:
                eci = eng.reg.get(en)
                if eci is not None and eng.reg.is_subclass(exc.ci, eci):
                    g = spec_eval(eng, st, fi, cl.expr, lets, old=old)
                    self._ob(rep, c, f"ensures-raise {en}", cl, st, g, pno)
            if inv is not None and self_name and not c.opts.get("no_class_invariant_post", False):
                for cl in inv.clauses:
                    g = spec_eval(eng, st, fi, cl.expr, {**inv.lets, **lets}, old=old)
                    self._ob(rep, c, "class-invariant(on raise)", cl, st, g, pno)
        else:
            raise Unsupported(f"outcome {o.kind} escaping the function")

    def _frame_obligations(self, eng, rep, c, old, st, pno):
        if c.modifies is None:
            return
        allowed_fields, allowed_refs, events_ok = self._frame_sets(eng, c, old, 0)
        for f in sorted(st.written_fields - old.written_fields):
            if f in allowed_fields or f.startswith("__"):
                continue
            r0 = sym.fresh_int("fr")
            # objects allocated during the call are not part of the frame: only pre-existing objects must keep the field
            g = z3.ForAll([r0], z3.Implies(z3.And(r0 >= 0, r0 < old.heap.next_ref), z3.Select(st.field(f), r0) == z3.Select(old.field(f), r0)))
            fake = Clause(None, tag=f"frame-{f}", top=False, src=f"field {f} not in modifies")
            self._ob(rep, c, "frame", fake, st, g, pno)
        if st.written_containers[len(old.written_containers):]:
            r = sym.fresh_int("r")
            not_allowed = z3.And(r >= 0, r < old.heap.next_ref, *[r != a for a in allowed_refs])
            same = z3.And(st.dom(r) == old.dom(r), st.cmap(r) == old.cmap(r), st.clen(r) == old.clen(r), st.cseq(r) == old.cseq(r))
            fake = Clause(None, tag="frame-containers", top=False, src="containers outside modifies unchanged")
            self._ob(rep, c, "frame", fake, st, z3.ForAll([r], z3.Implies(not_allowed, same)), pno)
        if not events_ok:
            fake = Clause(None, tag="frame-events", top=False, src="no external call outside modifies")
            self._ob(rep, c, "frame", fake, st, st.ev_len == old.ev_len, pno)

    def _frame_sets(self, eng, c: Contract, st: State, fi):
        fields, refs, events = set(), [], False
        for m in c.modifies or []:
            if isinstance(m, ast.Constant) and isinstance(m.value, str):
                if m.value == "events":
                    events = True
                else:
                    fields.add(m.value)
            else:
                saved = eng.pure
                eng.pure = True
                eng.spec_lets = dict(c.lets)
                try:
                    tmp = st.copy()
                    (s, v), = eng.ev(m, tmp, fi)
                    _keep_axioms(st, s)
                finally:
                    eng.pure = saved
                if not isinstance(v, SRef):
                    raise Unsupported(f"modifies expression {ast.unparse(m)} is not a reference")
                refs.append(v.t)
                o = models._owning(eng, v)
                if o is not None:
                    fields.update({f"__in_{o}", f"__key_{o}"})
        return fields, refs, events

    # ---- loops -----------------------------------------------------------------------------------
    def _make_loop_handler(self, rep, c: Contract):
        def handler(eng, node, st, fi):
            from . import loops
            if fi != 0 or node not in self._loops:
                # loop inside an inlined callee: only concrete iteration is supported there
                return loops.exec_loop(self, eng, rep, None, node, st, fi, None)
            k = self._loops.index(node)
            return loops.exec_loop(self, eng, rep, c, node, st, fi, k)
        return handler

    # ---- discharge -------------------------------------------------------------------------------
    def discharge(self, rep: FunctionReport, timeout_ms=None):
        """two passes under a wall-clock budget per target: (1) every obligation gets a short z3 attempt - on a tree where the contracts
        hold almost all are discharged here, and a refutable one is refuted here wherever it sits in the list; (2) what is left gets the
        full solver portfolio until the budget is used up.  An obligation the budget did not reach is `unknown` (undecided), never more:
        a changed function whose obligations all time out must not stall the whole check."""
        from . import smt
        tmo = timeout_ms or self.timeout_ms
        budget = float(os.environ.get("PYVC_TARGET_BUDGET_S", "300" if tmo <= 10000 else "2400"))
        # CPU seconds of this process and of the cvc5 children it waited for (not wall clock: verdicts must not flip when all cores are busy)
        clock = lambda: sum(os.times()[:4])
        t0 = clock()
        pending = []
        for ob in rep.obligations:
            if clock() - t0 > budget:
                ob.result, ob.backend, ob.note = "unknown", "none", (ob.note + " " if ob.note else "") + "target budget exhausted before this obligation"
                continue
            smt.discharge(ob, tmo, quick_only=True)
            if ob.result == "unknown":
                pending.append(ob)
        for ob in pending:
            if clock() - t0 > budget:
                ob.note = (ob.note + " " if ob.note else "") + "target budget exhausted (short z3 attempt only)"
                continue
            ob.note = ""
            smt.discharge(ob, tmo)


def _only_names(before, after, names):
    e = sym.fresh_val("le")
    nm = Val.sval(sym.VL.hd(Val.targs(e)))
    return z3.ForAll([e], z3.Implies(z3.Select(after, e), z3.Or(z3.Select(before, e), *[nm == z3.StringVal(n) for n in names])))


def _keep_axioms(st: State, scratch: State):
    """a frame expression is evaluated (in spec mode) on a scratch copy; the facts that evaluation put on the scratch path are typing /
    closure axioms about the initial heap (e.g. the closure axiom of a field first touched there) - they hold on the real path too and
    are needed there: the havocked reference comes from the scratch evaluation"""
    have = {p.get_id() for p in st.pc}
    for p in scratch.pc:
        if p.get_id() not in have:
            st.pc.append(p)
            have.add(p.get_id())
    for f, arr in scratch.heap.fields.items():
        if f not in st.heap.fields and arr.decl().name() == f"F0_{f}":
            st.heap.fields[f] = arr


def _with_pc(old: State, st: State) -> State:
    """the pre-state heap/frames under the path condition of st; results of external calls observed along the path
    (contract clause `observes`) are path facts, not heap state, and are carried over"""
    o = old.copy()
    o.pc = st.pc
    for k, v in st.ghost.items():
        if k.startswith("obs:"):
            o.ghost[k] = v
    return o


def _ordered_loops(fn):
    loops = [n for n in _walk_own(fn) if isinstance(n, (ast.For, ast.While))]
    loops.sort(key=lambda n: (n.lineno, n.col_offset))
    return loops


# --------------------------------------------------------------------------------------------------
def apply_contract(eng: Engine, st: State, fv: SFunc, c: Contract, args, kwargs, node=None):
    """call site: assert the callee's precondition, havoc its frame, assume its postcondition"""
    saved_obs = getattr(eng, "spec_observes", None)
    scope = next(sym._fresh)
    # names the CALLEE's contract gives to results of external calls made inside the callee: unknown to the caller, so each denotes a
    # fresh value of the declared result type, one per call site (never the caller's own observations)
    eng.spec_observes = {name: f"{attr}#c{scope}" for name, attr in c.observes.items()}
    try:
        return _apply_contract(eng, st, fv, c, args, kwargs, node)
    finally:
        eng.spec_observes = saved_obs


def _apply_contract(eng: Engine, st: State, fv: SFunc, c: Contract, args, kwargs, node=None):
    eng.skolem_scope = next(sym._fresh)
    vals = eng.bind_params(st, fv, args, kwargs, node)
    vals = {k: (v.lst if isinstance(v, models.SGen) else v) for k, v in vals.items()}  # a generator argument is seen as the list of what it yields
    if c.modifies is None:
        raise Unsupported(f"contract of {c.target} has no modifies clause (needed at call sites)")
    # the callee frame
    fr = Frame(vals, fv.module, c.target)
    st.frames.append(fr)
    fi = len(st.frames) - 1
    v: "Verifier" = eng_verifier(eng)
    # class invariant of the callee's owner is part of its pre/post
    inv = None
    if fv.owner is not None:
        inv = eng.contracts.class_invariants.get(f"{fv.owner.module}:{fv.owner.name}")
    pre_goals = []
    for cl in c.requires:
        pre_goals.append((cl, spec_eval(eng, st, fi, cl.expr, c.lets)))
    if inv is not None and "self" in vals and not c.opts.get("no_class_invariant_pre", False):
        for cl in inv.clauses:
            pre_goals.append((cl, spec_eval(eng, st, fi, cl.expr, {**inv.lets, **c.lets})))
    hook = getattr(eng, "callsite_obligation", None)
    for cl, g in pre_goals:
        if hook is not None:
            hook(c, cl, st, g, node)
    pre = st.copy()
    # havoc
    fields, refs, events = v._frame_sets(eng, c, st, fi)
    for f in fields:
        st.heap.fields[f] = z3.Const(sym.fresh_name(f"F_{f}"), z3.ArraySort(sym.IntS, Val))
        st.written_fields.add(f)
    for name, a in eng.contracts.aggregates.items():
        if set(a["fields"]) & fields or f"__in_{a['over']}" in fields:
            st.ghost["agg:" + name] = sym.fresh_int("agg_" + name)  # the callee may have changed the aggregate: re-learned from its postcondition
    for r in refs:
        st.set_dom(r, sym.fresh_const("hdom", sym.SetS))
        st.set_map(r, sym.fresh_const("hmap", sym.MapS))
        st.set_len(r, sym.fresh_int("hlen"))
        st.set_seq(r, sym.fresh_const("hseq", sym.SeqArrS))
    if events:
        n = sym.fresh_int("evn")
        st.assume(n >= st.ev_len)
        k = sym.fresh_int("k")
        na = sym.fresh_const("events", sym.SeqArrS)
        st.assume(z3.ForAll([k], z3.Implies(z3.And(k >= 0, k < st.ev_len), z3.Select(na, k) == z3.Select(st.ev_arr, k))))
        st.ev_len, st.ev_arr = n, na
        before_set = st.ev_set
        st.havoc_ev_set()
        if c.logs_only is not None:
            st.assume(_only_names(before_set, st.ev_set, c.logs_only))  # the callee adds entries of these names only (checked when the callee is verified)
    for name, arg_exprs in c.logs:
        vals = []
        saved = eng.pure
        eng.pure = True
        eng.spec_lets = dict(c.lets)
        try:
            for a in arg_exprs:
                (s_, v_), = eng.ev(a, st, fi)
                vals.append(v_)
        finally:
            eng.pure = saved
        st.log_event(name, [v_ for v_ in vals if not isinstance(v_, (SFunc,))])
    # objects allocated by the callee (a callee with an empty frame and no logged effect is treated as allocation-free:
    # whatever it allocates is unreachable from the caller except through its result, which is fresh-typed below)
    if fields or refs or events or c.logs:
        na = z3.Int(sym.fresh_name("alloc"))
        st.assume(na >= st.heap.next_ref)
        st.heap.next_ref = na
    rty = eng.fe.parse_type(fv.node.returns, fv.module) if fv.node.returns is not None else ANY
    out = []
    # exceptional outcomes
    for en, cl in list(c.raises) + list(c.may_raise):
        s2 = st.copy()
        w = spec_eval(eng, _with_pc(pre, s2), fi, cl.expr, c.lets)
        s2.assume(w)
        if not s2.feasible():
            continue
        for en2, cl2 in c.ensures_raise:
            if eng.reg.is_subclass(eng.exc_class(en), eng.exc_class(en2)):
                s2.assume(spec_eval(eng, s2, fi, cl2.expr, c.lets, old=pre))
        if inv is not None and "self" in vals and not c.opts.get("no_class_invariant_post", False):
            for icl in inv.clauses:
                s2.assume(spec_eval(eng, s2, fi, icl.expr, {**inv.lets, **c.lets}, old=pre))
        s2.frames.pop()
        s2.exc = SExc(eng.exc_class(en), [], f"callee {c.target}")
        out.append((s2, None))
    # normal outcome
    for en, cl in c.raises:
        st.assume(z3.Not(spec_eval(eng, _with_pc(pre, st), fi, cl.expr, c.lets)))
    if rty.kind == "none" or fv.node.returns is None and not any(isinstance(n, ast.Return) and n.value is not None for n in _walk_own(fv.node)):
        result = NONEV
    else:
        result = symbolic_value(eng, st, "ret", rty)
    for cl in c.ensures:
        st.assume(spec_eval(eng, st, fi, cl.expr, c.lets, old=pre, result=result))
    if inv is not None and "self" in vals and not c.opts.get("no_class_invariant_post", False):
        for icl in inv.clauses:
            st.assume(spec_eval(eng, st, fi, icl.expr, {**inv.lets, **c.lets}, old=pre, result=result))
    for name in getattr(c, "logs_result", []):
        st.log_event(name, [result])  # ghost marker: "this call returned <result>" (call-site bookkeeping; the callee is not asked to log it)
    st.frames.pop()
    if st.feasible():
        out.append((st, result))
    return out


def eng_verifier(eng) -> Verifier:
    v = getattr(eng, "_verifier", None)
    if v is None:
        raise Unsupported("no verifier attached to engine")
    return v
