"""pyvc symbolic executor: runs the REAL function ASTs of /repo against sidecar contracts.

Forward symbolic execution, one path condition per path, forking at every undecided branch and at every
operation that may raise.  Calls to repository functions are replaced by the callee's contract (or, when
the sidecar says `inline`, by the callee's real body).  Loops are cut by sidecar invariants.
"""
from __future__ import annotations

import ast
import z3

from . import sym
from .frontend import Frontend, ModuleInfo
from .state import EMPTY_SET, Frame, SExc, State, Unsupported
from .sym import (ANY, BOOL, INT, NONE, NONEV, OPAQUE, STR, SAny, SBool, SBuiltin, SClass, SEnum, SFunc, SInt,
                  SModule, SNone, SOpaque, SRec, SRef, SStr, STuple, SV, TClass, TDict, TList, TSet, TTuple, TUnion,
                  Val, VL)

DROP_CALL_NAMES = {"mark", "trace", "label"}  # tracing no-ops (DESIGN 3.3 item 2)
DROP_OBJECTS = {"logger", "logging"}  # logging calls are not executed (item 1)
MAX_DEPTH = 12


class SConstMap(SV):
    """an immutable module-level mapping with concrete keys (e.g. api.b2c)"""

    def __init__(self, items):
        self.items = items  # list[(SV key, SV value)]

    def val(self):
        raise Unsupported("const map as value")


class SBytes(SV):
    """bytes as a segment list (see bytesalg)"""

    ty = sym.BYTES

    def __init__(self, segs):
        self.segs = segs

    def val(self):
        from .bytesalg import bytes_val
        return bytes_val(self)


class SIter(SV):
    """a Python iterator over a concrete-length python-level list of SVs or over a symbolic list"""

    def __init__(self, kind, **kw):
        self.kind = kind
        self.__dict__.update(kw)

    def val(self):
        raise Unsupported("iterator as value")


class SLock(SV):
    pass


class Outcome:
    __slots__ = ("st", "kind", "value")

    def __init__(self, st, kind, value=None):
        self.st, self.kind, self.value = st, kind, value


def _assigned_names(fn: ast.FunctionDef) -> set[str]:
    out, glob = set(), set()

    class V(ast.NodeVisitor):
        def visit_FunctionDef(self, n):
            if n is fn:
                self.generic_visit(n)
            else:
                out.add(n.name)

        visit_AsyncFunctionDef = visit_FunctionDef

        def visit_Lambda(self, n):
            pass

        def visit_ClassDef(self, n):
            out.add(n.name)

        def visit_Name(self, n):
            if isinstance(n.ctx, (ast.Store, ast.Del)):
                out.add(n.id)

        def visit_Global(self, n):
            glob.update(n.names)

        def visit_ListComp(self, n):
            # comprehension variables are scoped to the comprehension (walrus targets are not)
            for c in ast.walk(n):
                if isinstance(c, ast.NamedExpr) and isinstance(c.target, ast.Name):
                    out.add(c.target.id)

        visit_SetComp = visit_DictComp = visit_GeneratorExp = visit_ListComp

        def visit_Import(self, n):
            for a in n.names:
                out.add((a.asname or a.name).split(".")[0])

        def visit_ImportFrom(self, n):
            for a in n.names:
                out.add(a.asname or a.name)

        def visit_ExceptHandler(self, n):
            if n.name:
                out.add(n.name)
            self.generic_visit(n)

    V().visit(fn)
    return out - glob


class Engine:
    def __init__(self, fe: Frontend, contracts=None):
        self.fe = fe
        self.reg = fe.reg
        self.contracts = contracts  # ContractDB
        self.pure = False  # spec mode: no forking, no exceptions
        self.old_state: State | None = None
        self.result_val = None
        self.obligations = []  # filled by verify
        self.dropped = 0
        self.inlined: set[str] = set()
        self.externals_used: set[str] = set()
        self.loop_handler = None  # set by verify: (node, st, fi) -> list[Outcome]
        self.spec_env: dict[str, SV] = {}
        from . import models
        self.models = models
        self.lock_ci = self.reg.get("Lock") or self.reg.add(sym.ClassInfo("Lock", "external", {"locked": BOOL}))

    # ==========================================================================================
    # helpers
    def exc_class(self, name):
        ci = self.reg.get(name)
        if ci is None:
            raise Unsupported(f"unknown exception class {name}")
        return ci

    def raise_(self, st: State, name: str, where="", args=()):
        st = st
        st.exc = SExc(self.exc_class(name), args, where)
        return st

    def loc(self, node, fi_st=None):
        return f"line {getattr(node, 'lineno', '?')}"

    def branch(self, st: State, cond) -> list[tuple[State, bool]]:
        """fork on a z3 Bool; infeasible sides are pruned"""
        if z3.is_true(cond):
            return [(st, True)]
        if z3.is_false(cond):
            return [(st, False)]
        cond = z3.simplify(cond)
        if z3.is_true(cond):
            return [(st, True)]
        if z3.is_false(cond):
            return [(st, False)]
        out = []
        ft = st.feasible([cond])
        ff = st.feasible([z3.Not(cond)])
        if ft and ff:
            s2 = st.copy()
            st.assume(cond)
            s2.assume(z3.Not(cond))
            return [(st, True), (s2, False)]
        if ft:
            st.assume(cond)
            return [(st, True)]
        if ff:
            st.assume(z3.Not(cond))
            return [(st, False)]
        return []

    def bind(self, results, f):
        out = []
        for st, v in results:
            if st.exc is not None:
                out.append((st, None))
            else:
                out.extend(f(st, v))
        return out

    def ev_list(self, nodes, st, fi):
        """left-to-right evaluation; on an exception the value list is padded with None so callers can unpack"""
        results = [(st, [])]
        for n in nodes:
            nxt = []
            for s, acc in results:
                if s.exc is not None:
                    nxt.append((s, acc + [None]))
                    continue
                for s2, v in self.ev(n, s, fi):
                    nxt.append((s2, acc + [v]))
            results = nxt
        return results

    # ---- truthiness --------------------------------------------------------------------------
    def truth(self, st: State, v: SV):
        if isinstance(v, SBool):
            return v.t
        if isinstance(v, SInt):
            return v.t != 0
        if isinstance(v, SStr):
            return v.t != z3.StringVal("")  # (not Length > 0: keeps the sequence theory out of paths that only test emptiness)
        if isinstance(v, SNone):
            return z3.BoolVal(False)
        if isinstance(v, (SRec, SClass, SFunc, SBuiltin, SEnum)):
            if isinstance(v, SEnum) and "int" in [b for b in v.ci.bases]:
                return self.enum_value(v).t != 0
            return z3.BoolVal(True)
        if isinstance(v, STuple):
            return z3.BoolVal(len(v.items) > 0)
        if isinstance(v, SBytes):
            from .bytesalg import blen
            return blen(v) > 0
        if isinstance(v, SRef):
            if v.ty.kind in ("dict", "set"):
                st.assume(st.container_wf(v.t))
                return st.clen(v.t) != 0
            if v.ty.kind == "list":
                st.assume(st.list_wf(v.t))
                return st.clen(v.t) != 0
            return z3.BoolVal(True)
        if isinstance(v, SConstMap):
            return z3.BoolVal(len(v.items) > 0)
        if isinstance(v, SAny):
            t = v.t
            return z3.If(Val.is_none(t), False,
                   z3.If(Val.is_bool(t), Val.bval(t),
                   z3.If(Val.is_int(t), Val.ival(t) != 0,
                   z3.If(Val.is_str(t), Val.sval(t) != z3.StringVal(""),
                   z3.If(Val.is_tup(t), VL.is_cons(Val.targs(t)),
                   z3.If(Val.is_ref(t), self._ref_truth(st, v), True))))))
        if isinstance(v, SOpaque):
            return z3.Bool(sym.fresh_name("opq_truth"))
        raise Unsupported(f"truthiness of {v!r}")

    def _ref_truth(self, st, v: SAny):
        # a ref of unknown static type: containers are falsy when empty, objects truthy
        alts = v.ty.alts if isinstance(v.ty, TUnion) else [v.ty]
        if any(a.kind in ("dict", "set", "list") for a in alts):
            r = Val.rid(v.t)
            st.assume(z3.Implies(Val.is_ref(v.t), st.clen(r) >= 0))
            return st.clen(r) != 0
        return z3.BoolVal(True)

    def enum_value(self, v: SEnum) -> SInt:
        vals = [v.ci.member_values[m] for m in v.ci.members]
        if not all(isinstance(x, int) for x in vals):
            raise Unsupported("non-int enum values")
        t = z3.IntVal(vals[-1])
        for i in range(len(vals) - 2, -1, -1):
            t = z3.If(v.idx == i, z3.IntVal(vals[i]), t)
        return SInt(t)

    # ---- narrowing of SAny ---------------------------------------------------------------------
    def narrow(self, st: State, v: SV) -> list[tuple[State, SV]]:
        """split an SAny into statically-tagged alternatives that are feasible on this path"""
        if not isinstance(v, SAny):
            return [(st, v)]
        alts = v.ty.alts if isinstance(v.ty, TUnion) else None
        if alts is None:
            if v.ty.kind != "any":
                return [(st, sym.from_val(v.t, v.ty, self.reg))]
            # completely unknown: offer the primitive tags
            alts = [NONE, INT, BOOL, STR]
            others = z3.Not(z3.Or(Val.is_none(v.t), Val.is_int(v.t), Val.is_bool(v.t), Val.is_str(v.t)))
        else:
            others = None
        if self.pure:
            raise Unsupported("narrowing in spec mode")
        out = []
        for a in alts:
            c = sym.type_constraint(v.t, a, self.reg)
            if st.feasible([c]):
                s2 = st.copy()
                s2.assume(c)
                out.append((s2, sym.from_val(v.t, a, self.reg)))
        if others is not None and st.feasible([others]):
            s2 = st.copy()
            s2.assume(others)
            out.append((s2, SAny(v.t, ANY)))
        return out

    # ==========================================================================================
    # name resolution
    def lookup(self, name: str, st: State, fi: int, node=None):
        fr = st.frames[fi]
        if name in fr.vars:
            return fr.vars[name]
        if name in fr.unbound:
            return None  # caller raises UnboundLocalError
        if name in self.spec_env:
            return self.spec_env[name]
        return self.module_global(fr.module, name)

    def module_global(self, mi: ModuleInfo | None, name: str, depth=0):
        if depth > 10:
            raise Unsupported(f"import cycle resolving {name}")
        if mi is not None:
            if name in mi.functions:
                return SFunc(mi.functions[name], {}, name=name, module=mi, qual=f"{mi.name}:{name}")
            if name in mi.classes:
                return SClass(self.fe._load_class(mi, mi.classes[name]))
            if name in mi.assigns:
                return self.module_const(mi, name)
            if name in mi.imports:
                m2, attr = mi.imports[name]
                if attr is None:
                    return SModule(m2)
                mi2 = self.fe.module(m2)
                if mi2 is not None:
                    return self.module_global(mi2, attr, depth + 1)
                sub = self.fe.module(f"{m2}.{attr}")
                if sub is not None:
                    return SModule(f"{m2}.{attr}")
                return self.models.external_name(self, m2, attr)
        b = self.models.builtin(self, name)
        if b is not None:
            return b
        ci = self.reg.get(name)
        if ci is not None:
            return SClass(ci)
        raise Unsupported(f"unresolved name {name}")

    _const_cache: dict = {}

    def module_const(self, mi: ModuleInfo, name: str):
        key = (mi.name, name)
        if key in self._const_cache:
            return self._const_cache[key]
        expr = mi.assigns[name]
        v = self._eval_const(mi, expr)
        self._const_cache[key] = v
        return v

    def _eval_const(self, mi, expr):
        # try concrete evaluation of pure literal arithmetic first (e.g. int(15 * 60 * 1e9))
        try:
            names = {n.id for n in ast.walk(expr) if isinstance(n, ast.Name)}
            env = {"int": int, "float": float, "str": str, "len": len, "min": min, "max": max}
            ok = True
            for n in names:
                if n in env:
                    continue
                if n in mi.assigns and n not in mi.functions and n not in mi.classes:
                    sub = self._eval_const_py(mi, mi.assigns[n])
                    if sub is _NOCONST:
                        ok = False
                        break
                    env[n] = sub
                else:
                    ok = False
                    break
            if ok:
                c = self._eval_const_py(mi, expr, env)
                if c is not _NOCONST:
                    return self.lift(c)
        except Exception:
            pass
        # symbolic evaluation in a scratch state (dict literals of classes, lambdas, unions ...)
        st = State()
        st.frames.append(Frame({}, mi, f"{mi.name}:<module>"))
        saved = self.pure
        self.pure = False
        try:
            res = self.ev(expr, st, 0)
        finally:
            self.pure = saved
        if len(res) != 1 or res[0][0].exc is not None:
            raise Unsupported(f"module constant {mi.name}.{ast.unparse(expr)[:40]} not a single value")
        return res[0][1]

    def _eval_const_py(self, mi, expr, env=None):
        try:
            code = compile(ast.Expression(expr), "<const>", "eval")
            v = eval(code, {"__builtins__": {}}, env or {"int": int, "float": float, "str": str})
        except Exception:
            return _NOCONST
        if isinstance(v, (int, str, bool, type(None), bytes)):
            return v
        if isinstance(v, float) and v == int(v):
            return v
        if isinstance(v, tuple) and all(isinstance(x, (int, str, bool, type(None))) for x in v):
            return v
        return _NOCONST

    def lift(self, c) -> SV:
        if c is None:
            return NONEV
        if isinstance(c, bool):
            return SBool(c)
        if isinstance(c, int):
            return SInt(c)
        if isinstance(c, str):
            return SStr(c)
        if isinstance(c, float):
            return SOpaque(label=f"float:{c}")
        if isinstance(c, bytes):
            from .bytesalg import const_bytes
            return const_bytes(c)
        if isinstance(c, tuple):
            return STuple([self.lift(x) for x in c])
        raise Unsupported(f"cannot lift constant {c!r}")

    # ==========================================================================================
    # expressions
    def ev(self, node, st: State, fi: int) -> list[tuple[State, SV]]:
        m = getattr(self, "ev_" + type(node).__name__, None)
        if m is None:
            raise Unsupported(f"expression {type(node).__name__} at {self.loc(node)}")
        return m(node, st, fi)

    def ev_Constant(self, node, st, fi):
        if node.value is Ellipsis:
            return [(st, SOpaque(label="..."))]
        return [(st, self.lift(node.value))]

    def ev_Name(self, node, st, fi):
        v = self.lookup(node.id, st, fi, node)
        if v is None:
            if self.pure:
                raise Unsupported(f"unbound {node.id} in spec")
            return [(self.raise_(st, "UnboundLocalError", f"{node.id} at {self.loc(node)}"), None)]
        return [(st, v)]

    def ev_Tuple(self, node, st, fi):
        if any(isinstance(e, ast.Starred) for e in node.elts):
            raise Unsupported("starred in tuple")
        return [(s, STuple(vs)) if s.exc is None else (s, None) for s, vs in self.ev_list(node.elts, st, fi)]

    def ev_List(self, node, st, fi):
        out = []
        for s, vs in self.ev_list(node.elts, st, fi):
            if s.exc is not None:
                out.append((s, None))
                continue
            out.append((s, self.models.new_list(self, s, vs)))
        return out

    def ev_Set(self, node, st, fi):
        out = []
        for s, vs in self.ev_list(node.elts, st, fi):
            if s.exc is not None:
                out.append((s, None))
                continue
            out.append((s, self.models.new_set(self, s, vs)))
        return out

    def ev_Dict(self, node, st, fi):
        if any(k is None for k in node.keys):
            return self.models.dict_unpack_literal(self, node, st, fi)
        out = []
        for s, ks in self.ev_list(node.keys, st, fi):
            if s.exc is not None:
                out.append((s, None))
                continue
            for s2, vs in self.ev_list(node.values, s, fi):
                if s2.exc is not None:
                    out.append((s2, None))
                    continue
                # module-level constant dictionaries with concrete keys stay python-level
                if fi == 0 and st.frames[fi].qual.endswith("<module>"):
                    out.append((s2, SConstMap(list(zip(ks, vs)))))
                else:
                    out.append((s2, self.models.new_dict(self, s2, list(zip(ks, vs)))))
        return out

    def ev_JoinedStr(self, node, st, fi):
        parts = []
        results = [(st, [])]
        for p in node.values:
            nxt = []
            for s, acc in results:
                if s.exc is not None:
                    nxt.append((s, acc))
                    continue
                if isinstance(p, ast.Constant):
                    nxt.append((s, acc + [SStr(p.value)]))
                else:
                    for s2, v in self.ev(p.value, s, fi):
                        if s2.exc is not None:
                            nxt.append((s2, acc))
                        else:
                            nxt.append((s2, acc + [self.models.to_str(self, s2, v, repr_=(p.conversion == 114))]))
            results = nxt
        out = []
        for s, acc in results:
            if s.exc is not None:
                out.append((s, None))
            elif not acc:
                out.append((s, SStr("")))
            else:
                t = acc[0].t
                for a in acc[1:]:
                    t = z3.Concat(t, a.t)
                out.append((s, SStr(t)))
        return out

    def ev_Lambda(self, node, st, fi):
        fr = st.frames[fi]
        return [(st, SFunc(node, dict(fr.vars), name="<lambda>", module=fr.module, qual=fr.qual + ".<lambda>"))]

    def ev_IfExp(self, node, st, fi):
        if self.pure:
            (s, c), = self.ev(node.test, st, fi)
            (s, a), = self.ev(node.body, s, fi)
            (s, b), = self.ev(node.orelse, s, fi)
            return [(s, self.ite(s, self.truth(s, c), a, b))]
        out = []
        for s, c in self.ev(node.test, st, fi):
            if s.exc is not None:
                out.append((s, None))
                continue
            for s2, side in self.branch(s, self.truth(s, c)):
                out.extend(self.ev(node.body if side else node.orelse, s2, fi))
        return out

    def ite(self, st, c, a: SV, b: SV) -> SV:
        if isinstance(a, SInt) and isinstance(b, SInt):
            return SInt(z3.If(c, a.t, b.t))
        if isinstance(a, SBool) and isinstance(b, SBool):
            return SBool(z3.If(c, a.t, b.t))
        if isinstance(a, SStr) and isinstance(b, SStr):
            return SStr(z3.If(c, a.t, b.t))
        return SAny(z3.If(c, a.val(), b.val()), ANY)

    def ev_NamedExpr(self, node, st, fi):
        out = []
        for s, v in self.ev(node.value, st, fi):
            if s.exc is None:
                self.assign_name(s, fi, node.target.id, v)
            out.append((s, v))
        return out

    def assign_name(self, st, fi, name, v):
        fr = st.frames[fi]
        fr.vars[name] = v
        fr.unbound.discard(name)

    def ev_BoolOp(self, node, st, fi):
        is_and = isinstance(node.op, ast.And)
        if self.pure:
            terms = []
            s = st
            added = []
            try:
                for v in node.values:
                    (s, x), = self.ev(v, s, fi)
                    t = self.truth(s, x)
                    terms.append(t)
                    # short-circuit reading: a later operand of `and` (`or`) is read under the earlier ones being true (false);
                    # only used to simplify its terms (e.g. guarded list indices) - the assumption does not stay on the path
                    g = t if is_and else z3.Not(t)
                    s.pc.append(g)
                    added.append(g)
            finally:
                for g in added:
                    for ix in range(len(s.pc) - 1, -1, -1):
                        if s.pc[ix] is g:
                            del s.pc[ix]
                            break
            return [(s, SBool(z3.And(*terms) if is_and else z3.Or(*terms)))]
        # Python semantics: returns the deciding operand; we fork on truthiness
        results = self.ev(node.values[0], st, fi)
        for nxt in node.values[1:]:
            new = []
            for s, v in results:
                if s.exc is not None:
                    new.append((s, None))
                    continue
                for s2, side in self.branch(s, self.truth(s, v)):
                    if side == is_and:
                        new.extend(self.ev(nxt, s2, fi))
                    else:
                        new.append((s2, v))
            results = new
        return results

    def ev_UnaryOp(self, node, st, fi):
        def f(s, v):
            if isinstance(node.op, ast.Not):
                return [(s, SBool(z3.Not(self.truth(s, v))))]
            if isinstance(node.op, ast.USub):
                if isinstance(v, SInt):
                    return [(s, SInt(-v.t))]
                return self.bind(self.as_int(s, v), lambda s2, i: [(s2, SInt(-i.t))])
            raise Unsupported(f"unary {type(node.op).__name__}")
        return self.bind(self.ev(node.operand, st, fi), f)

    def as_int(self, st, v) -> list[tuple[State, SInt]]:
        if isinstance(v, SInt):
            return [(st, v)]
        if isinstance(v, SBool):
            return [(st, SInt(z3.If(v.t, 1, 0)))]
        if isinstance(v, SEnum) and "int" in v.ci.bases:
            return [(st, self.enum_value(v))]
        if isinstance(v, SAny):
            if self.pure:
                return [(st, SInt(Val.ival(v.t)))]
            out = []
            for s, side in self.branch(st, Val.is_int(v.t)):
                if side:
                    out.append((s, SInt(Val.ival(v.t))))
                else:
                    out.append((self.raise_(s, "TypeError", "int expected"), None))
            return out
        if self.pure:
            raise Unsupported(f"int expected in spec, got {v!r}")
        return [(self.raise_(st, "TypeError", f"int expected, got {type(v).__name__}"), None)]

    def ev_BinOp(self, node, st, fi):
        out = []
        for s, (a, b) in self.ev_list([node.left, node.right], st, fi):
            if s.exc is not None:
                out.append((s, None))
                continue
            out.extend(self.binop(s, node.op, a, b, node))
        return out

    def binop(self, st, op, a, b, node=None):
        from . import bytesalg
        if isinstance(a, SBytes) or isinstance(b, SBytes):
            if isinstance(op, ast.Add) and isinstance(a, SBytes) and isinstance(b, SBytes):
                return [(st, bytesalg.concat(a, b))]
            raise Unsupported("bytes operator")
        if isinstance(a, SStr) and isinstance(b, SStr) and isinstance(op, ast.Add):
            return [(st, SStr(z3.Concat(a.t, b.t)))]
        if isinstance(op, ast.BitOr) and isinstance(a, (SClass, SUnionType)) and isinstance(b, (SClass, SUnionType, SNone)):
            return [(st, SUnionType(_ualts(a) + _ualts(b)))]
        if isinstance(a, SRef) and isinstance(b, SRef) and a.ty.kind == "list" and isinstance(op, ast.Add):
            return [(st, self.models.list_concat(self, st, a, b))]
        if isinstance(op, ast.Mult) and ((isinstance(a, SRef) and a.ty.kind == "list" and isinstance(b, SInt)) or (isinstance(b, SRef) and b.ty.kind == "list" and isinstance(a, SInt))):
            lst, k = (a, b) if isinstance(a, SRef) else (b, a)
            return [(st, self.models.list_repeat(self, st, lst, k))]
        if isinstance(a, SRef) and isinstance(b, SRef) and a.ty.kind == "set" and isinstance(op, (ast.Sub, ast.BitOr, ast.BitAnd)):
            return [(st, self.models.set_binop(self, st, op, a, b))]
        if isinstance(a, STuple) and isinstance(b, STuple) and isinstance(op, ast.Add):
            return [(st, STuple(a.items + b.items))]
        if isinstance(a, SOpaque) or isinstance(b, SOpaque):
            # float arithmetic and other opaque values: result is an unconstrained opaque value
            return [(st, SOpaque(label="arith"))]
        out = []
        for s, x in self.as_int(st, a):
            if s.exc is not None:
                out.append((s, None))
                continue
            for s2, y in self.as_int(s, b):
                if s2.exc is not None:
                    out.append((s2, None))
                    continue
                out.extend(self.int_binop(s2, op, x, y))
        return out

    def int_binop(self, st, op, x: SInt, y: SInt):
        if isinstance(op, ast.Add):
            return [(st, SInt(x.t + y.t))]
        if isinstance(op, ast.Sub):
            return [(st, SInt(x.t - y.t))]
        if isinstance(op, ast.Mult):
            if z3.is_int_value(x.t) or z3.is_int_value(y.t):
                return [(st, SInt(x.t * y.t))]
            return [(st, SInt(x.t * y.t))]  # nonlinear: solver may answer unknown (-> undecided)
        if isinstance(op, ast.Pow):
            if z3.is_int_value(x.t) and z3.is_int_value(y.t) and y.t.as_long() >= 0:
                return [(st, SInt(x.t.as_long() ** y.t.as_long()))]
            raise Unsupported("symbolic power")
        if isinstance(op, (ast.FloorDiv, ast.Mod)):
            if self.pure:
                return [(st, SInt(_floordiv(x.t, y.t) if isinstance(op, ast.FloorDiv) else _pymod(x.t, y.t)))]
            out = []
            for s, side in self.branch(st, y.t == 0):
                if side:
                    out.append((self.raise_(s, "ZeroDivisionError"), None))
                else:
                    out.append((s, SInt(_floordiv(x.t, y.t) if isinstance(op, ast.FloorDiv) else _pymod(x.t, y.t))))
            return out
        if isinstance(op, ast.Div):
            return [(st, SOpaque(label="float-div"))]
        raise Unsupported(f"int operator {type(op).__name__}")

    def ev_Compare(self, node, st, fi):
        operands = [node.left] + list(node.comparators)
        if len(node.ops) == 1:
            out = []
            for s, (a, b) in self.ev_list(operands, st, fi):
                if s.exc is not None:
                    out.append((s, None))
                    continue
                out.extend(self.compare(s, node.ops[0], a, b))
            return out
        # chained: a < b < c  ==  (a < b) and (b < c), operands evaluated once (no side effects supported)
        out = []
        for s, vs in self.ev_list(operands, st, fi):
            if s.exc is not None:
                out.append((s, None))
                continue
            res = [(s, z3.BoolVal(True))]
            for i, op in enumerate(node.ops):
                nxt = []
                for s2, acc in res:
                    for s3, c in self.compare(s2, op, vs[i], vs[i + 1]):
                        if s3.exc is not None:
                            out.append((s3, None))
                        else:
                            nxt.append((s3, z3.And(acc, c.t)))
                res = nxt
            out.extend((s2, SBool(acc)) for s2, acc in res)
        return out

    def compare(self, st, op, a, b) -> list[tuple[State, SBool]]:
        if isinstance(op, (ast.Eq, ast.NotEq)):
            t = self.equal(st, a, b)
            return [(st, SBool(t if isinstance(op, ast.Eq) else z3.Not(t)))]
        if isinstance(op, (ast.Is, ast.IsNot)):
            t = self.identical(st, a, b)
            return [(st, SBool(t if isinstance(op, ast.Is) else z3.Not(t)))]
        if isinstance(op, (ast.In, ast.NotIn)):
            res = self.models.contains(self, st, b, a)
            return [(s, SBool(t if isinstance(op, ast.In) else z3.Not(t))) if s.exc is None else (s, None) for s, t in res]
        # ordering
        if isinstance(a, SStr) and isinstance(b, SStr):
            le = self.models.str_le
            lt = {ast.Lt: lambda: z3.And(le(st, a.t, b.t), a.t != b.t), ast.LtE: lambda: le(st, a.t, b.t),
                  ast.Gt: lambda: z3.And(le(st, b.t, a.t), a.t != b.t), ast.GtE: lambda: le(st, b.t, a.t)}
            return [(st, SBool(lt[type(op)]()))]
        if isinstance(a, SOpaque) or isinstance(b, SOpaque):
            return [(st, SBool(z3.Bool(sym.fresh_name("opqcmp"))))]
        out = []
        for s, x in self.as_int(st, a):
            if s.exc is not None:
                out.append((s, None))
                continue
            for s2, y in self.as_int(s, b):
                if s2.exc is not None:
                    out.append((s2, None))
                    continue
                f = {ast.Lt: x.t < y.t, ast.LtE: x.t <= y.t, ast.Gt: x.t > y.t, ast.GtE: x.t >= y.t}[type(op)]
                out.append((s2, SBool(f)))
        return out

    def equal(self, st, a, b):
        """Python == on the supported value kinds"""
        from . import bytesalg
        if isinstance(a, SBytes) or isinstance(b, SBytes):
            if isinstance(a, SBytes) and isinstance(b, SBytes):
                return bytesalg.equal(st, a, b)
            return z3.BoolVal(False)
        if isinstance(a, SInt) and isinstance(b, SInt):
            return a.t == b.t
        if isinstance(a, SStr) and isinstance(b, SStr):
            return a.t == b.t
        if isinstance(a, SBool) and isinstance(b, SBool):
            return a.t == b.t
        if isinstance(a, SEnum) and isinstance(b, SInt) and "int" in a.ci.bases:
            return self.enum_value(a).t == b.t
        if isinstance(b, SEnum) and isinstance(a, SInt) and "int" in b.ci.bases:
            return self.enum_value(b).t == a.t
        if isinstance(a, SConstMap) or isinstance(b, SConstMap):
            raise Unsupported("const map equality")
        if isinstance(a, SRef) and isinstance(b, SRef) and a.ty.kind in ("dict", "set", "list") and b.ty.kind == a.ty.kind:
            return self.models.container_equal(self, st, a, b)
        if isinstance(a, (SFunc, SBuiltin)) or isinstance(b, (SFunc, SBuiltin)):
            return z3.BoolVal(a is b)
        return a.val() == b.val()

    def identical(self, st, a, b):
        if isinstance(a, SNone) or isinstance(b, SNone):
            other = b if isinstance(a, SNone) else a
            if isinstance(other, SNone):
                return z3.BoolVal(True)
            if isinstance(other, SAny):
                return Val.is_none(other.t)
            return z3.BoolVal(False)
        if isinstance(a, SRef) and isinstance(b, SRef):
            return a.t == b.t
        if isinstance(a, SClass) and isinstance(b, SClass):
            return z3.BoolVal(a.ci is b.ci)
        if isinstance(a, SBool) and isinstance(b, SBool):
            return a.t == b.t
        if isinstance(a, (SFunc, SBuiltin)) or isinstance(b, (SFunc, SBuiltin)):
            return z3.BoolVal(a is b)
        if isinstance(a, (SAny, SRef)) and isinstance(b, (SAny, SRef)):
            return a.val() == b.val()  # value identity for immutables is an approximation of `is`
        if isinstance(a, SEnum) and isinstance(b, SEnum):
            return a.val() == b.val()
        raise Unsupported(f"`is` between {type(a).__name__} and {type(b).__name__}")

    # ---- attribute access --------------------------------------------------------------------
    def ev_Attribute(self, node, st, fi):
        if isinstance(node.value, ast.Name) and node.value.id in DROP_OBJECTS:
            return [(st, SBuiltin("dropped", lambda eng, s, a, k: [(s, NONEV)]))]
        return self.bind(self.ev(node.value, st, fi), lambda s, v: self.getattr(s, v, node.attr, node))

    def field_type(self, ci, name):
        return ci.fields.get(name, None)

    def getattr(self, st, v, attr, node=None) -> list[tuple[State, SV]]:
        if isinstance(v, SAny):
            out = []
            for s, w in self.narrow(st, v):
                if isinstance(w, SAny):
                    # not a primitive: the path may already pin its class (an isinstance test above): try the loaded record classes that
                    # have this attribute; if some other shape remains possible the read is outside the modelled subset
                    rest = []
                    for ci in list(self.reg.classes.values()):
                        if ci.kind != "record" or not (attr in ci.fields or attr in ci.methods or attr in ci.class_attrs):
                            continue
                        c = sym.type_constraint(w.t, TClass(ci.name), self.reg)
                        rest.append(z3.Not(z3.And(Val.is_rec(w.t), Val.rcls(w.t) == ci.id)))
                        if s.feasible([c]):
                            s2 = s.copy()
                            s2.assume(c)
                            out.extend(self.getattr(s2, sym.from_val(w.t, TClass(ci.name), self.reg), attr, node))
                    if not rest or s.feasible(rest):
                        raise Unsupported(f"attribute {attr} of untyped value at {self.loc(node)}")
                    continue
                out.extend(self.getattr(s, w, attr, node))
            return out
        if isinstance(v, SRef) and v.ty.kind == "class":
            ci = self.reg.get(v.ty.name)
            if ci is None:
                raise Unsupported(f"unknown class {v.ty.name}")
            if attr in ci.methods:
                return [(st, self.bound_method(ci, attr, v))]
            fty = ci.fields.get(attr)
            if fty is None and attr in ci.class_attrs:
                return self.ev_class_attr(ci, attr, st)
            if fty is None:
                dyn = getattr(ci, "dyn_fields", {})
                fty = dyn.get(attr)
            if fty is None:
                if ci.kind == "external":
                    return [(st, SExtMethod(v, attr))]
                self.fe  # unknown attribute: typed as Any
                fty = ANY
            t = st.read_field(v.t, attr)
            w = sym.from_val(t, fty, self.reg)
            if fty.kind in ("int", "str", "bool") or isinstance(w, (SEnum, SRec)):
                st.assume(sym.type_constraint(t, fty, self.reg, shallow=True))  # stored data is well-typed (tags only)
            if isinstance(w, SRef):
                st.assume(z3.And(w.t >= 0, w.t < st.heap.next_ref))
                w.origin = attr  # provenance, used by the ownership ghost of `owning` dict fields
                self.typed_container(st, w)
                self.models.assume_kind(st, w)
            return [(st, w)]
        if isinstance(v, SRec):
            if attr in v.fields:
                w = v.fields[attr]
                if isinstance(w, SRef):
                    self.typed_container(st, w)
                    self.models.assume_kind(st, w)
                return [(st, w)]
            if attr in v.ci.methods:
                return [(st, self.bound_method(v.ci, attr, v))]
            if attr in v.ci.class_attrs:
                return self.ev_class_attr(v.ci, attr, st)
            if attr == "__class__":
                return [(st, SClass(v.ci))]
            m = self.models.value_method(self, st, v, attr)
            if m is not None:
                return [(st, m)]
            if self.pure:
                raise Unsupported(f"{v.ci.name}.{attr}")
            return [(self.raise_(st, "AttributeError", attr), None)]
        if isinstance(v, SEnum):
            if attr == "value":
                return [(st, self.enum_value(v))]
            if attr == "name":
                t = z3.StringVal(v.ci.members[-1])
                for i in range(len(v.ci.members) - 2, -1, -1):
                    t = z3.If(v.idx == i, z3.StringVal(v.ci.members[i]), t)
                return [(st, SStr(t))]
        if isinstance(v, SClass):
            ci = v.ci
            if ci.kind == "enum" and attr in ci.members:
                return [(st, SEnum(ci, ci.members.index(attr)))]
            if attr in ci.methods:
                fn, mk, modname = ci.methods[attr]
                mi = self.fe.module(modname)
                if mk == "classmethod":
                    return [(st, SFunc(fn, {}, name=attr, self_val=v, module=mi, owner=ci, qual=f"{modname}:{self._owner_of(ci, attr)}.{attr}"))]
                return [(st, SFunc(fn, {}, name=attr, module=mi, owner=ci, qual=f"{modname}:{self._owner_of(ci, attr)}.{attr}"))]
            if attr in ci.class_attrs:
                return self.ev_class_attr(ci, attr, st)
            if attr == "__name__":
                return [(st, SStr(ci.name))]
            return self.models.class_attr(self, st, v, attr)
        if isinstance(v, SModule):
            mi = self.fe.module(v.name)
            if mi is not None:
                try:
                    return [(st, self.module_global(mi, attr))]
                except Unsupported:
                    sub = self.fe.module(f"{v.name}.{attr}")
                    if sub is not None:
                        return [(st, SModule(f"{v.name}.{attr}"))]
                    raise
            return [(st, self.models.external_name(self, v.name, attr))]
        if isinstance(v, SExcVal):
            if attr == "args":
                return [(st, STuple(v.exc.args))]
        m = self.models.value_method(self, st, v, attr)
        if m is not None:
            return [(st, m)]
        if isinstance(v, SOpaque):
            # attribute / method of a value from outside the repository (socket, poller ...): calls are logged as events
            label = f"{v.label or 'opaque'}.{attr}"

            def ext(eng, s, args, kw, label=label, attr=attr):
                eng.externals_used.add(label)
                s.log_event(attr, [a for a in args[1:] if not isinstance(a, (SFunc, SBuiltin))])
                return eng.external_outcomes(s, attr, label)
            b = SBuiltin(label, ext, self_val=v)
            # used as a VALUE (not called), the attribute is an opaque value that is a function of the object: x.buf twice is the same thing
            b.as_value = SOpaque(OPQ_ATTR(v.t, z3.StringVal(attr)), label=label)
            return [(st, b)]
        if isinstance(v, SNone) and not self.pure:
            return [(self.raise_(st, "AttributeError", f"'NoneType' object has no attribute '{attr}'"), None)]
        raise Unsupported(f"attribute {attr} on {type(v).__name__} at {self.loc(node)}")

    def typed_container(self, st, w, deep=False):
        """well-typedness of stored data, stated so that it is usable under quantifiers: the keys (elements) of a container read
        from a field annotated dict[K, V] / set[K] / list[V] carry the tag of K (V).  Only tags are constrained (shallow)."""
        ty = w.ty
        if ty.kind not in ("dict", "set", "list"):
            return
        key = "typed:" + z3.simplify(w.t).sexpr() + ":" + ty.kind
        if st.ghost.get(key):
            return
        st.ghost[key] = True
        simple = ("int", "str", "bool", "class", "none")
        if deep:
            simple = simple + ("tuple", "union")
        sh = not deep  # deep: parameters of the verified function - element records are constrained with their field shapes
        if ty.kind in ("dict", "set"):
            kty = ty.k if ty.kind == "dict" else ty.v
            k = sym.fresh_val("tk")
            dom = st.dom(w.t)
            if kty.kind in simple:
                st.assume(sym.forall_pat([k], z3.Implies(z3.Select(dom, k), sym.type_constraint(k, kty, self.reg, shallow=sh)), z3.Select(dom, k)))
            if ty.kind == "dict" and ty.v.kind in simple + ("dict", "set", "list"):
                m = st.cmap(w.t)
                st.assume(sym.forall_pat([k], z3.Implies(z3.Select(dom, k), sym.type_constraint(z3.Select(m, k), ty.v, self.reg, shallow=sh)), z3.Select(m, k)))
        else:
            i = sym.fresh_int("ti")
            sq = st.cseq(w.t)
            if ty.v.kind in simple:
                st.assume(sym.forall_pat([i], z3.Implies(z3.And(i >= 0, i < st.clen(w.t)), sym.type_constraint(z3.Select(sq, i), ty.v, self.reg, shallow=sh)), z3.Select(sq, i)))
        if deep:
            # references nested inside stored records / tuples denote objects allocated before the call (closure, as for direct values)
            lim = st.heap.next_ref
            if ty.kind in ("dict", "set"):
                k = sym.fresh_val("tk")
                dom = st.dom(w.t)
                terms = self._nested_refs(k, ty.k if ty.kind == "dict" else ty.v, 0)
                if ty.kind == "dict":
                    terms += self._nested_refs(z3.Select(st.cmap(w.t), k), ty.v, 0)
                if terms:
                    st.assume(z3.ForAll([k], z3.Implies(z3.Select(dom, k), z3.And(*[z3.And(Val.rid(t) >= 0, Val.rid(t) < lim) for t in terms]))))
            else:
                i = sym.fresh_int("ti")
                terms = self._nested_refs(z3.Select(st.cseq(w.t), i), ty.v, 0)
                if terms:
                    st.assume(z3.ForAll([i], z3.Implies(z3.And(i >= 0, i < st.clen(w.t)), z3.And(*[z3.And(Val.rid(t) >= 0, Val.rid(t) < lim) for t in terms]))))

    def _nested_refs(self, t, ty, depth):
        """terms of the reference-valued components found inside a record / tuple value t of static type ty (not t itself)"""
        out = []
        if depth > 3:
            return out
        if ty.kind == "tuple":
            cur = Val.targs(t)
            for it in ty.items:
                x = sym.VL.hd(cur)
                if it.kind in ("dict", "list", "set") or (it.kind == "class" and getattr(self.reg.get(it.name), "kind", "") in ("object", "external")):
                    out.append(x)
                else:
                    out += self._nested_refs(x, it, depth + 1)
                cur = sym.VL.tl(cur)
        elif ty.kind == "class":
            ci = self.reg.get(ty.name)
            if ci is not None and ci.kind == "record":
                cur = Val.rargs(t)
                for f, fty in ci.fields.items():
                    x = sym.VL.hd(cur)
                    if fty.kind in ("dict", "list", "set") or (fty.kind == "class" and getattr(self.reg.get(fty.name), "kind", "") in ("object", "external")):
                        out.append(x)
                    else:
                        out += self._nested_refs(x, fty, depth + 1)
                    cur = sym.VL.tl(cur)
        return out

    def _owner_of(self, ci, attr):
        """name of the class that actually defines method attr (for contract keys)"""
        fn = ci.methods[attr][0]
        if ci.node is not None and any(n is fn for n in ci.node.body):
            return ci.name
        for b in ci.bases:
            bi = self.reg.get(b)
            if bi is not None and attr in bi.methods and bi.methods[attr][0] is fn:
                return self._owner_of(bi, attr)
        return ci.name

    def bound_method(self, ci, attr, self_val):
        fn, mk, modname = ci.methods[attr]
        mi = self.fe.module(modname)
        owner = self._owner_of(ci, attr)
        if mk == "staticmethod":
            return SFunc(fn, {}, name=attr, module=mi, owner=ci, qual=f"{modname}:{owner}.{attr}")
        if mk == "classmethod":
            return SFunc(fn, {}, name=attr, self_val=SClass(ci), module=mi, owner=ci, qual=f"{modname}:{owner}.{attr}")
        f = SFunc(fn, {}, name=attr, self_val=self_val, module=mi, owner=ci, qual=f"{modname}:{owner}.{attr}")
        f.is_property = mk == "property"
        return f

    def ev_class_attr(self, ci, attr, st):
        mi = self.fe.module(ci.module) if ci.module else None
        return [(st, self._eval_const(mi, ci.class_attrs[attr]))]

    # ---- subscripts ------------------------------------------------------------------------------
    def ev_Subscript(self, node, st, fi):
        if isinstance(node.slice, ast.Slice):
            sl = node.slice
            parts = [sl.lower, sl.upper, sl.step]
            out = []
            for s, v in self.ev(node.value, st, fi):
                if s.exc is not None:
                    out.append((s, None))
                    continue
                res = [(s, [])]
                for p in parts:
                    nxt = []
                    for s2, acc in res:
                        if p is None:
                            nxt.append((s2, acc + [None]))
                        else:
                            for s3, pv in self.ev(p, s2, fi):
                                nxt.append((s3, acc + [pv]))
                    res = nxt
                for s2, (lo, hi, stp) in res:
                    if s2.exc is not None:
                        out.append((s2, None))
                        continue
                    out.extend(self.models.slice_(self, s2, v, lo, hi, stp))
            return out
        out = []
        for s, (v, k) in self.ev_list([node.value, node.slice], st, fi):
            if s.exc is not None:
                out.append((s, None))
                continue
            out.extend(self.models.getitem(self, s, v, k))
        return out

    # ---- calls -------------------------------------------------------------------------------------
    def ev_Call(self, node, st, fi):
        f = node.func
        # drop list: logging / tracing (their arguments are not evaluated)
        if isinstance(f, ast.Attribute) and isinstance(f.value, ast.Name) and f.value.id in DROP_OBJECTS:
            self.dropped += 1
            return [(st, NONEV)]
        if isinstance(f, ast.Name) and f.id in DROP_CALL_NAMES:
            self.dropped += 1
            return [(st, NONEV)]
        if isinstance(f, ast.Name) and f.id == "cast" and len(node.args) == 2:
            return self.ev(node.args[1], st, fi)
        if isinstance(f, ast.Call) and isinstance(f.func, ast.Name) and f.func.id == "timer" and len(f.args) >= 1:
            # timer(g, kind)(args...)  ->  g(args...)
            node = ast.Call(func=f.args[0], args=node.args, keywords=node.keywords)
            ast.copy_location(node, f)
            f = node.func
        if isinstance(f, ast.Name) and f.id in ("any", "all") and len(node.args) == 1 and not node.keywords \
                and isinstance(node.args[0], ast.GeneratorExp) and f.id not in st.frames[fi].vars and not self.pure:
            return self.models.any_all_genexp(self, node, st, fi)
        # spec-only constructs
        if isinstance(f, ast.Name) and f.id in self.models.SPEC_FUNCS and (self.pure or f.id in ("old",)):
            return self.models.SPEC_FUNCS[f.id](self, node, st, fi)
        out = []
        for s, fv in self.ev(f, st, fi):
            if s.exc is not None:
                out.append((s, None))
                continue
            # arguments
            pos_nodes, star = [], None
            for a in node.args:
                if isinstance(a, ast.Starred):
                    star = a
                else:
                    pos_nodes.append(a)
            for s2, args in self.ev_list(pos_nodes, s, fi):
                if s2.exc is not None:
                    out.append((s2, None))
                    continue
                kw_nodes = [k for k in node.keywords if k.arg is not None]
                dstar = [k for k in node.keywords if k.arg is None]
                for s3, kwv in self.ev_list([k.value for k in kw_nodes], s2, fi):
                    if s3.exc is not None:
                        out.append((s3, None))
                        continue
                    kwargs = {k.arg: v for k, v in zip(kw_nodes, kwv)}
                    if star is not None or dstar:
                        res = self.models.expand_star(self, s3, fi, star, dstar, args, kwargs)
                    else:
                        res = [(s3, args, kwargs)]
                    for s4, a4, k4 in res:
                        if s4.exc is not None:
                            out.append((s4, None))
                            continue
                        out.extend(self.call(s4, fv, a4, k4, node))
        return out

    def call(self, st, fv, args, kwargs, node=None) -> list[tuple[State, SV]]:
        if isinstance(fv, SBuiltin):
            if fv.self_val is not None:
                return fv.fn(self, st, [fv.self_val] + list(args), kwargs)
            return fv.fn(self, st, list(args), kwargs)
        if isinstance(fv, SFunc):
            return self.call_function(st, fv, args, kwargs, node)
        if isinstance(fv, self.models.STypeName):
            if fv.name in self.models.BUILTINS:
                return self.models.BUILTINS[fv.name](self, st, list(args), kwargs)
            raise Unsupported(f"call of type {fv.name}")
        if isinstance(fv, SClass):
            return self.models.construct(self, st, fv.ci, args, kwargs, node)
        if isinstance(fv, SExtMethod):
            return self.models.external_call(self, st, fv, args, kwargs)
        if isinstance(fv, SUnionType):
            raise Unsupported("calling a union type")
        if isinstance(args, self.models._StarList) or isinstance(kwargs, self.models._StarDict):
            if not isinstance(fv, (SOpaque, SAny)):
                raise Unsupported("*args / **kwargs of symbolic size into a repository function")
            # f(*args, **kwargs) on an unknown callable: ONE event "call"(callee, positional snapshot, keyword snapshot); result unconstrained
            self.externals_used.add("call:*args/**kwargs of an unknown callable")
            pos = args.ref if isinstance(args, self.models._StarList) else self.models.new_list(self, st, list(args), sym.TList(ANY))
            if isinstance(kwargs, self.models._StarDict):
                kwr = kwargs.ref
            else:
                kwr = st.new_container(sym.TDict(sym.STR, ANY))
                for k_, v_ in kwargs.items():
                    self.models.dict_set(self, st, kwr, SStr(k_), v_)
            st.log_event("call", [fv, pos, kwr])
            return self.external_outcomes(st, "call", "call")
        if isinstance(fv, SOpaque):
            # calling an unknown callable: recorded as an event, result unconstrained
            self.externals_used.add(f"call:{fv.label or 'opaque'}")
            short = (fv.label or "opaque").split(".")[-1]
            st.log_event(short, [a for a in args if not isinstance(a, (SFunc, SBuiltin))])
            return self.external_outcomes(st, short, fv.label)
        raise Unsupported(f"call of {fv!r} at {self.loc(node)}")

    def external_outcomes(self, st, attr, label=""):
        """normal result plus one raising outcome per exception class the sidecar declares for this external name"""
        out = []
        for en in (self.contracts.external_raises.get(attr, []) if self.contracts is not None else []):
            s2 = st.copy()
            s2.assume(z3.Bool(sym.fresh_name(f"ext_{attr}_raises_{en}")))
            out.append((self.raise_(s2, en, f"external {attr}"), None))
        out.append((st, self.external_result(st, attr, label)))
        return out

    def external_result(self, st, attr, label=""):
        """result of a call that leaves the repository: typed by the sidecar's external_returns table (else opaque) and
        remembered so that contracts can name it through `observes`"""
        from .verify import symbolic_value
        if "obs:" + attr in st.ghost and not st.ghost.get("obs_used:" + attr) and not self.pure:
            # a precondition already named the result of this (first) call: the call returns that very value
            st.ghost["obs_used:" + attr] = True
            return st.ghost["obs:" + attr]
        if not self.pure:
            st.ghost["obs_used:" + attr] = True
        texpr = self.contracts.external_returns.get(attr.split("#")[0]) if self.contracts is not None else None
        if texpr is not None:
            tmod = self.fe.module(self.contracts.ext_module) if self.contracts.ext_module else st.frames[0].module
            ty = self.fe.parse_type(texpr, tmod)
            if ty.kind in ("list", "dict", "set"):
                # a container handed out by the outside world is a fresh object (it aliases nothing the repository holds);
                # its contents are whatever the heap arrays say at the new index, i.e. unconstrained
                r = st.alloc()
                v = SRef(r, ty)
                st.assume(st.clen(r) >= 0)
                if ty.kind != "list":
                    st.assume(st.container_wf(r))
            else:
                v = symbolic_value(self, st, f"ext_{attr}", ty)
        else:
            v = SOpaque(label=(label or attr) + "()")
        st.ghost.setdefault("obs:" + attr, v)
        return v

    _pure_fns: dict = {}

    def pure_call(self, st, qual, args):
        texpr = self.contracts.pure_functions[qual]
        key = (qual, len(args))
        if key not in self._pure_fns:
            self._pure_fns[key] = z3.Function("pure_" + qual.replace(":", "_").replace(".", "_"), *([Val] * len(args)), Val)
        t = self._pure_fns[key](*[a.val() for a in args])
        tmod = self.contracts.pure_modules.get(qual, qual.split(":")[0])
        ty = self.fe.parse_type(texpr, self.fe.module(tmod)) if texpr is not None else ANY
        st.assume(sym.type_constraint(t, ty, self.reg, shallow=True))
        return SAny(t, ty) if ty.kind in ("union", "any") else sym.from_val(t, ty, self.reg)

    def call_function(self, st, fv: SFunc, args, kwargs, node=None):
        if self.contracts is not None and fv.qual in self.contracts.pure_functions:
            # a pure METHOD is a function of its receiver too
            recv = [fv.self_val] if fv.self_val is not None and not isinstance(fv.self_val, SClass) else []
            return [(st, self.pure_call(st, fv.qual, recv + list(args)))]
        # contract / inline decision
        if getattr(fv, "is_property", False):
            pass
        qual = fv.qual
        if self.contracts is not None and qual is not None and not isinstance(fv.node, ast.Lambda):
            c = self.contracts.get(qual)
            if c is not None and not self.contracts.is_inline(qual) and qual != getattr(self, "verifying", None):
                from . import verify
                return verify.apply_contract(self, st, fv, c, args, kwargs, node)
            if c is None and not self.contracts.is_inline(qual) and not fv.env and ".<locals>." not in qual and not self.pure \
                    and not getattr(self, "inline_all", False):
                if qual == getattr(self, "verifying", None):
                    raise Unsupported(f"recursion in {qual}")
                ext = self.contracts.external_for(qual)
                if ext is not None:
                    return ext(self, st, fv, args, kwargs)
                raise Unsupported(f"callee {qual} has neither a contract nor an `inline` mark ({self.loc(node)})")
        if qual is not None and ".<locals>." not in qual and not isinstance(fv.node, ast.Lambda):
            self.inlined.add(qual)
        return self.inline_call(st, fv, args, kwargs, node)

    def bind_params(self, st, fv: SFunc, args, kwargs, node=None):
        """returns dict name->SV or raises Unsupported; a TypeError for arity mismatch is reported as Unsupported"""
        a = fv.node.args
        params = [p.arg for p in a.posonlyargs + a.args]
        vals = {}
        args = list(args)
        if fv.self_val is not None and params:
            args = [fv.self_val] + args
        if len(args) > len(params) and a.vararg is None:
            raise Unsupported(f"too many positional arguments for {fv.name}")
        for p, v in zip(params, args):
            vals[p] = v
        if a.vararg is not None:
            vals[a.vararg.arg] = STuple(args[len(params):])
        extra = {}
        kwonly = [p.arg for p in a.kwonlyargs]
        for k, v in kwargs.items():
            if k in params or k in kwonly:
                if k in vals:
                    raise Unsupported(f"duplicate argument {k}")
                vals[k] = v
            elif a.kwarg is not None:
                extra[k] = v
            else:
                raise Unsupported(f"unexpected keyword {k} for {fv.name}")
        if a.kwarg is not None:
            vals[a.kwarg.arg] = self.models.new_dict(self, st, [(SStr(k), v) for k, v in extra.items()], TDict(STR, ANY))
        # defaults
        defaults = a.defaults
        dparams = params[len(params) - len(defaults):] if defaults else []
        for p, d in zip(dparams, defaults):
            if p not in vals:
                vals[p] = self._default_value(st, fv, d)
        for p, d in zip(kwonly, a.kw_defaults):
            if p not in vals and d is not None:
                vals[p] = self._default_value(st, fv, d)
        for p in params + kwonly:
            if p not in vals:
                raise Unsupported(f"missing argument {p} for {fv.name}")
        return vals

    def _default_value(self, st, fv, d):
        s = State()
        s.frames.append(Frame({}, fv.module, "<default>"))
        s.heap, s.pc = st.heap, st.pc
        res = self.ev(d, s, 0)
        if len(res) != 1:
            raise Unsupported("default value forks")
        return res[0][1]

    def inline_call(self, st, fv: SFunc, args, kwargs, node=None):
        if st.depth > MAX_DEPTH:
            raise Unsupported("call depth exceeded")
        vals = self.bind_params(st, fv, args, kwargs, node)
        frame_vars = dict(fv.env)
        frame_vars.update(vals)
        fr = Frame(frame_vars, fv.module, fv.qual or fv.name)
        if isinstance(fv.node, ast.Lambda):
            st.frames.append(fr)
            st.depth += 1
            fi = len(st.frames) - 1
            res = self.ev(fv.node.body, st, fi)
            out = []
            for s, v in res:
                s.frames.pop()
                s.depth -= 1
                out.append((s, v))
            return out
        is_gen = any(isinstance(n, (ast.Yield, ast.YieldFrom)) for n in _walk_own(fv.node))
        if is_gen:
            # generators are run eagerly into a list of the yielded values (encoding assumption: the body has no effect that the
            # consumer could observe between two yields - true of the generators under contract, which only read)
            frame_vars["__yield__"] = self.models.new_list(self, st, [], TList(ANY))
            fr = Frame(frame_vars, fv.module, fv.qual or fv.name)
        fr.unbound = _assigned_names(fv.node) - set(frame_vars)
        st.frames.append(fr)
        st.depth += 1
        fi = len(st.frames) - 1
        outs = self.ex_block(fv.node.body, st, fi)
        res = []
        for o in outs:
            s = o.st
            s.frames.pop()
            s.depth -= 1
            if o.kind == "raise":
                res.append((s, None))
            elif is_gen and o.kind in ("return", "next"):
                res.append((s, self.models.SGen(frame_vars["__yield__"])))
            elif o.kind == "return":
                res.append((s, o.value if o.value is not None else NONEV))
            elif o.kind == "next":
                res.append((s, NONEV))
            else:
                raise Unsupported(f"{o.kind} escaping function {fv.name}")
        return res

    # comprehension support lives in models
    def ev_ListComp(self, node, st, fi):
        return self.models.comprehension(self, node, st, fi, "list")

    def ev_SetComp(self, node, st, fi):
        return self.models.comprehension(self, node, st, fi, "set")

    def ev_DictComp(self, node, st, fi):
        return self.models.comprehension(self, node, st, fi, "dict")

    def ev_GeneratorExp(self, node, st, fi):
        return self.models.comprehension(self, node, st, fi, "gen")

    def ev_Yield(self, node, st, fi):
        lst = st.frames[fi].vars.get("__yield__")
        if lst is None:
            raise Unsupported("yield outside a generator frame")
        if node.value is None:
            self.models.list_append(self, st, lst, NONEV)
            return [(st, NONEV)]
        out = []
        for s, v in self.ev(node.value, st, fi):
            if s.exc is None:
                self.models.list_append(self, s, lst, v)
            out.append((s, NONEV))
        return out

    def ev_Starred(self, node, st, fi):
        raise Unsupported("starred expression")

    # ==========================================================================================
    # statements
    def ex_block(self, stmts, st: State, fi: int) -> list[Outcome]:
        pending = [st]
        done: list[Outcome] = []
        for stmt in stmts:
            nxt = []
            for s in pending:
                pc_before = list(s.pc)
                outs = self.ex(stmt, s, fi)
                if outs and not self.pure and any(isinstance(n, (ast.ListComp, ast.SetComp, ast.DictComp, ast.GeneratorExp)) for n in ast.walk(stmt)
                                                  if not isinstance(stmt, (ast.For, ast.While, ast.If, ast.Try, ast.With, ast.FunctionDef))) \
                        and not any(o.st.feasible() for o in outs):
                    outs = []  # every outcome carries a contradictory path condition: same situation as no outcome at all
                # (paths that die elsewhere are caught where they end: Verifier.verify_function checks every outcome, loops their back edges)
                if not outs and not self.pure:
                    # a state that can be reached has a successor (normal or exceptional).  No outcome at all means the executor put
                    # contradictory facts on the path: everything after this statement would be 'proved' vacuously
                    probe = State.__new__(State)
                    probe.pc = pc_before
                    if State.feasible(probe):
                        raise Unsupported(f"statement at {self.loc(stmt)} has no feasible outcome from a feasible state (engine limitation; nothing after it would be checked)")
                for o in outs:
                    if o.kind == "next":
                        nxt.append(o.st)
                    else:
                        done.append(o)
            pending = nxt
            if not pending:
                break
        done.extend(Outcome(s, "next") for s in pending)
        return done

    def ex(self, stmt, st, fi) -> list[Outcome]:
        m = getattr(self, "ex_" + type(stmt).__name__, None)
        if m is None:
            raise Unsupported(f"statement {type(stmt).__name__} at {self.loc(stmt)}")
        return m(stmt, st, fi)

    def _outs(self, results):
        return [Outcome(s, "raise") if s.exc is not None else Outcome(s, "next") for s, _ in results]

    def ex_Pass(self, stmt, st, fi):
        return [Outcome(st, "next")]

    def ex_Expr(self, stmt, st, fi):
        if isinstance(stmt.value, ast.Constant):
            return [Outcome(st, "next")]  # docstring
        return self._outs(self.ev(stmt.value, st, fi))

    def ex_Global(self, stmt, st, fi):
        raise Unsupported("global statement")

    def ex_Import(self, stmt, st, fi):
        return self.models.import_stmt(self, stmt, st, fi)

    ex_ImportFrom = ex_Import

    def ex_Delete(self, stmt, st, fi):
        for t in stmt.targets:
            if isinstance(t, ast.Name):
                self.dropped += 1  # `del local` is a no-op for the properties (DESIGN 3.3 item 5)
                continue
            if isinstance(t, ast.Attribute):
                self.dropped += 1
                continue
            raise Unsupported("del of non-name")
        return [Outcome(st, "next")]

    def ex_Assert(self, stmt, st, fi):
        out = []
        for s, v in self.ev(stmt.test, st, fi):
            if s.exc is not None:
                out.append(Outcome(s, "raise"))
                continue
            for s2, side in self.branch(s, self.truth(s, v)):
                if side:
                    out.append(Outcome(s2, "next"))
                else:
                    out.append(Outcome(self.raise_(s2, "AssertionError", self.loc(stmt)), "raise"))
        return out

    def ex_Return(self, stmt, st, fi):
        if stmt.value is None:
            return [Outcome(st, "return", NONEV)]
        return [Outcome(s, "raise") if s.exc is not None else Outcome(s, "return", v) for s, v in self.ev(stmt.value, st, fi)]

    def ex_Break(self, stmt, st, fi):
        return [Outcome(st, "break")]

    def ex_Continue(self, stmt, st, fi):
        return [Outcome(st, "continue")]

    def ex_Raise(self, stmt, st, fi):
        if stmt.exc is None:
            cur = st.ghost.get("__handling__")
            if cur is None:
                raise Unsupported("bare raise outside handler")
            st.exc = cur
            return [Outcome(st, "raise")]
        out = []
        for s, v in self.ev(stmt.exc, st, fi):
            if s.exc is not None:
                out.append(Outcome(s, "raise"))
                continue
            if isinstance(v, SClass) and v.ci.kind == "exception":
                s.exc = SExc(v.ci, [], self.loc(stmt))
            elif isinstance(v, SExcVal):
                s.exc = v.exc
                v.exc.where = v.exc.where or self.loc(stmt)
            else:
                raise Unsupported(f"raise of {v!r}")
            out.append(Outcome(s, "raise"))
        return out

    def ex_FunctionDef(self, stmt, st, fi):
        fr = st.frames[fi]
        # by-value capture; reject later rebinding of captured names (documented encoding assumption)
        f = SFunc(stmt, dict(fr.vars), name=stmt.name, module=fr.module, qual=f"{fr.qual}.<locals>.{stmt.name}")
        f.defining_frame = fi
        self.assign_name(st, fi, stmt.name, f)
        return [Outcome(st, "next")]

    def ex_Assign(self, stmt, st, fi):
        out = []
        for s, v in self.ev(stmt.value, st, fi):
            if s.exc is not None:
                out.append(Outcome(s, "raise"))
                continue
            states = [s]
            for t in stmt.targets:
                nxt = []
                for s2 in states:
                    nxt.extend(self.assign(t, v, s2, fi))
                states = nxt
            out.extend(Outcome(s2, "raise" if s2.exc is not None else "next") for s2 in states)
        return out

    def ex_AnnAssign(self, stmt, st, fi):
        if stmt.value is None:
            return [Outcome(st, "next")]
        out = []
        for s, v in self.ev(stmt.value, st, fi):
            if s.exc is not None:
                out.append(Outcome(s, "raise"))
                continue
            # annotation refines container element types of fresh empty containers
            if isinstance(v, SRef) and v.ty.kind in ("dict", "list", "set"):
                t = self.fe.parse_type(stmt.annotation, s.frames[fi].module)
                if t.kind == v.ty.kind:
                    keep_default = getattr(v.ty, "default", None)
                    v = SRef(v.t, t)
                    if keep_default is not None and t.kind == "dict":
                        v.ty.default = keep_default
            if isinstance(stmt.target, ast.Attribute) and isinstance(stmt.target.value, ast.Name) and stmt.target.value.id == "self":
                self._note_dyn_field(s, fi, stmt.target.attr, self.fe.parse_type(stmt.annotation, s.frames[fi].module))
            out.extend(Outcome(s2, "raise" if s2.exc is not None else "next") for s2 in self.assign(stmt.target, v, s, fi))
        return out

    def _note_dyn_field(self, st, fi, attr, ty):
        selfv = st.frames[fi].vars.get("self")
        if isinstance(selfv, SRef) and selfv.ty.kind == "class":
            ci = self.reg.get(selfv.ty.name)
            if ci is not None and attr not in ci.fields:
                ci.fields[attr] = ty

    def assign(self, target, v, st, fi) -> list[State]:
        if isinstance(target, ast.Name):
            lt = getattr(self, "local_types", None)
            if fi == 0 and lt and target.id in lt and isinstance(v, SRef) and v.ty.kind in ("list", "dict", "set") and lt[target.id].kind == v.ty.kind:
                # sidecar `local_types`: the element type of an un-annotated local container of the verified function (what an annotation
                # `xs: list[T] = []` would say); well-typedness of what is stored in it is the usual assumption
                v = SRef(v.t, lt[target.id])
            self.assign_name(st, fi, target.id, v)
            return [st]
        if isinstance(target, (ast.Tuple, ast.List)):
            return self.models.unpack_assign(self, target, v, st, fi)
        if isinstance(target, ast.Attribute):
            out = []
            for s, obj in self.ev(target.value, st, fi):
                if s.exc is not None:
                    out.append(s)
                    continue
                out.extend(self.setattr(s, obj, target.attr, v, target))
            return out
        if isinstance(target, ast.Subscript):
            if isinstance(target.slice, ast.Slice):
                return self.models.slice_assign(self, target, v, st, fi)
            out = []
            for s, (obj, k) in self.ev_list([target.value, target.slice], st, fi):
                if s.exc is not None:
                    out.append(s)
                    continue
                out.extend(self.models.setitem(self, s, obj, k, v))
            return out
        raise Unsupported(f"assignment target {type(target).__name__}")

    def setattr(self, st, obj, attr, v, node=None) -> list[State]:
        if isinstance(obj, SAny):
            out = []
            for s, w in self.narrow(st, obj):
                out.extend(self.setattr(s, w, attr, v, node))
            return out
        if isinstance(obj, SRef) and obj.ty.kind == "class":
            ci = self.reg.get(obj.ty.name)
            if ci is not None and attr not in ci.fields and not isinstance(v, (SFunc, SBuiltin)):
                ci.fields[attr] = getattr(v, "ty", ANY) if not isinstance(v, SAny) else v.ty
            if isinstance(v, (SFunc, SBuiltin, SBytes, SConstMap)):
                raise Unsupported(f"storing {type(v).__name__} into field {attr}")
            fty = ci.fields.get(attr) if ci else None
            if fty is not None and fty.kind == "dict" and isinstance(v, SRef) and v.ty.kind == "dict":
                # remember defaultdict-ness declared at the creation site
                if getattr(v.ty, "default", None) is not None and getattr(fty, "default", None) is None:
                    fty.default = v.ty.default
            self.store_field(st, obj.t, attr, v)
            return [st]
        if isinstance(obj, SRec):
            return [self.raise_(st, "AttributeError", f"frozen {obj.ci.name}.{attr}")]  # FrozenInstanceError
        raise Unsupported(f"attribute store on {type(obj).__name__} at {self.loc(node)}")

    def agg_contrib(self, st, name, obj_t):
        """contribution of object obj_t to the ghost aggregate `name` in state st (a z3 Int)"""
        a = self.contracts.aggregates[name]
        lam = a["contrib"]
        mi = self.fe.module(a["module"])
        tmp = st.copy()
        self.fe.class_info(a["module"], a["cls"])
        tmp.frames = [Frame({lam.args.args[0].arg: SRef(obj_t, TClass(a["cls"]))}, mi, "<aggregate>")]
        saved = self.pure
        self.pure = True
        try:
            (s2, v), = self.ev(lam.body, tmp, 0)
        finally:
            self.pure = saved
        return v.t

    def agg_value(self, st, name):
        key = "agg:" + name
        if key not in st.ghost:
            st.ghost[key] = z3.Int(f"agg0_{name}")  # deterministic: the same initial value in every copy of the state
        return st.ghost[key]

    def agg_member_fact(self, st, name, obj_t, contrib):
        """A-sum: a sum of non-negative contributions is at least each contribution of a held object, and non-negative.
        (arithmetic fact about the meaning of the ghost; the non-negativity of contributions is part of the class invariant)"""
        a = self.contracts.aggregates[name]
        held = Val.bval(st.read_field(obj_t, f"__in_{a['over']}"))
        st.assume(z3.Implies(z3.And(held, contrib >= 0), self.agg_value(st, name) >= contrib))

    def store_field(self, st, obj_t, attr, v):
        touched = []
        if self.contracts is not None:
            for name, a in self.contracts.aggregates.items():
                if attr in a["fields"]:
                    before = self.agg_contrib(st, name, obj_t)
                    self.agg_member_fact(st, name, obj_t, before)
                    touched.append((name, a, before))
        st.write_field(obj_t, attr, v.val())
        if self.contracts is not None and isinstance(v, SRef):
            for name, a in self.contracts.aggregates.items():
                if a["over"] == attr:
                    # the owning dict itself is (re)bound: the aggregate restarts from the new dict - 0 when that dict is empty
                    st.ghost["agg:" + name] = z3.IntVal(0) if st.must(st.clen(v.t) == 0) else sym.fresh_int("agg_" + name)
        for name, a, before in touched:
            after = self.agg_contrib(st, name, obj_t)
            held = Val.bval(st.read_field(obj_t, f"__in_{a['over']}"))
            st.ghost["agg:" + name] = self.agg_value(st, name) + z3.If(held, after - before, 0)
        if self.contracts is not None and attr in self.contracts.owned_fields and isinstance(v, SRef):
            st.write_field(v.t, f"__owner_{attr}", Val.ref(obj_t))  # ghost: the container knows its owner

    def ex_AugAssign(self, stmt, st, fi):
        load = _as_load(stmt.target)
        out = []
        for s, cur in self.ev(load, st, fi):
            if s.exc is not None:
                out.append(Outcome(s, "raise"))
                continue
            for s2, rhs in self.ev(stmt.value, s, fi):
                if s2.exc is not None:
                    out.append(Outcome(s2, "raise"))
                    continue
                if isinstance(cur, SRef) and cur.ty.kind == "list" and isinstance(stmt.op, ast.Add):
                    for s3, _ in self.models.list_extend(self, s2, cur, rhs):
                        out.append(Outcome(s3, "raise" if s3.exc is not None else "next"))
                    continue
                for s3, nv in self.binop(s2, stmt.op, cur, rhs, stmt):
                    if s3.exc is not None:
                        out.append(Outcome(s3, "raise"))
                        continue
                    out.extend(Outcome(s4, "raise" if s4.exc is not None else "next") for s4 in self.assign(stmt.target, nv, s3, fi))
        return out

    def ex_If(self, stmt, st, fi):
        out = []
        for s, c in self.ev(stmt.test, st, fi):
            if s.exc is not None:
                out.append(Outcome(s, "raise"))
                continue
            for s2, side in self.branch(s, self.truth(s, c)):
                out.extend(self.ex_block(stmt.body if side else stmt.orelse, s2, fi))
        return out

    def ex_While(self, stmt, st, fi):
        if self.loop_handler is None:
            raise Unsupported(f"loop without handler at {self.loc(stmt)}")
        return self.loop_handler(self, stmt, st, fi)

    ex_For = ex_While

    def ex_With(self, stmt, st, fi):
        return self.models.with_stmt(self, stmt, st, fi)

    def ex_Try(self, stmt, st, fi):
        out: list[Outcome] = []
        body_outs = self.ex_block(stmt.body, st, fi)
        after_handlers: list[Outcome] = []
        for o in body_outs:
            if o.kind == "raise":
                handled = False
                exc = o.st.exc
                for h in stmt.handlers:
                    if self.exc_matches(o.st, fi, exc, h.type):
                        s = o.st
                        s.exc = None
                        prev = s.ghost.get("__handling__")
                        s.ghost["__handling__"] = exc
                        if h.name:
                            self.assign_name(s, fi, h.name, SExcVal(exc))
                        for ho in self.ex_block(h.body, s, fi):
                            ho.st.ghost["__handling__"] = prev
                            after_handlers.append(ho)
                        handled = True
                        break
                if not handled:
                    after_handlers.append(o)
            elif o.kind == "next" and stmt.orelse:
                after_handlers.extend(self.ex_block(stmt.orelse, o.st, fi))
            else:
                after_handlers.append(o)
        if not stmt.finalbody:
            return after_handlers
        for o in after_handlers:
            s = o.st
            pending_exc = s.exc
            s.exc = None
            for fo in self.ex_block(stmt.finalbody, s, fi):
                if fo.kind == "next":
                    # resume the original outcome
                    fo.st.exc = pending_exc
                    out.append(Outcome(fo.st, o.kind, o.value))
                else:
                    out.append(fo)  # finally overrides
        return out

    def exc_matches(self, st, fi, exc: SExc, type_node) -> bool:
        if type_node is None:
            return True
        names = []
        if isinstance(type_node, ast.Tuple):
            elts = type_node.elts
        else:
            elts = [type_node]
        for e in elts:
            pending, st.exc = st.exc, None  # the handler's class expression is evaluated normally (the exception is still pending)
            try:
                res = self.ev(e, st, fi)
            finally:
                st.exc = pending
            v = res[0][1]
            if not isinstance(v, SClass):
                raise Unsupported("except clause with non-class")
            names.append(v.ci)
        return any(self.reg.is_subclass(exc.ci, c) for c in names)


OPQ_ATTR = z3.Function("opq_attr", sym.IntS, sym.StrS, sym.IntS)
OPQ_SLICE = z3.Function("opq_slice", sym.IntS, Val, Val, sym.IntS)


class SExcVal(SV):
    """an exception instance as a value (`except E as e`, or ValueError(...) not yet raised)"""

    def __init__(self, exc: SExc):
        self.exc = exc
        self._o = sym.fresh_int("excv")

    def val(self):
        return Val.opq(self._o)

    def __repr__(self):
        return f"SExcVal({self.exc.ci.name})"


class SExtMethod(SV):
    def __init__(self, obj, name):
        self.obj, self.name = obj, name


class SUnionType(SV):
    """A | B used as a value (isinstance second argument)"""

    def __init__(self, alts):
        self.alts = alts


def _ualts(v):
    if isinstance(v, SUnionType):
        return list(v.alts)
    return [v]


class _NoConst:
    pass


_NOCONST = _NoConst()


def _floordiv(a, b):
    # Python floor division; SMT-LIB div keeps the remainder in [0,|b|), i.e. floors for b>0 and ceils for b<0
    return z3.If(b > 0, a / b, z3.If(a % b == 0, a / b, a / b - 1))


def _pymod(a, b):
    return a - b * _floordiv(a, b)


def _as_load(target):
    t = ast.parse(ast.unparse(target), mode="eval").body
    ast.copy_location(t, target)
    for n in ast.walk(t):
        if not hasattr(n, "lineno"):
            n.lineno = getattr(target, "lineno", 0)
            n.col_offset = 0
    return t


def _walk_own(fn):
    """nodes of a function body excluding nested function/lambda/class bodies"""
    stack = list(fn.body)
    while stack:
        n = stack.pop()
        yield n
        for c in ast.iter_child_nodes(n):
            if isinstance(c, (ast.FunctionDef, ast.Lambda, ast.ClassDef, ast.AsyncFunctionDef)):
                continue
            stack.append(c)
