"""bytes / memoryview as SEGMENT LISTS (DESIGN 3.7): the SMT sequence theory is not used for byte strings.

A bytes value is a Python list of segments
    ("const", b"...")                 concrete bytes
    ("int", x, n)                     the n-byte big-endian encoding of the Int term x, 0 <= x < 256**n  (n concrete)
    ("ascii", s)                      the ASCII encoding of the String term s (s is ASCII, one byte per character)
    ("utf8", s)                       the UTF-8 encoding of s; its length is utf8len(s) >= len(s), == iff s is ASCII
    ("blob", id, off, len)            len bytes starting at off of an opaque byte string `id` (contents unknown)
Concatenation appends; slicing walks the list and asks the solver only linear-arithmetic alignment questions.
Assumed CPython facts: int.to_bytes(n,"big") raises OverflowError outside [0,256**n); str.encode("ascii") raises
UnicodeEncodeError iff a character is > 0x7f; str(b,"ascii") is its inverse and raises UnicodeDecodeError on bytes > 0x7f;
slice bounds are clamped to the length.
"""
from __future__ import annotations

import z3

from . import sym
from .state import Unsupported
from .sym import SBool, SInt, SStr, Val

ASCII_RE = z3.Star(z3.Range(chr(0), chr(127)))
utf8len = z3.Function("utf8len", sym.StrS, sym.IntS)
blob_len = z3.Function("blob_len", sym.IntS, sym.IntS)
blob_be = z3.Function("blob_be", sym.IntS, sym.IntS, sym.IntS, sym.IntS)  # (id, off, len) -> big-endian value
blob_str = z3.Function("blob_str", sym.IntS, sym.IntS, sym.IntS, sym.StrS)  # decoded text of a sub-blob
utf8_sub = z3.Function("utf8_sub", sym.StrS, sym.IntS, sym.IntS, sym.IntS)  # opaque id of a byte-slice of utf8(s)


def isascii(s):
    return z3.InRe(s, ASCII_RE)


def _SB(segs):
    from .engine import SBytes
    return SBytes([s for s in segs if not _empty(s)])


def _empty(seg):
    if seg[0] == "const":
        return len(seg[1]) == 0
    if seg[0] == "int":
        return seg[2] == 0
    return False


def const_bytes(b: bytes):
    return _SB([("const", bytes(b))])


def blob(st, label="blob"):
    i = sym.fresh_int(label)
    st.assume(blob_len(i) >= 0)
    return _SB([("blob", i, z3.IntVal(0), blob_len(i))])


def seg_len(seg):
    k = seg[0]
    if k == "const":
        return z3.IntVal(len(seg[1]))
    if k == "int":
        return z3.IntVal(seg[2])
    if k == "ascii":
        return z3.Length(seg[1])
    if k == "utf8":
        return utf8len(seg[1])
    if k == "blob":
        return seg[3]
    raise Unsupported(f"segment {k}")


def blen(v):
    t = z3.IntVal(0)
    for s in v.segs:
        t = t + seg_len(s)
    return z3.simplify(t)


def concat(a, b):
    segs = list(a.segs)
    for s in b.segs:
        if segs and segs[-1][0] == "const" and s[0] == "const":
            segs[-1] = ("const", segs[-1][1] + s[1])
        else:
            segs.append(s)
    return _SB(segs)


def bytes_val(v):
    if len(v.segs) == 1 and v.segs[0][0] == "blob":
        _, i, off, ln = v.segs[0]
        if z3.is_int_value(z3.simplify(off)) and z3.simplify(off).as_long() == 0:
            return Val.opq(i)
    if len(v.segs) == 1 and v.segs[0][0] == "const":
        return Val.str(z3.StringVal("bytes:" + v.segs[0][1].hex()))  # distinct tag space for literals
    raise Unsupported("composite bytes stored as a value")


# ---- producers -----------------------------------------------------------------------------------
def to_bytes(eng, st, x, n, order):
    if not z3.is_string_value(z3.simplify(order.t)) or z3.simplify(order.t).as_string() != "big":
        raise Unsupported("to_bytes: only big-endian")
    nn = z3.simplify(n.t)
    if not z3.is_int_value(nn):
        raise Unsupported("to_bytes with symbolic width")
    width = nn.as_long()
    out = []
    for s, xi in eng.as_int(st, x):
        if s.exc is not None:
            out.append((s, None))
            continue
        inrange = z3.And(xi.t >= 0, xi.t < 256 ** width)
        if eng.pure:
            out.append((s, _SB([("int", xi.t, width)])))
            continue
        for s2, ok in eng.branch(s, inrange):
            if ok:
                out.append((s2, _SB([("int", xi.t, width)])))
            else:
                out.append((eng.raise_(s2, "OverflowError", "int too big to convert / negative"), None))
    return out


def encode(eng, st, s0, enc):
    e = z3.simplify(enc.t)
    if not z3.is_string_value(e):
        raise Unsupported("symbolic encoding name")
    name = e.as_string().lower().replace("_", "-")
    if name == "ascii":
        if eng.pure:
            return [(st, _SB([("ascii", s0.t)]))]
        out = []
        for s, ok in eng.branch(st, isascii(s0.t)):
            if ok:
                out.append((s, _SB([("ascii", s0.t)])))
            else:
                out.append((eng.raise_(s, "UnicodeEncodeError", "non-ascii"), None))
        return out
    if name in ("utf-8", "utf8"):
        st.assume(z3.And(utf8len(s0.t) >= z3.Length(s0.t), (utf8len(s0.t) == z3.Length(s0.t)) == isascii(s0.t)))
        return [(st, _SB([("utf8", s0.t)]))]
    raise Unsupported(f"encoding {name}")


# ---- splitting -----------------------------------------------------------------------------------
def _split_seg(eng, st, seg, k):
    """split one segment at byte offset k (a z3 Int with 0 <= k <= len(seg)); returns list of (st, left, right)"""
    kind = seg[0]
    ks = z3.simplify(k)
    if kind == "const":
        if z3.is_int_value(ks):
            c = ks.as_long()
            return [(st, ("const", seg[1][:c]), ("const", seg[1][c:]))]
        out = []
        for c in range(len(seg[1]) + 1):
            if st.feasible([k == c]):
                s2 = st.copy()
                s2.assume(k == c)
                out.append((s2, ("const", seg[1][:c]), ("const", seg[1][c:])))
        return out
    if kind == "int":
        x, n = seg[1], seg[2]
        cands = [ks.as_long()] if z3.is_int_value(ks) else range(n + 1)
        out = []
        for c in cands:
            if len(cands) > 1:
                if not st.feasible([k == c]):
                    continue
                s2 = st.copy()
                s2.assume(k == c)
            else:
                s2 = st
            low = 256 ** (n - c)
            out.append((s2, ("int", x / low, c), ("int", x % low, n - c)))
        return out
    if kind == "ascii":
        s0 = seg[1]
        return [(st, ("ascii", z3.SubString(s0, 0, k)), ("ascii", z3.SubString(s0, k, z3.Length(s0) - k)))]
    if kind == "utf8":
        s0 = seg[1]
        # a cut inside a UTF-8 encoding: both halves are opaque sub-blobs, except when the string is ASCII
        out = []
        for s2, asc in eng.branch(st, isascii(s0)):
            if asc:
                out.append((s2, ("ascii", z3.SubString(s0, 0, k)), ("ascii", z3.SubString(s0, k, z3.Length(s0) - k))))
            else:
                i = sym.fresh_int("utf8blob")
                s2.assume(blob_len(i) == utf8len(s0))
                out.append((s2, ("blob", i, z3.IntVal(0), k), ("blob", i, k, utf8len(s0) - k)))
        return out
    if kind == "blob":
        _, i, off, ln = seg
        return [(st, ("blob", i, off, k), ("blob", i, off + k, ln - k))]
    raise Unsupported(f"split of {kind}")


def split_at(eng, st, segs, p):
    """split a segment list at byte position p (0 <= p <= total assumed by caller). forks as needed."""
    results = []
    # walk: find the segment containing p
    def walk(s, idx, off, left):
        if idx == len(segs):
            results.append((s, left, []))
            return
        seg = segs[idx]
        ln = seg_len(seg)
        end = z3.simplify(off + ln)
        # case p <= off  -> cut here
        for s2, here in eng.branch(s, p <= off):
            if here:
                results.append((s2, left, list(segs[idx:])))
                continue
            for s3, beyond in eng.branch(s2, p >= end):
                if beyond:
                    walk(s3, idx + 1, end, left + [seg])
                else:
                    for s4, l, r in _split_seg(eng, s3, seg, z3.simplify(p - off)):
                        results.append((s4, left + [l], [r] + list(segs[idx + 1:])))
    walk(st, 0, z3.IntVal(0), [])
    return results


def slice_(eng, st, v, lo, hi):
    total = blen(v)
    lo_t = lo.t if lo is not None else z3.IntVal(0)
    hi_t = hi.t if hi is not None else total
    if eng.pure:
        raise Unsupported("bytes slicing in spec mode")
    out = []
    # clamp like CPython (negative bounds are outside the supported subset)
    for s, neg in eng.branch(st, z3.Or(lo_t < 0, hi_t < 0)):
        if neg:
            raise Unsupported("negative slice bound on bytes")
        for s1, lo_big in eng.branch(s, lo_t > total):
            lo_e = total if lo_big else lo_t
            for s2, hi_big in eng.branch(s1, hi_t > total):
                hi_e = total if hi_big else hi_t
                for s3, inverted in eng.branch(s2, hi_e < lo_e):
                    if inverted:
                        out.append((s3, _SB([])))
                        continue
                    for s4, left, rest in split_at(eng, s3, v.segs, lo_e):
                        for s5, mid, _ in split_at(eng, s4, rest, z3.simplify(hi_e - lo_e)):
                            out.append((s5, _SB(_drop_empty(s5, mid))))
    return out


def _drop_empty(st, segs):
    """remove segments whose length is 0 on this path (keeps later consumers on the aligned fast path)"""
    out = []
    for seg in segs:
        if seg[0] in ("ascii", "utf8", "blob"):
            ln = z3.simplify(seg_len(seg))
            if z3.is_int_value(ln) and ln.as_long() == 0:
                continue
            if not z3.is_int_value(ln) and st.must(ln == 0):
                continue
        out.append(seg)
    return out


# ---- consumers -----------------------------------------------------------------------------------
def from_bytes(eng, st, v, order):
    from .engine import SBytes
    if not isinstance(v, SBytes):
        raise Unsupported("from_bytes of non-bytes")
    if not z3.is_string_value(z3.simplify(order.t)) or z3.simplify(order.t).as_string() != "big":
        raise Unsupported("from_bytes: only big-endian")
    acc = z3.IntVal(0)
    for seg in v.segs:
        k = seg[0]
        if k == "const":
            acc = acc * (256 ** len(seg[1])) + int.from_bytes(seg[1], "big")
        elif k == "int":
            acc = acc * (256 ** seg[2]) + seg[1]
        else:
            # a non-numeric segment read as a number: value is an uninterpreted function of the segment
            if len(v.segs) != 1:
                raise Unsupported("from_bytes over mixed opaque segments")
            if k == "blob":
                acc = blob_be(seg[1], seg[2], seg[3])
            else:
                acc = z3.Int(sym.fresh_name("be_of_text"))
            st.assume(acc >= 0)
    return [(st, SInt(z3.simplify(acc)))]


def decode(eng, st, v, enc):
    e = z3.simplify(enc.t)
    if not z3.is_string_value(e):
        raise Unsupported("symbolic encoding name")
    name = e.as_string().lower().replace("_", "-")
    if name not in ("ascii", "utf-8", "utf8"):
        raise Unsupported(f"decode {name}")
    results = [(st, z3.StringVal(""))]
    for seg in v.segs:
        nxt = []
        for s, acc in results:
            if s.exc is not None:
                nxt.append((s, acc))
                continue
            k = seg[0]
            if k == "ascii":
                nxt.append((s, z3.Concat(acc, seg[1])))
            elif k == "utf8":
                if name == "ascii":
                    for s2, ok in eng.branch(s, isascii(seg[1])):
                        if ok:
                            nxt.append((s2, z3.Concat(acc, seg[1])))
                        else:
                            nxt.append((eng.raise_(s2, "UnicodeDecodeError", "non-ascii byte"), acc))
                else:
                    nxt.append((s, z3.Concat(acc, seg[1])))
            elif k == "const":
                try:
                    txt = seg[1].decode("ascii" if name == "ascii" else "utf-8")
                except UnicodeDecodeError:
                    nxt.append((eng.raise_(s, "UnicodeDecodeError", "const"), acc))
                    continue
                nxt.append((s, z3.Concat(acc, z3.StringVal(txt))))
            elif k == "int":
                x, n = seg[1], seg[2]
                cur = [(s, acc)]
                for i in range(n):
                    b = (x / (256 ** (n - 1 - i))) % 256
                    nn = []
                    for s2, a2 in cur:
                        if s2.exc is not None:
                            nn.append((s2, a2))
                            continue
                        for s3, ok in eng.branch(s2, b < 128):
                            if ok:
                                nn.append((s3, z3.Concat(a2, z3.StrFromCode(b))))
                            elif name == "ascii":
                                nn.append((eng.raise_(s3, "UnicodeDecodeError", "byte >= 0x80"), a2))
                            else:
                                nn.append((s3, z3.Concat(a2, sym.fresh_str("utf8dec"))))
                    cur = nn
                nxt.extend(cur)
            elif k == "blob":
                # unknown bytes: decoding may fail or give some text that is a function of the sub-blob
                ok = z3.Bool(sym.fresh_name("blob_decodes"))
                for s2, fine in eng.branch(s, ok):
                    if fine:
                        t = blob_str(seg[1], seg[2], seg[3])
                        nxt.append((s2, z3.Concat(acc, t)))
                    else:
                        nxt.append((eng.raise_(s2, "UnicodeDecodeError", "blob"), acc))
            else:
                raise Unsupported(f"decode of {k}")
        results = nxt
    return [(s, SStr(z3.simplify(acc)) if s.exc is None else None) for s, acc in results]


def equal(st, a, b):
    """bytes == bytes: decided structurally when both are literal, otherwise segment-wise on equal shapes"""
    if all(s[0] == "const" for s in a.segs) and all(s[0] == "const" for s in b.segs):
        return z3.BoolVal(b"".join(s[1] for s in a.segs) == b"".join(s[1] for s in b.segs))
    if len(a.segs) == len(b.segs):
        conj = []
        for x, y in zip(a.segs, b.segs):
            if x[0] != y[0]:
                break
            if x[0] == "int" and x[2] == y[2]:
                conj.append(x[1] == y[1])
            elif x[0] in ("ascii", "utf8"):
                conj.append(x[1] == y[1])
            elif x[0] == "blob":
                conj.append(z3.And(x[1] == y[1], x[2] == y[2], x[3] == y[3]))
            elif x[0] == "const":
                conj.append(z3.BoolVal(x[1] == y[1]))
            else:
                break
        else:
            # sufficient AND necessary for same-shape lists of injective segment encodings (blobs: sufficient only)
            if not any(x[0] == "blob" for x in a.segs):
                return z3.And(*conj) if conj else z3.BoolVal(True)
    raise Unsupported("bytes equality between different segment shapes")


def m_tobytes(eng, st, args, kw):
    return [(st, args[0])]


def m_toreadonly(eng, st, args, kw):
    return [(st, args[0])]


def m_decode(eng, st, args, kw):
    return decode(eng, st, args[0], args[1] if len(args) > 1 else SStr("utf-8"))


BYTES_METHODS = {"tobytes": m_tobytes, "toreadonly": m_toreadonly, "decode": m_decode}
