"""Front end: reads the REAL source files of /repo on every run, locates functions/classes by
qualified name, hashes what it consumed, and applies the documented drop list (DESIGN 3.3).
Nothing here contains a copy of repository code.
"""
from __future__ import annotations

import ast
import hashlib
import os

from . import sym
from .sym import ANY, BOOL, BYTES, INT, NONE, OPAQUE, STR, ClassInfo, TClass, TDict, TList, TSet, TTuple, TUnion

REPO_SRC = os.environ.get("EKW_REPO_SRC", "/repo/src")

BUILTIN_EXC = {
    "BaseException": [],
    "Exception": ["BaseException"],
    "SystemExit": ["BaseException"],
    "KeyboardInterrupt": ["BaseException"],
    "ArithmeticError": ["Exception"],
    "OverflowError": ["ArithmeticError"],
    "ZeroDivisionError": ["ArithmeticError"],
    "AssertionError": ["Exception"],
    "AttributeError": ["Exception"],
    "ImportError": ["Exception"],
    "ModuleNotFoundError": ["ImportError"],
    "LookupError": ["Exception"],
    "IndexError": ["LookupError"],
    "KeyError": ["LookupError"],
    "NameError": ["Exception"],
    "UnboundLocalError": ["NameError"],
    "OSError": ["Exception"],
    "FileNotFoundError": ["OSError"],
    "TimeoutError": ["OSError"],
    "ConnectionError": ["OSError"],
    "ConnectionRefusedError": ["ConnectionError"],
    "RuntimeError": ["Exception"],
    "NotImplementedError": ["RuntimeError"],
    "StopIteration": ["Exception"],
    "TypeError": ["Exception"],
    "ValueError": ["Exception"],
    "UnicodeError": ["ValueError"],
    "UnicodeEncodeError": ["UnicodeError"],
    "UnicodeDecodeError": ["UnicodeError"],
}


class ModuleInfo:
    def __init__(self, name, path, tree, text):
        self.name, self.path, self.tree, self.text = name, path, tree, text
        self.functions: dict[str, ast.FunctionDef] = {}
        self.classes: dict[str, ast.ClassDef] = {}
        self.assigns: dict[str, ast.expr] = {}  # last module-level assignment per name
        self.ann: dict[str, ast.expr] = {}
        self.imports: dict[str, tuple[str, str | None]] = {}  # local name -> (module, attr|None)
        for node in tree.body:
            self._scan(node)

    def _scan(self, node):
        if isinstance(node, (ast.FunctionDef, ast.AsyncFunctionDef)):
            self.functions[node.name] = node
        elif isinstance(node, ast.ClassDef):
            self.classes[node.name] = node
        elif isinstance(node, ast.Assign):
            for t in node.targets:
                if isinstance(t, ast.Name):
                    self.assigns[t.id] = node.value
        elif isinstance(node, ast.AnnAssign) and isinstance(node.target, ast.Name):
            if node.value is not None:
                self.assigns[node.target.id] = node.value
            self.ann[node.target.id] = node.annotation
        elif isinstance(node, ast.Import):
            for a in node.names:
                if a.asname:
                    self.imports[a.asname] = (a.name, None)
                else:
                    self.imports[a.name.split(".")[0]] = (a.name.split(".")[0], None)
        elif isinstance(node, ast.ImportFrom):
            mod = node.module or ""
            if node.level:
                base = self.name.split(".")
                # a module's package is its name minus the last component
                base = base[: len(base) - node.level]
                mod = ".".join(base + ([mod] if mod else []))
            for a in node.names:
                self.imports[a.asname or a.name] = (mod, a.name)
        elif isinstance(node, (ast.Try, ast.If)):
            for sub in node.body:
                self._scan(sub)


class Frontend:
    def __init__(self, src_root: str | None = None):
        self.root = src_root or REPO_SRC
        self.modules: dict[str, ModuleInfo | None] = {}
        self.reg = sym.Registry()
        self.consumed: dict[str, dict] = {}  # qualname -> {sha256, loc, file, lineno}
        self._class_loaded: set[str] = set()
        for name, bases in BUILTIN_EXC.items():
            ci = ClassInfo(name, "exception", bases=bases)
            self.reg.add(ci)

    # -- modules -------------------------------------------------------------------------------
    def module_path(self, name: str) -> str | None:
        p = os.path.join(self.root, *name.split("."))
        if os.path.isfile(p + ".py"):
            return p + ".py"
        if os.path.isfile(os.path.join(p, "__init__.py")):
            return os.path.join(p, "__init__.py")
        return None

    def module(self, name: str) -> ModuleInfo | None:
        if name not in self.modules:
            path = self.module_path(name)
            if path is None:
                self.modules[name] = None
            else:
                text = open(path).read()
                self.modules[name] = ModuleInfo(name, path, ast.parse(text), text)
        return self.modules[name]

    # -- locating targets ----------------------------------------------------------------------
    def find(self, target: str):
        """target = 'pkg.mod:Class.method' or 'pkg.mod:func' or 'pkg.mod:Class.method.<locals>.inner'
        returns (ModuleInfo, FunctionDef, owner ClassDef | None, enclosing FunctionDef chain)"""
        modname, qual = target.split(":")
        mi = self.module(modname)
        if mi is None:
            raise LookupError(f"module {modname} not found under {self.root}")
        parts = [p for p in qual.split(".") if p != "<locals>"]
        scope_body = mi.tree.body
        owner = None
        chain = []
        node = None
        for i, p in enumerate(parts):
            found = None
            for n in _walk_defs(scope_body):
                if isinstance(n, (ast.FunctionDef, ast.ClassDef)) and n.name == p:
                    found = n
                    break
            if found is None:
                raise LookupError(f"{target}: {p} not found")
            if isinstance(found, ast.ClassDef):
                owner = found
            else:
                chain.append(found)
            scope_body = found.body
            node = found
        if not isinstance(node, ast.FunctionDef):
            raise LookupError(f"{target} is not a function")
        seg = ast.get_source_segment(mi.text, node) or ast.dump(node)
        self.consumed[target] = {
            "sha256": hashlib.sha256(seg.encode()).hexdigest(),
            "loc": (node.end_lineno or node.lineno) - node.lineno + 1,
            "file": os.path.relpath(mi.path, self.root),
            "lineno": node.lineno,
        }
        return mi, node, owner, chain[:-1]

    # -- classes -------------------------------------------------------------------------------
    def class_info(self, modname: str, cname: str) -> ClassInfo | None:
        """resolve a class name as seen from module `modname` and load its declaration"""
        mi = self.module(modname)
        if mi is None:
            return self.reg.get(cname)
        if cname in mi.classes:
            return self._load_class(mi, mi.classes[cname])
        if cname in mi.imports:
            m2, attr = mi.imports[cname]
            if attr is not None and self.module(m2) is not None:
                return self.class_info(m2, attr)
        if cname in mi.assigns:
            # alias, e.g. JobId = str  (handled by parse_type), or X = Y
            v = mi.assigns[cname]
            if isinstance(v, ast.Name) and v.id != cname:
                return self.class_info(modname, v.id)
        return self.reg.get(cname)

    def _load_class(self, mi: ModuleInfo, node: ast.ClassDef) -> ClassInfo:
        key = f"{mi.name}:{node.name}"
        existing = self.reg.get(node.name)
        if key in self._class_loaded and existing is not None:
            return existing
        self._class_loaded.add(key)
        bases = []
        for b in node.bases:
            if isinstance(b, ast.Name):
                bases.append(b.id)
            elif isinstance(b, ast.Attribute):
                bases.append(b.attr)
        is_dc, frozen = False, False
        for d in node.decorator_list:
            name = d.func if isinstance(d, ast.Call) else d
            dn = name.id if isinstance(name, ast.Name) else getattr(name, "attr", "")
            if dn == "dataclass":
                is_dc = True
                if isinstance(d, ast.Call):
                    for kw in d.keywords:
                        if kw.arg == "frozen" and isinstance(kw.value, ast.Constant) and kw.value.value:
                            frozen = True
            if dn in ("element", "message"):  # cascade.executor.msg helpers: dataclass(frozen=True)
                is_dc, frozen = True, True
        kind = "object"
        if "Enum" in bases or "IntEnum" in bases:
            kind = "enum"
        elif any(self._is_exc(b, mi) for b in bases):
            kind = "exception"
        elif "BaseModel" in bases or any(self._is_pyd(b, mi) for b in bases):
            kind = "record"  # pydantic models are used immutably in the code under contract
            is_dc = True
        elif is_dc and frozen:
            kind = "record"
        ci = ClassInfo(node.name, kind, bases=bases, module=mi.name, node=node)
        ci.is_dataclass = is_dc
        self.reg.add(ci)
        # inherit fields
        for b in bases:
            bi = self.class_info(mi.name, b)
            if bi is not None and bi is not ci:
                for f, t in bi.fields.items():
                    ci.fields.setdefault(f, t)
                ci.defaults.update(bi.defaults)
                for m, v in bi.methods.items():
                    ci.methods.setdefault(m, v)
                for m, v in bi.class_attrs.items():
                    ci.class_attrs.setdefault(m, v)
        idx = 0
        for st in node.body:
            if isinstance(st, ast.AnnAssign) and isinstance(st.target, ast.Name):
                if kind == "enum":
                    continue
                ci.fields[st.target.id] = self.parse_type(st.annotation, mi)
                if st.value is not None:
                    ci.defaults[st.target.id] = st.value
            elif isinstance(st, ast.Assign) and len(st.targets) == 1 and isinstance(st.targets[0], ast.Name):
                n = st.targets[0].id
                if kind == "enum":
                    ci.members.append(n)
                    idx += 1
                    if isinstance(st.value, ast.Constant):
                        ci.member_values[n] = st.value.value
                    elif isinstance(st.value, ast.UnaryOp) and isinstance(st.value.op, ast.USub) and isinstance(st.value.operand, ast.Constant):
                        ci.member_values[n] = -st.value.operand.value
                    else:  # auto()
                        ci.member_values[n] = idx
                else:
                    ci.class_attrs[n] = st.value
            elif isinstance(st, ast.FunctionDef):
                mk = "method"
                for d in st.decorator_list:
                    if isinstance(d, ast.Name) and d.id in ("classmethod", "staticmethod", "property"):
                        mk = d.id
                ci.methods[st.name] = (st, mk, mi.name)
        return ci

    def _is_exc(self, b: str, mi: ModuleInfo) -> bool:
        ci = self.reg.get(b)
        if ci is not None and ci.kind == "exception":
            return True
        if b in mi.classes and b != "":
            return self._load_class(mi, mi.classes[b]).kind == "exception"
        return False

    def _is_pyd(self, b: str, mi: ModuleInfo) -> bool:
        ci = self.class_info(mi.name, b) if (b in mi.classes or b in mi.imports) else None
        if ci is None:
            if b in mi.assigns and isinstance(mi.assigns[b], ast.Name):
                return mi.assigns[b].id == "BaseModel"
            return False
        return "BaseModel" in ci.bases or any(self._is_pyd(x, self.module(ci.module)) for x in ci.bases if ci.module)

    # -- types ---------------------------------------------------------------------------------
    def parse_type(self, ann, mi: ModuleInfo | None, depth=0) -> sym.Ty:
        if ann is None or depth > 48:
            return ANY
        if isinstance(ann, ast.Constant):
            if ann.value is None:
                return NONE
            if isinstance(ann.value, str):
                try:
                    return self.parse_type(ast.parse(ann.value, mode="eval").body, mi, depth + 1)
                except SyntaxError:
                    return ANY
            return ANY
        if isinstance(ann, ast.Name):
            n = ann.id
            simple = {"int": INT, "str": STR, "bool": BOOL, "bytes": BYTES, "memoryview": BYTES, "Any": ANY,
                      "None": NONE, "float": OPAQUE, "Callable": OPAQUE, "object": ANY, "Self": ANY}
            if n in simple:
                return simple[n]
            if n in ("dict", "Dict"):
                return TDict(ANY, ANY)
            if n in ("list", "List"):
                return TList(ANY)
            if n in ("set", "Set", "frozenset"):
                return TSet(ANY)
            if n == "tuple":
                return ANY
            if mi is not None:
                if n in mi.classes:
                    return TClass(self._load_class(mi, mi.classes[n]).name)
                if n in mi.assigns and n not in mi.classes:
                    v = mi.assigns[n]
                    # type alias (JobId = str, HostId = str, Event = A | B)
                    if not (isinstance(v, ast.Name) and v.id == n):
                        t = self.parse_type(v, mi, depth + 1)
                        return t
                if n in mi.imports:
                    m2, attr = mi.imports[n]
                    mi2 = self.module(m2)
                    if mi2 is not None and attr is not None:
                        return self.parse_type(ast.Name(id=attr), mi2, depth + 1)
                    return OPAQUE if attr is not None else ANY
            ci = self.reg.get(n)
            return TClass(ci.name) if ci else ANY
        if isinstance(ann, ast.Attribute):
            # zmq.Socket, threading.Lock, api.Comm ...
            if isinstance(ann.value, ast.Name) and mi is not None and ann.value.id in mi.imports:
                m2, attr = mi.imports[ann.value.id]
                full = m2 if attr is None else f"{m2}.{attr}"
                mi2 = self.module(full)
                if mi2 is not None:
                    return self.parse_type(ast.Name(id=ann.attr), mi2, depth + 1)
            if ann.attr == "Lock":
                return TClass("Lock")
            return OPAQUE
        if isinstance(ann, ast.BinOp) and isinstance(ann.op, ast.BitOr):
            return _union([self.parse_type(ann.left, mi, depth + 1), self.parse_type(ann.right, mi, depth + 1)])
        if isinstance(ann, ast.Subscript):
            base = ann.value
            bn = base.id if isinstance(base, ast.Name) else getattr(base, "attr", "")
            args = ann.slice.elts if isinstance(ann.slice, ast.Tuple) else [ann.slice]
            if bn in ("dict", "Dict", "defaultdict", "Mapping"):
                k = self.parse_type(args[0], mi, depth + 1)
                v = self.parse_type(args[1], mi, depth + 1) if len(args) > 1 else ANY
                if bn == "defaultdict":
                    return TDict(k, v, default=v)  # sidecar field_types only: a dict built as defaultdict(<factory of V>) - a missing key is inserted on read
                return TDict(k, v)
            if bn in ("list", "List", "Sequence", "Iterable", "Iterator"):
                return TList(self.parse_type(args[0], mi, depth + 1))
            if bn in ("set", "Set", "frozenset"):
                return TSet(self.parse_type(args[0], mi, depth + 1))
            if bn in ("tuple", "Tuple"):
                if len(args) == 2 and isinstance(args[1], ast.Constant) and args[1].value is Ellipsis:
                    return TList(self.parse_type(args[0], mi, depth + 1))
                return TTuple([self.parse_type(a, mi, depth + 1) for a in args])
            if bn == "Optional":
                return _union([self.parse_type(args[0], mi, depth + 1), NONE])
            if bn == "Union":
                return _union([self.parse_type(a, mi, depth + 1) for a in args])
            if bn in ("Type", "type", "Callable"):
                return OPAQUE if bn == "Callable" else ANY
            return ANY
        return ANY


def _union(alts):
    flat = []
    for a in alts:
        if isinstance(a, TUnion):
            flat.extend(a.alts)
        else:
            flat.append(a)
    if any(a.kind == "any" for a in flat):
        return ANY
    # dedupe by repr
    seen, out = set(), []
    for a in flat:
        if repr(a) not in seen:
            seen.add(repr(a))
            out.append(a)
    return out[0] if len(out) == 1 else TUnion(out)


def _walk_defs(body):
    """function/class definitions reachable in a body without entering other defs"""
    for n in body:
        if isinstance(n, (ast.FunctionDef, ast.ClassDef)):
            yield n
        elif isinstance(n, (ast.If, ast.For, ast.While, ast.With, ast.Try)):
            for fld in ("body", "orelse", "finalbody"):
                yield from _walk_defs(getattr(n, fld, []) or [])
            for h in getattr(n, "handlers", []) or []:
                yield from _walk_defs(h.body)
