"""Loops: cut by sidecar invariants (all iteration counts, no unrolling bound); concrete-length iterables without an
invariant are unrolled exactly.

For `for` loops the executor exposes ghost variables to the invariant:
    loop<k>_index   (int)  number of elements already processed, for lists / ranges / enumerate / zip
    loop<k>_seen    (set)  keys already processed, for sets / dicts and their views
The write set of the body (locals, object fields, containers, event log) is found by a fixpoint of symbolic runs of the
body and havocked before the invariant is assumed.
"""
from __future__ import annotations

import ast
import z3

from . import models, sym
from .contracts import Clause
from .engine import Outcome, SIter
from .state import EMPTY_SET, State, Unsupported
from .sym import ANY, INT, NONEV, SAny, SInt, SRef, SStr, STuple, TSet, TTuple, Val, VL


class IterDesc:
    """how a for-loop walks its iterable"""

    def __init__(self, kind, **kw):
        self.kind = kind
        self.__dict__.update(kw)


def describe_iter(eng, st, v):
    from .models import SEnumerate, SGen, SRange, SView, SZip
    if isinstance(v, SGen):
        v = v.lst
    if isinstance(v, STuple):
        return IterDesc("concrete", items=v.items)
    if isinstance(v, SRef) and v.ty.kind == "list":
        return IterDesc("list", ref=v)
    if isinstance(v, SRef) and v.ty.kind in ("set", "dict"):
        return IterDesc("keys", ref=v, ety=(v.ty.v if v.ty.kind == "set" else v.ty.k))
    if isinstance(v, SView):
        if v.kind == "keys":
            return IterDesc("keys", ref=v.d, ety=v.d.ty.k)
        if v.kind == "items":
            return IterDesc("items", ref=v.d, ety=v.d.ty.k)
        return IterDesc("values", ref=v.d, ety=v.d.ty.k)
    if isinstance(v, SRange):
        lo, hi = z3.simplify(v.lo.t), z3.simplify(v.hi.t)
        if z3.is_int_value(lo) and z3.is_int_value(hi):
            return IterDesc("concrete", items=[SInt(i) for i in range(lo.as_long(), hi.as_long())])
        return IterDesc("range", lo=v.lo, hi=v.hi)
    if isinstance(v, SEnumerate):
        inner = describe_iter(eng, st, v.inner)
        if inner.kind == "concrete":
            return IterDesc("concrete", items=[STuple([SInt(i + v.start), x]) for i, x in enumerate(inner.items)])
        if inner.kind in ("list", "range"):
            return IterDesc("enumerate", inner=inner, start=v.start)
        raise Unsupported("enumerate over unordered collection")
    if isinstance(v, SZip):
        parts = [describe_iter(eng, st, p) for p in v.parts]
        if all(p.kind == "concrete" for p in parts) and not v.strict:
            n = min(len(p.items) for p in parts)
            return IterDesc("concrete", items=[STuple([p.items[i] for p in parts]) for i in range(n)])
        return IterDesc("zip", parts=parts, raw=v.parts, strict=v.strict)
    if isinstance(v, (sym.SOpaque, SAny)):
        v = models.ghost_iterator(eng, st, v)
    if isinstance(v, SIter):
        return IterDesc("iter", it=v)
    if isinstance(v, models.SConstMapLike) if hasattr(models, "SConstMapLike") else False:
        pass
    from .engine import SConstMap
    if isinstance(v, SConstMap):
        return IterDesc("concrete", items=[k for k, _ in v.items])
    raise Unsupported(f"iteration over {type(v).__name__}")


def _run_body(eng, body, st, fi):
    return eng.ex_block(body, st, fi)


def exec_loop(ver, eng, rep, c, node, st: State, fi, k):
    is_for = isinstance(node, ast.For)
    invs = c.invariants.get(k, []) if (c is not None and k is not None) else []
    if is_for:
        out = []
        for s, itv in eng.ev(node.iter, st, fi):
            if s.exc is not None:
                out.append(Outcome(s, "raise"))
                continue
            desc = describe_iter(eng, s, itv)
            if desc.kind == "concrete":
                out.extend(_unroll(eng, node, s, fi, desc.items))
            elif not invs:
                raise Unsupported(f"loop at line {node.lineno} over a symbolic collection needs an invariant")
            else:
                out.extend(_cut_loop(ver, eng, rep, c, node, s, fi, k, invs, desc))
        return out
    if not invs:
        raise Unsupported(f"while loop at line {node.lineno} needs an invariant")
    return _cut_loop(ver, eng, rep, c, node, st, fi, k, invs, None)


def _unroll(eng, node, st, fi, items):
    out = []
    pending = [st]
    for item in items:
        nxt = []
        for s in pending:
            for s2 in eng.assign(node.target, item, s, fi):
                if s2.exc is not None:
                    out.append(Outcome(s2, "raise"))
                    continue
                for o in eng.ex_block(node.body, s2, fi):
                    if o.kind in ("next", "continue"):
                        nxt.append(o.st)
                    elif o.kind == "break":
                        out.append(Outcome(o.st, "next"))
                    else:
                        out.append(o)
        pending = nxt
    for s in pending:
        if node.orelse:
            out.extend(eng.ex_block(node.orelse, s, fi))
        else:
            out.append(Outcome(s, "next"))
    return out


def _assigned_in(node) -> set[str]:
    names = set()
    for n in ast.walk(node):
        if isinstance(n, ast.Name) and isinstance(n.ctx, ast.Store):
            names.add(n.id)
        elif isinstance(n, ast.ExceptHandler) and n.name:
            names.add(n.name)
    return names


def _consts_of(t, acc=None):
    acc = set() if acc is None else acc
    seen = set()
    stack = [t]
    while stack:
        x = stack.pop()
        if x.get_id() in seen:
            continue
        seen.add(x.get_id())
        if z3.is_const(x) and x.decl().kind() == z3.Z3_OP_UNINTERPRETED:
            acc.add(x.decl().name())
        elif z3.is_quantifier(x):
            stack.append(x.body())
        else:
            stack.extend(x.children())
    return acc


def _havoc_local(eng, st, fi, name, like):
    """fresh value of the same static kind as `like`"""
    from .verify import symbolic_value
    from .engine import SBytes
    if isinstance(like, (sym.SFunc, sym.SBuiltin, sym.SClass, sym.SModule)):
        return like
    if isinstance(like, STuple):
        return STuple([_havoc_local(eng, st, fi, name, x) for x in like.items])
    ty = getattr(like, "ty", ANY)
    if isinstance(like, SIter):
        return like  # iterator position lives on the heap (field __it_pos)
    return symbolic_value(eng, st, name, ty)


def _cut_loop(ver, eng, rep, c, node, st: State, fi, k, invs, desc):
    from .verify import spec_eval
    is_for = desc is not None
    fr = st.frames[fi]
    lets = c.lets
    old = ver._old
    # ---- ghost iteration variables -------------------------------------------------------------
    idx_name, seen_name = f"loop{k}_index", f"loop{k}_seen"
    if is_for:
        if desc.kind in ("list", "range", "enumerate", "zip", "iter"):
            fr.vars[idx_name] = SInt(0)
        else:
            fr.vars[seen_name] = st.new_container(TSet(desc.ety))
        if desc.kind in ("list", "keys", "items", "values") and isinstance(getattr(desc, "ref", None), SRef):
            fr.vars[f"loop{k}_iter"] = desc.ref  # ghost: the collection the loop walks (it may have no name in the source)
    # ---- invariant on entry ----------------------------------------------------------------------
    for cl in invs:
        g = spec_eval(eng, st, fi, cl.expr, lets, old=old)
        ver._ob(rep, c, f"invariant-entry loop{k}", cl, st, g, len(rep.obligations), top=False)
    # ---- fixpoint for the write set --------------------------------------------------------------
    assigned = _assigned_in(node) | ({idx_name} if idx_name in fr.vars else set())
    assigned = {n for n in assigned if True}
    extra_fields: set[str] = set()
    extra_refs: list = []
    events = False
    explicit = c.loop_modifies.get(k, [])
    values_of: list = []
    for m in explicit:
        if isinstance(m, ast.Constant) and isinstance(m.value, str):
            if m.value == "events":
                events = True
            else:
                extra_fields.add(m.value)
        elif isinstance(m, ast.Call) and isinstance(m.func, ast.Name) and m.func.id == "values_of":
            saved = eng.pure
            eng.pure = True
            try:
                (s_, v_), = eng.ev(m.args[0], st.copy(), fi)
                from .verify import _keep_axioms
                _keep_axioms(st, s_)
            finally:
                eng.pure = saved
            values_of.append(v_)
        else:
            saved = eng.pure
            eng.pure = True
            try:
                (s_, v_), = eng.ev(m, st.copy(), fi)
                from .verify import _keep_axioms
                _keep_axioms(st, s_)
            finally:
                eng.pure = saved
            extra_refs.append(v_.t)
    base = st
    must_cache: dict = {}
    local_ty: dict = {}
    for round_no in range(8):
        hs, fresh_consts = _havocked(eng, base, fi, assigned, extra_fields, extra_refs, events, values_of, desc, k, local_ty)
        # assume invariants
        for cl in invs:
            hs.assume(spec_eval(eng, hs, fi, cl.expr, lets, old=old))
        probe = hs.copy()
        w0f, w0c, e0 = set(probe.written_fields), len(probe.written_containers), probe.ev_len
        probe.written_fields = set()
        step = _iteration(eng, node, probe, fi, desc, k, dry=True)
        new_fields, new_refs, new_events = set(), [], False
        a0 = len(getattr(probe, "alloc_log", ()))
        for o in step["all"]:
            new_fields |= set(o.st.written_fields)
            born = {z3.simplify(x).get_id() for x in getattr(o.st, "alloc_log", ())[a0:]}  # allocated inside this iteration: not loop state
            for r in o.st.written_containers[w0c:]:
                if z3.simplify(r).get_id() not in born:
                    new_refs.append(r)
            if not z3.eq(z3.simplify(o.st.ev_len), z3.simplify(e0)):
                new_events = True
        grew = False
        # static kinds of the locals at the loop head: a local is havocked at the type of its value on ENTRY only if every iteration
        # leaves a value of that same type in it; otherwise it is widened (declared annotation, else the union of what was seen)
        for o in step["back"]:
            fr_end = o.st.frames[fi]
            for name in sorted(assigned):
                if name not in base.frames[fi].vars or name not in fr_end.vars:
                    continue
                if isinstance(base.frames[fi].vars[name], (sym.SFunc, sym.SBuiltin, sym.SClass, sym.SModule, SIter)):
                    continue
                t_cur = local_ty.get(name, _ty_of(base.frames[fi].vars[name]))
                t_end = _ty_of(fr_end.vars[name])
                if t_end is None or _covers(t_cur, t_end):
                    continue
                local_ty[name] = _declared_local_type(eng, ver, name, fr.module) or _join(t_cur, t_end)
                grew = True
        if not new_fields <= extra_fields:
            extra_fields |= new_fields
            grew = True
        if new_events and not events:
            events = True
            grew = True
        for r in new_refs:
            rs = z3.simplify(r)
            if any(z3.eq(rs, z3.simplify(e)) for e in extra_refs):
                continue
            if any(_is_value_of(hs, rs, d) or z3.eq(rs, z3.simplify(d.t)) for d in values_of):
                continue  # (syntactic test first: the solver-backed tests below are expensive when they fail)
            key = rs.sexpr()
            if key not in must_cache:
                # allocated inside the iteration? then it is not loop state (usually decided by the quantifier-free part: try that first)
                must_cache[key] = "fresh" if (hs.must_qf(rs >= hs.heap.next_ref) or hs.must(rs >= hs.heap.next_ref)) else \
                    ("alias" if any(hs.must(rs == e) for e in extra_refs) else "state")
            if must_cache[key] in ("fresh", "alias"):
                continue  # alias: the same container reached through a syntactically different (post-havoc) term
            if _consts_of(rs) & fresh_consts:
                raise Unsupported(f"loop at line {node.lineno} writes a container that depends on the iteration "
                                  f"({rs.sexpr()[:80]}); declare loop_modifies({k}, values_of(..))")
            extra_refs.append(rs)
            grew = True
        if not grew:
            break
    else:
        raise Unsupported("loop write-set fixpoint did not converge")
    # ---- the real step from the havocked state -----------------------------------------------------
    hs, _ = _havocked(eng, base, fi, assigned, extra_fields, extra_refs, events, values_of, desc, k, local_ty)
    for cl in invs:
        hs.assume(spec_eval(eng, hs, fi, cl.expr, lets, old=old))
    step = _iteration(eng, node, hs, fi, desc, k, dry=False)
    out = []
    if not [o for o in step["back"] if o.st.feasible()] and k not in (c.opts.get("loop_never_repeats") or []):
        # no path through the body reaches the loop head again: either the loop really cannot repeat (declare it:
        # option(loop_never_repeats=[k])) or the executor lost the paths - then the invariant would never be checked
        raise Unsupported(f"loop {k} at line {node.lineno}: no feasible path through the body returns to the loop head (vacuity guard)")
    for o in step["back"]:
        # end of an iteration: invariant must be re-established; the path ends here
        for cl in invs:
            g = spec_eval(eng, o.st, fi, cl.expr, lets, old=old)
            ver._ob(rep, c, f"invariant-preserved loop{k}", cl, o.st, g, len(rep.obligations), top=False)
    for o in step["exit"]:
        out.append(o)
    return out


def _ty_of(v):
    if isinstance(v, (sym.SFunc, sym.SBuiltin, sym.SClass, sym.SModule, SIter)):
        return None
    return getattr(v, "ty", ANY)


def _alts(t):
    return list(t.alts) if t.kind == "union" else [t]


def _covers(a, b):
    """every value of static type b is a value of static type a (syntactic)"""
    if a.kind == "any":
        return True
    if b.kind == "any":
        return False
    ra = {repr(x) for x in _alts(a)}
    return all(repr(x) in ra for x in _alts(b))


def _join(a, b):
    if a.kind == "any" or b.kind == "any":
        return ANY
    out, seen = [], set()
    for x in _alts(a) + _alts(b):
        if repr(x) not in seen:
            seen.add(repr(x))
            out.append(x)
    return out[0] if len(out) == 1 else sym.TUnion(out)


def _declared_local_type(eng, ver, name, module):
    """annotation of the local in the verified function (`x: T = ..`), if any"""
    fn = getattr(ver, "_fn_node", None)
    if fn is None:
        return None
    for n in ast.walk(fn):
        if isinstance(n, ast.AnnAssign) and isinstance(n.target, ast.Name) and n.target.id == name:
            try:
                t = eng.fe.parse_type(n.annotation, module)
            except Exception:
                return None
            return t
    return None


def _is_value_of(st, rs, d):
    """is container ref rs syntactically a value read from dict d?  (select(cmap(d), key)) -- conservative syntactic test"""
    txt = rs.sexpr()
    return f"{d.t.sexpr()}" in txt and "Cmap" in txt or False


def _havocked(eng, base: State, fi, assigned, fields, refs, events, values_of, desc, k, local_ty=None):
    hs = base.copy()
    fr = hs.frames[fi]
    fresh = set()
    before = set()
    for name in sorted(assigned):
        if name in fr.vars:
            if local_ty and name in local_ty:
                from .verify import symbolic_value
                nv = symbolic_value(eng, hs, name, local_ty[name])  # widened: the loop assigns values of another type than the entry value's
            else:
                nv = _havoc_local(eng, hs, fi, name, fr.vars[name])
            fr.vars[name] = nv
            try:
                fresh |= _consts_of(nv.val())
            except Exception:
                pass
        # names first assigned inside the loop stay unbound/bound as they are: a read before assignment in the body
        # is caught by the definite-assignment check on the first iteration path
    for f in sorted(fields):
        hs.heap.fields[f] = z3.Const(sym.fresh_name(f"F_{f}"), z3.ArraySort(sym.IntS, Val))
    if eng.contracts is not None:
        for name, a in eng.contracts.aggregates.items():
            if set(a["fields"]) & set(fields) or f"__in_{a['over']}" in fields:
                hs.ghost["agg:" + name] = sym.fresh_int("agg_" + name)
    for r in refs:
        hs.heap.c_dom = z3.Store(hs.heap.c_dom, r, sym.fresh_const("hdom", sym.SetS))
        hs.heap.c_map = z3.Store(hs.heap.c_map, r, sym.fresh_const("hmap", sym.MapS))
        hs.heap.c_len = z3.Store(hs.heap.c_len, r, sym.fresh_int("hlen"))
        hs.heap.c_seq = z3.Store(hs.heap.c_seq, r, sym.fresh_const("hseq", sym.SeqArrS))
    new_heaps = []
    for d in values_of:
        # every container stored as a value of dict d may have changed; d itself too
        nd, nm, nl, ns = (z3.Const(sym.fresh_name("Cdom"), hs.heap.c_dom.sort()), z3.Const(sym.fresh_name("Cmap"), hs.heap.c_map.sort()),
                          z3.Const(sym.fresh_name("Clen"), hs.heap.c_len.sort()), z3.Const(sym.fresh_name("Cseq"), hs.heap.c_seq.sort()))
        r = sym.fresh_int("r")
        kk = sym.fresh_val("k")
        # containers that are not (old or new) values of d and not d itself are unchanged: expressed by an owner ghost
        # owned = allocated since the loop was entered, or held as a value of d when the loop was entered
        bdom, bmap = z3.Select(base.heap.c_dom, d.t), z3.Select(base.heap.c_map, d.t)
        base_next = base.heap.next_ref

        def owner(r_, bdom=bdom, bmap=bmap, base_next=base_next, kk=kk):
            held = z3.Exists([kk], z3.And(z3.Select(bdom, kk), Val.is_ref(z3.Select(bmap, kk)), Val.rid(z3.Select(bmap, kk)) == r_))
            return z3.Or(r_ >= base_next, held)
        hs.assume(z3.ForAll([r], z3.Implies(z3.Not(z3.Or(owner(r), r == d.t)), z3.And(
            z3.Select(nd, r) == z3.Select(hs.heap.c_dom, r), z3.Select(nm, r) == z3.Select(hs.heap.c_map, r),
            z3.Select(nl, r) == z3.Select(hs.heap.c_len, r), z3.Select(ns, r) == z3.Select(hs.heap.c_seq, r)))))
        hs.ghost.setdefault("owners", []).append((d, owner))
        hs.heap.c_dom, hs.heap.c_map, hs.heap.c_len, hs.heap.c_seq = nd, nm, nl, ns
        new_heaps.append((nm, ns))
    if events:
        n = sym.fresh_int("evn")
        hs.assume(n >= base.ev_len)
        kx = sym.fresh_int("k")
        na = sym.fresh_const("events", sym.SeqArrS)
        hs.assume(z3.ForAll([kx], z3.Implies(z3.And(kx >= 0, kx < base.ev_len), z3.Select(na, kx) == z3.Select(base.ev_arr, kx))))
        hs.ev_len, hs.ev_arr = n, na
        hs.havoc_ev_set()
    # objects may have been allocated by earlier iterations
    na = z3.Int(sym.fresh_name("alloc"))
    hs.assume(na >= hs.heap.next_ref)
    hs.heap.next_ref = na
    for nm, ns in new_heaps:
        # closure of the havocked heap (same statement as state.closure_axioms for the initial heap): whatever is stored was allocated
        c_, k_, i_ = z3.Int(sym.fresh_name("cl!c")), z3.Const(sym.fresh_name("cl!k"), Val), z3.Int(sym.fresh_name("cl!i"))
        e1, e2 = z3.Select(z3.Select(nm, c_), k_), z3.Select(z3.Select(ns, c_), i_)
        hs.assume(z3.ForAll([c_, k_], z3.And(Val.rid(e1) >= 0, Val.rid(e1) < na), patterns=[e1]))
        hs.assume(z3.ForAll([c_, i_], z3.And(Val.rid(e2) >= 0, Val.rid(e2) < na), patterns=[e2]))
    # automatic invariants of the ghost iteration variables
    idx_name, seen_name = f"loop{k}_index", f"loop{k}_seen"
    if desc is not None:
        if idx_name in fr.vars:
            i = fr.vars[idx_name].t
            hs.assume(i >= 0)
            fresh |= _consts_of(i)
            n = _length_of(eng, hs, desc)
            if n is not None:
                hs.assume(i <= n)
        if seen_name in fr.vars:
            seen = fr.vars[seen_name]
            sd = sym.fresh_const("seen", sym.SetS)
            hs.heap.c_dom = z3.Store(hs.heap.c_dom, seen.t, sd)
            hs.heap.c_len = z3.Store(hs.heap.c_len, seen.t, sym.fresh_int("seenlen"))
            x = sym.fresh_val("x")
            hs.assume(z3.ForAll([x], z3.Implies(z3.Select(sd, x), z3.Select(hs.dom(desc.ref.t), x))))
            hs.assume(hs.container_wf(seen.t))
    return hs, fresh


def _length_of(eng, st, desc):
    if desc.kind == "list":
        st.assume(st.clen(desc.ref.t) >= 0)
        return st.clen(desc.ref.t)
    if desc.kind == "range":
        return z3.If(desc.hi.t - desc.lo.t > 0, desc.hi.t - desc.lo.t, 0)
    if desc.kind == "enumerate":
        return _length_of(eng, st, desc.inner)
    if desc.kind == "iter":
        return None
    if desc.kind == "zip":
        return None
    return None


def _elem_at(eng, st, desc, i):
    """(has_next: z3 Bool, element SV) of an ordered iterable at position i"""
    if desc.kind == "list":
        n = st.clen(desc.ref.t)
        return i < n, models.wrap_elem(eng, st, z3.Select(st.cseq(desc.ref.t), i), desc.ref.ty.v)
    if desc.kind == "range":
        return desc.lo.t + i < desc.hi.t, SInt(desc.lo.t + i)
    if desc.kind == "enumerate":
        h, e = _elem_at(eng, st, desc.inner, i)
        return h, STuple([SInt(i + desc.start), e])
    raise Unsupported(f"element of {desc.kind}")


def _iteration(eng, node, st: State, fi, desc, k, dry):
    """one symbolic loop step from state st (already havocked + invariant assumed).
    returns {'back': outcomes that reach the loop head again, 'exit': outcomes leaving the loop, 'all': both}"""
    back, exit_, allo = [], [], []
    fr = st.frames[fi]
    idx_name, seen_name = f"loop{k}_index", f"loop{k}_seen"

    def after_body(o: Outcome, advance):
        if o.kind in ("next", "continue"):
            advance(o.st)
            back.append(Outcome(o.st, "next"))
        elif o.kind == "break":
            exit_.append(Outcome(o.st, "next"))
        else:
            exit_.append(o)
        allo.append(o)

    def leave(s):
        if node.orelse:
            for o in eng.ex_block(node.orelse, s, fi):
                exit_.append(o)
                allo.append(o)
        else:
            o = Outcome(s, "next")
            exit_.append(o)
            allo.append(o)

    if desc is None:  # while
        for s, cv in eng.ev(node.test, st, fi):
            if s.exc is not None:
                o = Outcome(s, "raise")
                exit_.append(o)
                allo.append(o)
                continue
            for s2, side in eng.branch(s, eng.truth(s, cv)):
                if side:
                    for o in eng.ex_block(node.body, s2, fi):
                        after_body(o, lambda s3: None)
                else:
                    leave(s2)
        return {"back": back, "exit": exit_, "all": allo}

    if desc.kind in ("list", "range", "enumerate"):
        i = fr.vars[idx_name].t
        has, elem = _elem_at(eng, st, desc, i)
        for s, more in eng.branch(st, has):
            if not more:
                leave(s)
                continue
            def adv(s3, i=i):
                s3.frames[fi].vars[idx_name] = SInt(i + 1)
            for s2 in eng.assign(node.target, elem, s, fi):
                if s2.exc is not None:
                    o = Outcome(s2, "raise")
                    exit_.append(o)
                    allo.append(o)
                    continue
                for o in eng.ex_block(node.body, s2, fi):
                    after_body(o, adv)
        return {"back": back, "exit": exit_, "all": allo}

    if desc.kind == "zip":
        # CPython pull order: first iterator first; stops at the first exhausted one (later ones are not pulled);
        # strict=True raises ValueError on a length mismatch
        i = fr.vars[idx_name].t
        states = [(st, [])]
        stopped = []
        for pos, (p, raw) in enumerate(zip(desc.parts, desc.raw)):
            nxt = []
            for s, acc in states:
                if p.kind == "iter":
                    res = models.b_next(eng, s, [p.it], {})
                    for s2, v in res:
                        if s2.exc is not None and s2.exc.ci.name == "StopIteration":
                            s2.exc = None
                            stopped.append((s2, pos))
                        elif s2.exc is not None:
                            o = Outcome(s2, "raise")
                            exit_.append(o)
                            allo.append(o)
                        else:
                            nxt.append((s2, acc + [v]))
                else:
                    has, elem = _elem_at(eng, s, p, i)
                    for s2, more in eng.branch(s, has):
                        if more:
                            nxt.append((s2, acc + [elem]))
                        else:
                            stopped.append((s2, pos))
            states = nxt
        for s, pos in stopped:
            if desc.strict:
                # zip(strict=True): after the first exhausted iterator, the others must be exhausted too
                if pos > 0:
                    leave_or_raise = eng.raise_(s, "ValueError", "zip() argument is shorter")
                    o = Outcome(leave_or_raise, "raise")
                    exit_.append(o)
                    allo.append(o)
                    continue
                # pos == 0 exhausted: every other iterator must also be exhausted, else ValueError (pulls one element)
                ok_states = [s]
                for p in desc.parts[1:]:
                    nn = []
                    for s1 in ok_states:
                        if p.kind == "iter":
                            for s2, v in models.b_next(eng, s1, [p.it], {}):
                                if s2.exc is not None and s2.exc.ci.name == "StopIteration":
                                    s2.exc = None
                                    nn.append(s2)
                                elif s2.exc is None:
                                    o = Outcome(eng.raise_(s2, "ValueError", "zip() argument is longer"), "raise")
                                    exit_.append(o)
                                    allo.append(o)
                        else:
                            has, _ = _elem_at(eng, s1, p, i)
                            for s2, more in eng.branch(s1, has):
                                if more:
                                    o = Outcome(eng.raise_(s2, "ValueError", "zip() argument is longer"), "raise")
                                    exit_.append(o)
                                    allo.append(o)
                                else:
                                    nn.append(s2)
                    ok_states = nn
                for s1 in ok_states:
                    leave(s1)
            else:
                leave(s)
        def adv(s3, i=i):
            s3.frames[fi].vars[idx_name] = SInt(i + 1)
        for s, vals in states:
            for s2 in eng.assign(node.target, STuple(vals), s, fi):
                if s2.exc is not None:
                    o = Outcome(s2, "raise")
                    exit_.append(o)
                    allo.append(o)
                    continue
                for o in eng.ex_block(node.body, s2, fi):
                    after_body(o, adv)
        return {"back": back, "exit": exit_, "all": allo}

    if desc.kind == "iter":
        i = fr.vars[idx_name].t
        def adv(s3, i=i):
            s3.frames[fi].vars[idx_name] = SInt(i + 1)
        for s, v in models.b_next(eng, st, [desc.it], {}):
            if s.exc is not None and s.exc.ci.name == "StopIteration":
                s.exc = None
                leave(s)
            elif s.exc is not None:
                o = Outcome(s, "raise")
                exit_.append(o)
                allo.append(o)
            else:
                for s2 in eng.assign(node.target, v, s, fi):
                    for o in eng.ex_block(node.body, s2, fi):
                        after_body(o, adv)
        return {"back": back, "exit": exit_, "all": allo}

    # unordered: keys / items / values of a set or dict
    seen = fr.vars[seen_name]
    d = desc.ref
    dom, sdom = st.dom(d.t), st.dom(seen.t)
    st.assume(st.container_wf(d.t))
    for s, done in eng.branch(st, sdom == dom):
        if done:
            leave(s)
            continue
        x = sym.fresh_val("pick")
        s.assume(z3.And(z3.Select(s.dom(d.t), x), z3.Not(z3.Select(s.dom(seen.t), x))))
        kty = desc.ety
        s.assume(sym.type_constraint(x, kty, eng.reg))
        key = models.wrap_elem(eng, s, x, kty)
        if desc.kind == "keys":
            elem = key
        else:
            val = models.wrap_elem(eng, s, z3.Select(s.cmap(d.t), x), d.ty.v)
            elem = val if desc.kind == "values" else STuple([key, val])
        def adv(s3, x=x, seen=seen):
            # the seen-set is ghost state: written without touching the frame bookkeeping
            dd = s3.dom(seen.t)
            s3.heap.c_len = z3.Store(s3.heap.c_len, seen.t, s3.clen(seen.t) + 1)
            s3.heap.c_dom = z3.Store(s3.heap.c_dom, seen.t, z3.Store(dd, x, True))
        for s2 in eng.assign(node.target, elem, s, fi):
            if s2.exc is not None:
                o = Outcome(s2, "raise")
                exit_.append(o)
                allo.append(o)
                continue
            for o in eng.ex_block(node.body, s2, fi):
                after_body(o, adv)
    return {"back": back, "exit": exit_, "all": allo}
