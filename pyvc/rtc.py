"""rtc: the SAME sidecar contracts evaluated at run time around the REAL function (CPython), used
 (a) to replay solver counterexamples on the real code, and (b) by the bounded stand-ins.
Never counted as proof.  Clauses that cannot be evaluated concretely (ghost state, unbounded quantifiers with no candidate
universe) are reported as 'skipped', not as passed.
"""
from __future__ import annotations

import ast
import copy
import importlib
import sys
import traceback
from unittest import mock


class NotEvaluable(Exception):
    pass


def _import_module(name):
    return importlib.import_module(name)


# ---- values from counterexample JSON ---------------------------------------------------------------
class Builder:
    def __init__(self, default_module=None):
        self.refs = {}
        self.default_module = default_module

    def cls(self, name, module):
        for mname in [module, self.default_module]:
            if not mname:
                continue
            try:
                m = _import_module(mname)
            except Exception:
                continue
            if hasattr(m, name):
                return getattr(m, name)
        raise NotEvaluable(f"class {name} not importable")

    def build(self, d):
        if isinstance(d, (int, str, bool)) or d is None:
            return d
        if isinstance(d, list):
            return [self.build(x) for x in d]
        if not isinstance(d, dict):
            return d
        if "__tuple__" in d:
            return tuple(self.build(x) for x in d["__tuple__"])
        if "__enum__" in d:
            c = self.cls(d["__enum__"], d.get("module"))
            return c[d["member"]] if isinstance(d["member"], str) else list(c)[0]
        if "__dict__" in d:
            out = {}
            for k, v in d["__dict__"]:
                out[self.build(k)] = self.build(v)
            return out
        if "__set__" in d:
            return {self.build(x) for x in d["__set__"]}
        if "__list__" in d:
            return [self.build(x) for x in d["__list__"]]
        if "__bytes_len__" in d:
            return b"\x00" * max(0, min(d["__bytes_len__"], 1 << 16))
        if "__opaque__" in d or "__unknown__" in d or "__truncated__" in d or "__error__" in d:
            return mock.MagicMock()
        if "__class__" in d and "__ref__" not in d:  # record
            c = self.cls(d["__class__"], d.get("module"))
            fields = {k: self.build(v) for k, v in d["fields"].items()}
            try:
                return c(**fields)
            except Exception:
                o = object.__new__(c)
                for k, v in fields.items():
                    object.__setattr__(o, k, v)
                return o
        if "__ref__" in d:
            rid = d["__ref__"]
            if rid in self.refs:
                return self.refs[rid]
            if "__class__" not in d:
                o = mock.MagicMock()
                self.refs[rid] = o
                return o
            try:
                c = self.cls(d["__class__"], d.get("module"))
                o = object.__new__(c)
            except NotEvaluable:
                o = mock.MagicMock()
                c = None
            self.refs[rid] = o
            for k, v in d.get("fields", {}).items():
                try:
                    object.__setattr__(o, k, self.build(v))
                except Exception:
                    pass
            return o
        return mock.MagicMock()


# ---- concrete evaluation of clauses -----------------------------------------------------------------
class _OldCollector(ast.NodeTransformer):
    def __init__(self):
        self.olds = []

    def visit_Call(self, node):
        if isinstance(node.func, ast.Name) and node.func.id == "old" and len(node.args) == 1:
            self.olds.append(node.args[0])
            return ast.copy_location(ast.Name(id=f"__old_{len(self.olds) - 1}", ctx=ast.Load()), node)
        return self.generic_visit(node)


def _universe(ns):
    """candidate values for bounded quantifier evaluation: everything hashable found in the arguments"""
    out = {}

    def walk(x, depth=0):
        if depth > 4:
            return
        try:
            hash(x)
            if not isinstance(x, mock.Mock):
                out.setdefault(type(x).__name__, set()).add(x)
        except TypeError:
            pass
        if isinstance(x, dict):
            for k, v in list(x.items()):
                walk(k, depth + 1)
                walk(v, depth + 1)
        elif isinstance(x, (list, tuple, set, frozenset)):
            for y in x:
                walk(y, depth + 1)
        elif hasattr(x, "__dict__") and not isinstance(x, (mock.Mock, type)) and not callable(x):
            for v in list(vars(x).values()):
                walk(v, depth + 1)

    for v in ns.values():
        walk(v)
    return out


def spec_namespace(module_ns, args, result=None, universe=None):
    uni = universe if universe is not None else {}

    def candidates(t):
        name = t if isinstance(t, str) else getattr(t, "__name__", str(t))
        vals = set(uni.get(name, ()))
        if name == "str":
            vals |= {"", "a"}
        if name == "int":
            vals |= {0, 1, -1}
        return list(vals)

    def forall(*a):
        *tys, f = a
        import itertools
        return all(f(*xs) for xs in itertools.product(*[candidates(t) for t in tys]))

    def exists(*a):
        *tys, f = a
        import itertools
        return any(f(*xs) for xs in itertools.product(*[candidates(t) for t in tys]))

    def nope(*a, **k):
        raise NotEvaluable("ghost function")

    ns = dict(module_ns)
    ns.update({
        "implies": lambda a, b: (not a) or bool(b), "iff": lambda a, b: bool(a) == bool(b), "forall": forall, "exists": exists,
        "result": lambda: result, "same": lambda a, b: a is b or a == b, "typed": lambda x, t: x, "isascii": lambda s: s.isascii(),
        "is_type": lambda x, t: True, "locked": lambda l: l.locked(), "key_of": nope, "held": nope, "owner_of": nope, "fresh": nope,
        "events_len": nope, "event": nope, "ev": nope, "logged": nope,
    })
    ns.update(args)
    return ns


def eval_clause(expr, lets, ns_pre, ns_post_factory):
    """returns True / False, raises NotEvaluable"""
    # inline lets (macros)
    class Inl(ast.NodeTransformer):
        def visit_Name(self, node):
            if node.id in lets and isinstance(node.ctx, ast.Load):
                return self.visit(copy.deepcopy(lets[node.id]))
            return node
    e = Inl().visit(copy.deepcopy(expr))
    oc = _OldCollector()
    e = oc.visit(e)
    olds = {}
    for i, oe in enumerate(oc.olds):
        try:
            olds[f"__old_{i}"] = eval(compile(ast.fix_missing_locations(ast.Expression(oe)), "<old>", "eval"), ns_pre)
        except NotEvaluable:
            raise
        except Exception as ex:
            raise NotEvaluable(f"old(): {type(ex).__name__}: {ex}")
    ns = ns_post_factory()
    ns.update(olds)
    try:
        return bool(eval(compile(ast.fix_missing_locations(ast.Expression(e)), "<clause>", "eval"), ns))
    except NotEvaluable:
        raise
    except Exception as ex:
        raise NotEvaluable(f"{type(ex).__name__}: {ex}")


def run_concrete(db, target: str, inputs: dict, fe=None):
    """run the real function (or harness) of `target` on inputs (cex JSON); evaluate its contract.
    returns dict(verdict='violated'|'holds'|'not-evaluable', failed=[...], skipped=[...], observed=...)"""
    c = db.get(target)
    is_h = target.startswith("harness:")
    h = db.harnesses[target.split(":", 1)[1]] if is_h else None
    if c is not None and c.observes:
        # the clause talks about results of external calls (socket / poller / clock): a concrete run would make the REAL calls
        return {"verdict": "not-evaluable", "reason": "contract observes results of external calls; not replayable outside a stand-in"}
    modname = h.module if is_h else target.split(":")[0]
    mod = _import_module(modname)
    b = Builder(modname)
    try:
        args = {k: b.build(v) for k, v in inputs.items()}
    except NotEvaluable as e:
        return {"verdict": "not-evaluable", "reason": str(e)}
    pre_args = copy.deepcopy({k: v for k, v in args.items()}) if _copyable(args) else dict(args)
    uni = _universe(args)
    ns_pre = spec_namespace(vars(mod), pre_args, universe=uni)
    failed, skipped, checked = [], [], 0
    # preconditions must hold, otherwise the input is not a witness
    for cl in c.requires:
        try:
            if not eval_clause(cl.expr, c.lets, ns_pre, lambda: dict(ns_pre)):
                return {"verdict": "not-a-witness", "reason": f"requires({cl.src}) is false on the input"}
        except NotEvaluable as e:
            skipped.append(f"requires {cl.src[:60]}: {e}")
    exc = None
    result = None
    local_ns = None
    try:
        if is_h:
            local_ns = dict(vars(mod))
            local_ns.update(args)
            code = compile(ast.fix_missing_locations(ast.Module(body=h.fn.body, type_ignores=[])), f"<harness {h.name}>", "exec")
            exec(code, local_ns)
        else:
            qual = target.split(":")[1]
            obj = mod
            parts = qual.split(".")
            for p in parts[:-1]:
                obj = getattr(obj, p)
            fn = getattr(obj, parts[-1])
            result = fn(**args) if "self" not in args else fn(**args)
    except Exception as e:  # noqa
        exc = e
        tb = traceback.extract_tb(e.__traceback__)
        if isinstance(e, (AttributeError, TypeError)) and ("Mock" in str(e) or "object has no attribute" in str(e)):
            # the pre-state rebuilt from the model is incomplete (fields the contract does not mention): a harness artefact
            return {"verdict": "not-evaluable", "reason": f"incomplete rebuilt pre-state: {type(e).__name__}: {e}"}
    observed = f"{type(exc).__name__}: {exc}" if exc is not None else f"returned {result!r}"[:200]
    post_args = dict(args)
    if local_ns is not None:
        for k, v in local_ns.items():
            if k not in vars(mod) or local_ns[k] is not vars(mod).get(k):
                post_args[k] = v

    def ns_post():
        return spec_namespace(vars(mod), post_args, result=result, universe={**uni, **_universe(post_args)})
    if exc is not None:
        allowed, any_eval = False, False
        for en, cl in list(c.raises) + list(c.may_raise):
            ecls = getattr(__import__("builtins"), en, None) or vars(mod).get(en)
            if ecls is None or not isinstance(exc, ecls):
                continue
            try:
                any_eval = True
                if eval_clause(cl.expr, c.lets, ns_pre, lambda: dict(ns_pre)):
                    allowed = True
            except NotEvaluable as e:
                skipped.append(f"when {cl.src[:60]}: {e}")
                allowed = True  # cannot tell: do not accuse
        checked += 1
        if not allowed:
            failed.append(f"unexpected {type(exc).__name__} (not permitted by any raises/may_raise clause on this input)")
    else:
        for cl in c.ensures:
            try:
                checked += 1
                if not eval_clause(cl.expr, c.lets, ns_pre, ns_post):
                    failed.append(f"ensures({cl.src}) [{cl.tag}]")
            except NotEvaluable as e:
                skipped.append(f"ensures {cl.src[:60]}: {e}")
        for en, cl in c.raises:
            try:
                checked += 1
                if eval_clause(cl.expr, c.lets, ns_pre, lambda: dict(ns_pre)):
                    failed.append(f"must raise {en} when {cl.src} [{cl.tag}] but returned normally")
            except NotEvaluable as e:
                skipped.append(f"raises {cl.src[:60]}: {e}")
    verdict = "violated" if failed else ("holds" if checked and not skipped else ("holds-partially" if checked else "not-evaluable"))
    return {"verdict": verdict, "failed": failed, "skipped": skipped, "observed": observed}


def _copyable(args):
    try:
        copy.deepcopy(args)
        return True
    except Exception:
        return False
