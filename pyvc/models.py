"""Models of Python builtins, containers, constructors and the contract-language functions.

Every model states the CPython behaviour it encodes; anything not modelled raises Unsupported
(=> the obligation is undecided, never refuted).
"""
from __future__ import annotations

import ast
import z3

from . import sym
from .state import EMPTY_SET, Frame, SExc, State, Unsupported
from .sym import (ANY, BOOL, INT, NONE, NONEV, OPAQUE, STR, SAny, SBool, SBuiltin, SClass, SEnum, SFunc, SInt,
                  SModule, SNone, SOpaque, SRec, SRef, SStr, STuple, SV, TClass, TDict, TList, TSet, TTuple, TUnion,
                  Val, VL)


class SView(SV):
    """dict view: kind in keys/values/items"""

    def __init__(self, kind, d: SRef):
        self.kind, self.d = kind, d

    def val(self):
        raise Unsupported("dict view as value")


class SEnumerate(SV):
    def __init__(self, inner, start=0):
        self.inner, self.start = inner, start

    def val(self):
        raise Unsupported("enumerate as value")


class SZip(SV):
    def __init__(self, parts, strict=False):
        self.parts, self.strict = parts, strict

    def val(self):
        raise Unsupported("zip as value")


class SRange(SV):
    def __init__(self, lo, hi):
        self.lo, self.hi = lo, hi

    def val(self):
        raise Unsupported("range as value")


class SGen(SV):
    """result of a generator expression / generator call, materialised lazily as a list ref"""

    def __init__(self, lst: SRef):
        self.lst = lst

    def val(self):
        raise Unsupported("generator as value")


# ==============================================================================================
# containers
def elem_ty(ty):
    return getattr(ty, "v", ANY)


def new_list(eng, st: State, items, ty=None) -> SRef:
    if ty is None:
        ety = items[0].ty if items and all(repr(getattr(i, "ty", ANY)) == repr(getattr(items[0], "ty", ANY)) for i in items) else ANY
        ty = TList(ety)
    r = st.alloc()
    seq = z3.K(sym.IntS, Val.none)
    for i, v in enumerate(items):
        seq = z3.Store(seq, i, _store_val(v))
    st.heap.c_seq = z3.Store(st.heap.c_seq, r, seq)
    st.heap.c_len = z3.Store(st.heap.c_len, r, z3.IntVal(len(items)))
    return SRef(r, ty)


def _store_val(v):
    from .engine import SBytes, SConstMap
    if isinstance(v, (SFunc, SBuiltin, SConstMap, SView, SGen)):
        raise Unsupported(f"storing {type(v).__name__} in a container")
    return v.val()


def new_set(eng, st, items, ty=None) -> SRef:
    if ty is None:
        ty = TSet(items[0].ty if items else ANY)
    ref = st.new_container(ty)
    for v in items:
        set_add(eng, st, ref, v)
    return ref


def new_dict(eng, st, pairs, ty=None) -> SRef:
    if ty is None:
        if pairs:
            k0, v0 = pairs[0]
            vt = v0.ty if all(repr(getattr(v, "ty", ANY)) == repr(getattr(v0, "ty", ANY)) for _, v in pairs) else ANY
            ty = TDict(getattr(k0, "ty", ANY), vt)
        else:
            ty = TDict(ANY, ANY)
    ref = st.new_container(ty)
    for k, v in pairs:
        dict_set(eng, st, ref, k, v)
    return ref


def set_add(eng, st, ref, v):
    r = ref.t
    k = _store_val(v)
    d = st.dom(r)
    st.assume(st.container_wf(r))
    st.set_len(r, z3.If(z3.Select(d, k), st.clen(r), st.clen(r) + 1))
    st.set_dom(r, z3.Store(d, k, True))


def _owning(eng, ref):
    o = getattr(ref, "origin", None)
    if o is not None and eng.contracts is not None and o in eng.contracts.owning:
        return o
    return None


def dict_set(eng, st, ref, k, v):
    r = ref.t
    kt = _store_val(k)
    o = _owning(eng, ref)
    if o is not None and isinstance(v, SRef):
        # ownership ghost: the value object remembers under which key of the owning dict it is held
        # (an object previously held under this key is released)
        prev = z3.Select(st.cmap(r), kt)
        was = z3.Select(st.dom(r), kt)
        f_in = st.field(f"__in_{o}")
        st.heap.fields[f"__in_{o}"] = z3.Store(z3.If(was, z3.Store(f_in, Val.rid(prev), Val.bool(z3.BoolVal(False))), f_in), v.t, Val.bool(z3.BoolVal(True)))
        st.heap.fields[f"__key_{o}"] = z3.Store(st.field(f"__key_{o}"), v.t, kt)
        st.written_fields.update({f"__in_{o}", f"__key_{o}"})
        for name, a in eng.contracts.aggregates.items():
            if a["over"] == o:
                gone = z3.If(was, eng.agg_contrib(st, name, Val.rid(prev)), 0)
                st.ghost["agg:" + name] = eng.agg_value(st, name) - gone + eng.agg_contrib(st, name, v.t)
    d = st.dom(r)
    st.assume(st.container_wf(r))
    st.set_len(r, z3.If(z3.Select(d, kt), st.clen(r), st.clen(r) + 1))
    st.set_dom(r, z3.Store(d, kt, True))
    st.set_map(r, z3.Store(st.cmap(r), kt, _store_val(v)))


def dict_del(eng, st, ref, kt):
    r = ref.t
    d = st.dom(r)
    o = _owning(eng, ref)
    if o is not None:
        prev = z3.Select(st.cmap(r), kt)
        f_in = st.field(f"__in_{o}")
        st.heap.fields[f"__in_{o}"] = z3.If(z3.Select(d, kt), z3.Store(f_in, Val.rid(prev), Val.bool(z3.BoolVal(False))), f_in)
        st.written_fields.add(f"__in_{o}")
        for name, a in eng.contracts.aggregates.items():
            if a["over"] == o:
                c_prev = eng.agg_contrib(st, name, Val.rid(prev))
                st.assume(z3.Implies(z3.And(z3.Select(d, kt), c_prev >= 0), eng.agg_value(st, name) >= c_prev))  # A-sum (see Engine.agg_member_fact)
                st.ghost["agg:" + name] = eng.agg_value(st, name) - z3.If(z3.Select(d, kt), c_prev, 0)
    st.assume(st.container_wf(r))
    st.set_len(r, z3.If(z3.Select(d, kt), st.clen(r) - 1, st.clen(r)))
    st.set_dom(r, z3.Store(d, kt, False))


CKIND = z3.Function("container_kind", sym.IntS, sym.IntS)
_KIND_CODE = {"dict": 1, "set": 2, "list": 3}


def assume_kind(st, w):
    """well-typedness of the heap, stated per reference: an object is a dict, a set, a list or a class instance - never two of them
    (so a list read from one place and a dict read from another are different objects)"""
    if isinstance(w, SRef):
        code = _KIND_CODE.get(w.ty.kind, 4 if w.ty.kind == "class" else None)
        if code is not None:
            st.assume(CKIND(w.t) == code)


def wrap_elem(eng, st, t, ty):
    w = sym.from_val(t, ty, eng.reg)
    if isinstance(w, SRef):
        st.assume(z3.And(w.t >= 0, w.t < st.heap.next_ref))
        assume_kind(st, w)
    return w


def contains(eng, st, container, item) -> list:
    from .engine import SBytes, SConstMap
    if isinstance(container, SAny):
        out = []
        for s, w in eng.narrow(st, container):
            if isinstance(w, SAny):
                raise Unsupported("`in` on untyped value")
            out.extend(contains(eng, s, w, item))
        return out
    if isinstance(container, SRef) and container.ty.kind in ("dict", "set"):
        return [(st, z3.Select(st.dom(container.t), _store_val(item)))]
    if isinstance(container, SView) and container.kind == "keys":
        return [(st, z3.Select(st.dom(container.d.t), _store_val(item)))]
    if isinstance(container, SView) and container.kind == "values":
        k = sym.fresh_val("k")
        d = container.d
        if eng.pure:
            return [(st, z3.Exists([k], z3.And(z3.Select(st.dom(d.t), k), z3.Select(st.cmap(d.t), k) == _store_val(item))))]
        # exec mode: introduce a witness boolean with both directions axiomatised
        b = sym.fresh_bool("invalues")
        st.assume(b == z3.Exists([k], z3.And(z3.Select(st.dom(d.t), k), z3.Select(st.cmap(d.t), k) == _store_val(item))))
        return [(st, b)]
    if isinstance(container, SRef) and container.ty.kind == "list":
        i = sym.fresh_int("i")
        body = z3.And(i >= 0, i < st.clen(container.t), z3.Select(st.cseq(container.t), i) == _store_val(item))
        if eng.pure:
            return [(st, z3.Exists([i], body))]
        b = sym.fresh_bool("inlist")
        st.assume(b == z3.Exists([i], body))
        return [(st, b)]
    if isinstance(container, STuple):
        return [(st, z3.Or(*[eng.equal(st, x, item) for x in container.items]) if container.items else z3.BoolVal(False))]
    if isinstance(container, SConstMap):
        return [(st, z3.Or(*[eng.equal(st, k, item) for k, _ in container.items]) if container.items else z3.BoolVal(False))]
    if isinstance(container, SStr) and isinstance(item, SStr):
        return [(st, z3.Contains(container.t, item.t))]
    raise Unsupported(f"`in` on {type(container).__name__}")


def getitem(eng, st, v, k) -> list:
    from .engine import SBytes, SConstMap
    from . import bytesalg
    if isinstance(v, SGen) and eng.pure:
        v = v.lst
    if isinstance(v, SAny):
        out = []
        for s, w in eng.narrow(st, v):
            if isinstance(w, SAny):
                raise Unsupported("subscript of untyped value")
            out.extend(getitem(eng, s, w, k))
        return out
    if isinstance(v, SRef) and v.ty.kind == "dict":
        kt = _store_val(k)
        present = z3.Select(st.dom(v.t), kt)
        vt = v.ty.v
        if eng.pure:
            return [(st, wrap_elem(eng, st, z3.Select(st.cmap(v.t), kt), vt))]
        out = []
        for s, side in eng.branch(st, present):
            if side:
                out.append((s, wrap_elem(eng, s, z3.Select(s.cmap(v.t), kt), vt)))
            elif getattr(v.ty, "default", None) is not None:
                nv = make_default(eng, s, v.ty.default)
                dict_set(eng, s, v, k, nv)
                out.append((s, nv))
            else:
                out.append((eng.raise_(s, "KeyError", "dict lookup", [k]), None))
        return out
    if isinstance(v, SRef) and v.ty.kind == "list":
        out = []
        for s, i in eng.as_int(st, k):
            if s.exc is not None:
                out.append((s, None))
                continue
            n = s.clen(v.t)
            s.assume(n >= 0)
            idx = z3.If(i.t < 0, i.t + n, i.t)
            if eng.pure:
                if not z3.is_int_value(z3.simplify(i.t)) and s.must_qf(i.t >= 0):
                    idx = i.t  # a guard of the clause makes the index non-negative: keep the term trigger-friendly
                out.append((s, wrap_elem(eng, s, z3.Select(s.cseq(v.t), idx), v.ty.v)))
                continue
            for s2, side in eng.branch(s, z3.And(idx >= 0, idx < n)):
                if side:
                    out.append((s2, wrap_elem(eng, s2, z3.Select(s2.cseq(v.t), idx), v.ty.v)))
                else:
                    out.append((eng.raise_(s2, "IndexError", "list index"), None))
        return out
    if isinstance(v, STuple):
        if isinstance(k, SInt) and z3.is_int_value(z3.simplify(k.t)):
            i = z3.simplify(k.t).as_long()
            if -len(v.items) <= i < len(v.items):
                return [(st, v.items[i])]
            return [(eng.raise_(st, "IndexError", "tuple index"), None)]
        raise Unsupported("symbolic tuple index")
    if isinstance(v, SConstMap):
        # lookup with a possibly symbolic key: fork over the concrete keys
        out = []
        rest = st
        for ck, cv in v.items:
            if rest is None:
                break
            br = eng.branch(rest, eng.equal(rest, ck, k)) if not eng.pure else None
            if br is None:
                raise Unsupported("const map lookup in spec")
            rest = None
            for s, side in br:
                if side:
                    out.append((s, cv))
                else:
                    rest = s
        if rest is not None:
            out.append((eng.raise_(rest, "KeyError", "const map"), None))
        return out
    if isinstance(v, SBytes):
        raise Unsupported("bytes index (non-slice)")
    if isinstance(v, SStr):
        for s, i in eng.as_int(st, k):
            return [(s, SStr(z3.SubString(v.t, i.t, 1)))]
    if isinstance(v, SClass):
        return [(st, v)]  # Generic[...] subscription
    raise Unsupported(f"subscript of {type(v).__name__}")


def setitem(eng, st, obj, k, v) -> list[State]:
    if isinstance(obj, SAny):
        out = []
        for s, w in eng.narrow(st, obj):
            out.extend(setitem(eng, s, w, k, v))
        return out
    if isinstance(obj, SRef) and obj.ty.kind == "dict":
        dict_set(eng, st, obj, k, v)
        return [st]
    if isinstance(obj, SRef) and obj.ty.kind == "list":
        out = []
        for s, i in eng.as_int(st, k):
            if s.exc is not None:
                out.append(s)
                continue
            n = s.clen(obj.t)
            s.assume(n >= 0)
            idx = z3.If(i.t < 0, i.t + n, i.t)
            for s2, side in eng.branch(s, z3.And(idx >= 0, idx < n)):
                if side:
                    s2.set_seq(obj.t, z3.Store(s2.cseq(obj.t), idx, _store_val(v)))
                    out.append(s2)
                else:
                    out.append(eng.raise_(s2, "IndexError", "list assignment"))
        return out
    raise Unsupported(f"item assignment on {type(obj).__name__}")


def slice_(eng, st, v, lo, hi, step):
    from .engine import SBytes
    from . import bytesalg
    if step is not None:
        raise Unsupported("slice step")
    if isinstance(v, SBytes):
        return bytesalg.slice_(eng, st, v, lo, hi)
    if isinstance(v, SStr) and not (z3.is_string_value(z3.simplify(v.t)) and all(x is None or z3.is_int_value(z3.simplify(x.t)) for x in (lo, hi))):
        # slices of symbolic strings are kept abstract (an uninterpreted function of string and bounds): no obligation in the
        # repository depends on their characters, and the sequence theory makes every query on the path expensive
        f = z3.Function("py_str_slice", sym.StrS, sym.IntS, sym.IntS, sym.StrS)
        return [(st, SStr(f(v.t, lo.t if lo is not None else z3.IntVal(0), hi.t if hi is not None else z3.IntVal(-1))))]
    if isinstance(v, SStr):
        n = z3.Length(v.t)
        lo_t = lo.t if lo is not None else z3.IntVal(0)
        hi_t = hi.t if hi is not None else n
        lo_t = z3.If(lo_t < 0, z3.If(lo_t + n < 0, 0, lo_t + n), z3.If(lo_t > n, n, lo_t))
        hi_t = z3.If(hi_t < 0, z3.If(hi_t + n < 0, 0, hi_t + n), z3.If(hi_t > n, n, hi_t))
        return [(st, SStr(z3.SubString(v.t, lo_t, z3.If(hi_t > lo_t, hi_t - lo_t, 0))))]
    if isinstance(v, STuple):
        def c(x, d):
            if x is None:
                return d
            t = z3.simplify(x.t)
            if not z3.is_int_value(t):
                raise Unsupported("symbolic tuple slice")
            return t.as_long()
        return [(st, STuple(v.items[c(lo, None):c(hi, None)]))]
    if isinstance(v, SRef) and v.ty.kind == "list":
        return [(st, list_slice(eng, st, v, lo, hi))]
    if isinstance(v, SBuiltin) and getattr(v, "as_value", None) is not None:
        v = v.as_value
    if isinstance(v, SOpaque):
        # a slice of a value from outside the repository (the buffer of a shared-memory segment): an opaque value, function of value and bounds
        from .engine import OPQ_SLICE
        return [(st, SOpaque(OPQ_SLICE(v.t, lo.val() if lo is not None else Val.none, hi.val() if hi is not None else Val.none), label=(v.label or "opaque") + "[:]"))]
    raise Unsupported(f"slice of {type(v).__name__}")


def list_slice(eng, st, v, lo, hi):
    n = st.clen(v.t)
    st.assume(n >= 0)
    lo_t = lo.t if lo is not None else z3.IntVal(0)
    hi_t = hi.t if hi is not None else n
    lo_t = z3.If(lo_t < 0, z3.If(lo_t + n < 0, 0, lo_t + n), z3.If(lo_t > n, n, lo_t))
    hi_t = z3.If(hi_t < 0, z3.If(hi_t + n < 0, 0, hi_t + n), z3.If(hi_t > n, n, hi_t))
    r = st.alloc()
    ln = z3.If(hi_t > lo_t, hi_t - lo_t, 0)
    seq = sym.fresh_const("slice", sym.SeqArrS)
    i = sym.fresh_int("i")
    st.assume(z3.ForAll([i], z3.Implies(z3.And(i >= 0, i < ln), z3.Select(seq, i) == z3.Select(st.cseq(v.t), i + lo_t))))
    st.heap.c_seq = z3.Store(st.heap.c_seq, r, seq)
    st.heap.c_len = z3.Store(st.heap.c_len, r, ln)
    return SRef(r, v.ty)


def container_equal(eng, st, a, b):
    if a.ty.kind == "list":
        i = sym.fresh_int("i")
        return z3.And(st.clen(a.t) == st.clen(b.t),
                      z3.ForAll([i], z3.Implies(z3.And(i >= 0, i < st.clen(a.t)), z3.Select(st.cseq(a.t), i) == z3.Select(st.cseq(b.t), i))))
    if a.ty.kind == "set":
        return st.dom(a.t) == st.dom(b.t)
    k = sym.fresh_val("k")
    return z3.And(st.dom(a.t) == st.dom(b.t),
                  z3.ForAll([k], z3.Implies(z3.Select(st.dom(a.t), k), z3.Select(st.cmap(a.t), k) == z3.Select(st.cmap(b.t), k))))


def make_default(eng, st, d):
    """product of a defaultdict factory"""
    if isinstance(d, sym.Ty):
        if d.kind in ("dict", "set"):
            return st.new_container(d)
        if d.kind == "list":
            return new_list(eng, st, [], d)
        if d.kind == "int":
            return SInt(0)
    if isinstance(d, SFunc):
        res = eng.inline_call(st, d, [], {})
        if len(res) != 1 or res[0][0].exc is not None:
            raise Unsupported("defaultdict factory forks")
        return res[0][1]
    raise Unsupported(f"defaultdict factory {d!r}")


def list_concat(eng, st, a, b):
    r = st.alloc()
    la, lb = st.clen(a.t), st.clen(b.t)
    st.assume(z3.And(la >= 0, lb >= 0))
    seq = sym.fresh_const("cat", sym.SeqArrS)
    i = sym.fresh_int("i")
    st.assume(z3.ForAll([i], z3.Implies(z3.And(i >= 0, i < la), z3.Select(seq, i) == z3.Select(st.cseq(a.t), i))))
    st.assume(z3.ForAll([i], z3.Implies(z3.And(i >= 0, i < lb), z3.Select(seq, i + la) == z3.Select(st.cseq(b.t), i))))
    st.heap.c_seq = z3.Store(st.heap.c_seq, r, seq)
    st.heap.c_len = z3.Store(st.heap.c_len, r, la + lb)
    return SRef(r, a.ty)


def list_extend(eng, st, lst, other):
    if isinstance(other, SRef) and other.ty.kind == "list":
        la, lb = st.clen(lst.t), st.clen(other.t)
        st.assume(z3.And(la >= 0, lb >= 0))
        seq = sym.fresh_const("ext", sym.SeqArrS)
        i = sym.fresh_int("i")
        st.assume(z3.ForAll([i], z3.Implies(z3.And(i >= 0, i < la), z3.Select(seq, i) == z3.Select(st.cseq(lst.t), i))))
        # (stated with the plain index on the extended list, so that reads of the new list trigger it)
        st.assume(z3.ForAll([i], z3.Implies(z3.And(i >= la, i < la + lb), z3.Select(seq, i) == z3.Select(st.cseq(other.t), i - la))))
        st.set_seq(lst.t, seq)
        st.set_len(lst.t, la + lb)
        return [(st, NONEV)]
    if isinstance(other, STuple):
        for it in other.items:
            list_append(eng, st, lst, it)
        return [(st, NONEV)]
    raise Unsupported("list.extend with non-list")


def list_repeat(eng, st, lst, k):
    """lst * k: a new list, max(k, 0) repetitions of lst (element j is lst[j mod len(lst)])"""
    n = st.clen(lst.t)
    st.assume(n >= 0)
    r = st.alloc()
    reps = z3.If(k.t > 0, k.t, z3.IntVal(0))
    seq = sym.fresh_const("rep", sym.SeqArrS)
    i = sym.fresh_int("i")
    nc = z3.simplify(n)
    if z3.is_int_value(nc) and nc.as_long() == 1:
        st.assume(z3.ForAll([i], z3.Implies(z3.And(i >= 0, i < reps), z3.Select(seq, i) == z3.Select(st.cseq(lst.t), 0))))
        total = reps
    elif z3.is_int_value(nc) and nc.as_long() == 0:
        total = z3.IntVal(0)
    else:
        q = sym.fresh_int("q")
        total = sym.fresh_int("replen")
        st.assume(total == n * reps)
        st.assume(z3.ForAll([i, q], z3.Implies(z3.And(i >= 0, i < n, q >= 0, q < reps), z3.Select(seq, q * n + i) == z3.Select(st.cseq(lst.t), i))))
    st.heap.c_seq = z3.Store(st.heap.c_seq, r, seq)
    st.heap.c_len = z3.Store(st.heap.c_len, r, total)
    return SRef(r, lst.ty)


def list_append(eng, st, lst, v):
    n = st.clen(lst.t)
    st.assume(n >= 0)
    st.set_seq(lst.t, z3.Store(st.cseq(lst.t), n, _store_val(v)))
    st.set_len(lst.t, n + 1)


def set_binop(eng, st, op, a, b):
    ref = st.new_container(a.ty)
    da, db = st.dom(a.t), st.dom(b.t)
    k = sym.fresh_val("k")
    nd = sym.fresh_const("setop", sym.SetS)
    if isinstance(op, ast.Sub):
        body = z3.And(z3.Select(da, k), z3.Not(z3.Select(db, k)))
    elif isinstance(op, ast.BitOr):
        body = z3.Or(z3.Select(da, k), z3.Select(db, k))
    else:
        body = z3.And(z3.Select(da, k), z3.Select(db, k))
    st.assume(z3.ForAll([k], z3.Select(nd, k) == body))
    st.heap.c_dom = z3.Store(st.heap.c_dom, ref.t, nd)
    ln = sym.fresh_int("card")
    st.heap.c_len = z3.Store(st.heap.c_len, ref.t, ln)
    st.assume(st.container_wf(ref.t))
    return ref


# ==============================================================================================
# builtins
def _b(name):
    def deco(fn):
        BUILTINS[name] = fn
        return fn
    return deco


BUILTINS: dict = {}


def builtin(eng, name):
    if name in TYPE_NAMES:
        return STypeName(name)
    if name in BUILTINS:
        return SBuiltin(name, BUILTINS[name])
    if name in ("True", "False", "None"):
        return {"True": SBool(True), "False": SBool(False), "None": NONEV}[name]
    ci = eng.reg.get(name)
    if ci is not None and ci.kind == "exception":
        return SClass(ci)
    if name in TYPE_NAMES:
        return STypeName(name)
    return None


class STypeName(SV):
    """int / str / dict ... used as values (isinstance, defaultdict(dict), int.from_bytes)"""

    def __init__(self, name):
        self.name = name

    def val(self):
        return Val.cls(z3.IntVal(-1 - TYPE_NAMES.index(self.name)))


TYPE_NAMES = ["int", "str", "bool", "bytes", "dict", "list", "set", "tuple", "float", "object", "memoryview", "type", "frozenset"]


OPQ_LEN = z3.Function("opaque_len", Val, sym.IntS)


@_b("len")
def b_len(eng, st, args, kw):
    from .engine import SBytes, SConstMap
    from . import bytesalg
    (v,) = args
    if isinstance(v, SGen):
        v = v.lst  # a generator that was run into the list of what it yields (see Engine.inline_call / comprehension): in specs it IS that list
    if isinstance(v, SAny):
        out = []
        for s, w in eng.narrow(st, v):
            if isinstance(w, SAny):
                raise Unsupported("len of untyped value")
            out.extend(b_len(eng, s, [w], kw))
        return out
    if isinstance(v, SStr):
        return [(st, SInt(z3.Length(v.t)))]
    if isinstance(v, SBytes):
        return [(st, SInt(bytesalg.blen(v)))]
    if isinstance(v, STuple):
        return [(st, SInt(len(v.items)))]
    if isinstance(v, SRef) and v.ty.kind in ("dict", "set"):
        st.assume(st.container_wf(v.t))
        return [(st, SInt(st.clen(v.t)))]
    if isinstance(v, SRef) and v.ty.kind == "list":
        st.assume(st.list_wf(v.t))
        return [(st, SInt(st.clen(v.t)))]
    if isinstance(v, SView):
        st.assume(st.container_wf(v.d.t))
        return [(st, SInt(st.clen(v.d.t)))]
    if isinstance(v, SConstMap):
        return [(st, SInt(len(v.items)))]
    if isinstance(v, SOpaque):
        # bytes / memoryview / other sized value held as an opaque field: its length is a (non-negative) function of the value
        n = bytesalg.blob_len(v.t)  # the same length function as for a whole blob held as SBytes: one byte string, one length
        st.assume(n >= 0)
        return [(st, SInt(n))]
    raise Unsupported(f"len of {type(v).__name__}")


def class_matches(eng, st, v, cls) -> z3.ExprRef:
    """z3 Bool: isinstance(v, cls) for one class-like cls"""
    from .engine import SBytes, SExcVal, SUnionType
    if isinstance(cls, SUnionType):
        return z3.Or(*[class_matches(eng, st, v, a) for a in cls.alts])
    if isinstance(cls, STuple):
        return z3.Or(*[class_matches(eng, st, v, a) for a in cls.items])
    if isinstance(cls, SNone):
        return z3.BoolVal(isinstance(v, SNone)) if not isinstance(v, SAny) else Val.is_none(v.t)
    if isinstance(cls, STypeName):
        n = cls.name
        if isinstance(v, SAny):
            t = v.t
            return {"int": z3.Or(Val.is_int(t), Val.is_bool(t)), "str": Val.is_str(t), "bool": Val.is_bool(t),
                    "tuple": Val.is_tup(t), "object": z3.BoolVal(True)}.get(n, None) if n in ("int", "str", "bool", "tuple", "object") else _unsup(f"isinstance {n} on untyped")
        table = {"int": (SInt, SBool), "str": (SStr,), "bool": (SBool,), "tuple": (STuple,), "bytes": (SBytes,), "memoryview": (SBytes,)}
        if n in table:
            if n == "int" and isinstance(v, SEnum) and "int" in v.ci.bases:
                return z3.BoolVal(True)
            return z3.BoolVal(isinstance(v, table[n]))
        if n in ("dict", "list", "set"):
            return z3.BoolVal(isinstance(v, SRef) and v.ty.kind == n)
        if n == "object":
            return z3.BoolVal(True)
        raise Unsupported(f"isinstance against {n}")
    if isinstance(cls, SClass):
        ci = cls.ci
        subs = eng.reg.subclasses(ci)
        if isinstance(v, SRec):
            return z3.BoolVal(eng.reg.is_subclass(v.ci, ci))
        if isinstance(v, SEnum):
            return z3.BoolVal(eng.reg.is_subclass(v.ci, ci))
        if isinstance(v, SRef) and v.ty.kind == "class":
            vci = eng.reg.get(v.ty.name)
            if vci is not None and eng.reg.is_subclass(vci, ci):
                return z3.BoolVal(True)
            if vci is not None and not eng.reg.is_subclass(ci, vci):
                return z3.BoolVal(False)
            return z3.Or(*[z3.Select(st.heap.dyn_cls, v.t) == s.id for s in subs])
        if isinstance(v, SExcVal):
            return z3.BoolVal(eng.reg.is_subclass(v.exc.ci, ci))
        if isinstance(v, SAny):
            t = v.t
            alts = []
            for s in subs:
                if s.kind == "record":
                    alts.append(z3.And(Val.is_rec(t), Val.rcls(t) == s.id))
                elif s.kind == "enum":
                    alts.append(z3.And(Val.is_enum(t), Val.ecls(t) == s.id))
                elif s.kind in ("object", "external"):
                    alts.append(z3.And(Val.is_ref(t), z3.Select(st.heap.dyn_cls, Val.rid(t)) == s.id))
            return z3.Or(*alts) if alts else z3.BoolVal(False)
        return z3.BoolVal(False)
    if isinstance(cls, SOpaque):
        return z3.Bool(sym.fresh_name("isinstance_opq"))
    raise Unsupported(f"isinstance against {cls!r}")


def _unsup(msg):
    raise Unsupported(msg)


@_b("isinstance")
def b_isinstance(eng, st, args, kw):
    v, cls = args
    return [(st, SBool(class_matches(eng, st, v, cls)))]


@_b("hasattr")
def b_hasattr(eng, st, args, kw):
    v, name = args
    n = z3.simplify(name.t)
    if not z3.is_string_value(n):
        raise Unsupported("hasattr with symbolic name")
    attr = n.as_string()
    if isinstance(v, SAny):
        out = []
        for s, w in eng.narrow(st, v):
            if isinstance(w, SAny):
                out.append((s, SBool(False)))  # primitives / unknown: the attributes asked for in the repo are dataclass fields
            else:
                out.extend(b_hasattr(eng, s, [w, name], kw))
        return out
    if isinstance(v, SRec):
        return [(st, SBool(attr in v.fields or attr in v.ci.methods or attr in v.ci.class_attrs))]
    if isinstance(v, SRef) and v.ty.kind == "class":
        ci = eng.reg.get(v.ty.name)
        if attr in ci.fields or attr in ci.methods:
            return [(st, SBool(True))]
        return [(st, SBool(z3.Bool(f"hasattr!{ci.name}.{attr}")))]
    if isinstance(v, (SStr, SInt, SBool, SNone, STuple)):
        return [(st, SBool(False))]
    raise Unsupported(f"hasattr on {type(v).__name__}")


@_b("type")
def b_type(eng, st, args, kw):
    (v,) = args
    if isinstance(v, SRec) or isinstance(v, SEnum):
        return [(st, SClass(v.ci))]
    if isinstance(v, SAny):
        out = []
        for s, w in eng.narrow(st, v):
            if isinstance(w, SAny):
                out.append((s, SOpaque(label="type(..)")))  # the class of a value we know nothing about: an unconstrained opaque value
                continue
            out.extend(b_type(eng, s, [w], kw))
        return out
    if isinstance(v, SRef) and v.ty.kind == "class":
        ci = eng.reg.get(v.ty.name)
        subs = eng.reg.subclasses(ci)
        if len(subs) == 1:
            return [(st, SClass(ci))]
        out = []
        for sub in subs:
            c = z3.Select(st.heap.dyn_cls, v.t) == sub.id
            if st.feasible([c]):
                s2 = st.copy()
                s2.assume(c)
                out.append((s2, SClass(sub)))
        return out
    if isinstance(v, SInt):
        return [(st, STypeName("int"))]
    if isinstance(v, SStr):
        return [(st, STypeName("str"))]
    if isinstance(v, SBool):
        return [(st, STypeName("bool"))]
    if v is NONEV or type(v).__name__ == "SNone":
        return [(st, STypeName("NoneType"))]
    raise Unsupported(f"type() of {type(v).__name__}")


@_b("int")
def b_int(eng, st, args, kw):
    if not args:
        return [(st, SInt(0))]
    (v,) = args
    if isinstance(v, (SInt, SBool, SEnum, SAny)):
        return eng.as_int(st, v)
    if isinstance(v, SStr):
        # int(str): the inverse of str(int) on strings that ARE the str() of an int; every other string raises ValueError
        # (non-canonical spellings like "+1" or " 1", which int() also accepts, are treated as raising: recorded assumption)
        c = z3.simplify(v.t)
        if z3.is_string_value(c):
            try:
                k = int(c.as_string())
                to_str(eng, st, SInt(k))
                return [(st, SInt(k))]
            except ValueError:
                return [(eng.raise_(st, "ValueError", "int() of a non-number"), None)]
        to_str(eng, st, SInt(z3.Int("is!seed")))  # make sure the inverse-pair axiom is on the path
        r = STR_INT(v.t)
        if eng.pure:
            return [(st, SInt(r))]  # in specifications int(s) is the total abstract function (meaningful where str(int(s)) == s)
        out = []
        for s, side in eng.branch(st, INT_STR(r) == v.t):
            if side:
                out.append((s, SInt(r)))
            else:
                out.append((eng.raise_(s, "ValueError", "int() of a non-number"), None))
        return out
    if isinstance(v, SOpaque):
        return [(st, SInt(sym.fresh_int("int_of_float")))]
    raise Unsupported(f"int() of {type(v).__name__}")


@_b("str")
def b_str(eng, st, args, kw):
    from .engine import SBytes
    from . import bytesalg
    if not args:
        return [(st, SStr(""))]
    if len(args) == 2 and isinstance(args[0], SBytes):
        return bytesalg.decode(eng, st, args[0], args[1])
    return [(st, to_str(eng, st, args[0]))]


@_b("repr")
def b_repr(eng, st, args, kw):
    return [(st, to_str(eng, st, args[0], repr_=True))]


_STRFN = {}
INT_STR = z3.Function("py_int_str", sym.IntS, sym.StrS)
STR_INT = z3.Function("py_str_int", sym.StrS, sym.IntS)


def to_str(eng, st, v, repr_=False) -> SStr:
    """str()/format() of a value: exact for str and int (non-negative via int.to.str, sign handled); every other kind is an
    uninterpreted function of the value (assumed injective only where a contract says so)"""
    from .engine import SExcVal
    if isinstance(v, SStr) and not repr_:
        return v
    if isinstance(v, SInt):
        # str(int) / int(str) are an abstract inverse pair INT_STR / STR_INT (the sequence theory's int.to.str makes every query
        # on the path expensive); decimal literals are tied to it when they meet a literal int
        c = z3.simplify(v.t)
        st.ghost.setdefault("__int_str__", False)
        if not st.ghost["__int_str__"]:
            st.ghost["__int_str__"] = True
            i = z3.Int("is!i")
            st.assume(z3.ForAll([i], STR_INT(INT_STR(i)) == i, patterns=[INT_STR(i)]))
        if z3.is_int_value(c):
            lit = z3.StringVal(str(c.as_long()))
            st.assume(INT_STR(c) == lit)
            return SStr(lit)
        return SStr(INT_STR(v.t))
    if isinstance(v, (SExcVal, SFunc, SBuiltin)):
        return SStr(sym.fresh_str("repr"))
    key = "repr" if repr_ else "str"
    if key not in _STRFN:
        _STRFN[key] = z3.Function(f"py_{key}", Val, sym.StrS)
    try:
        return SStr(_STRFN[key](v.val()))
    except Unsupported:
        return SStr(sym.fresh_str("repr"))


@_b("bool")
def b_bool(eng, st, args, kw):
    return [(st, SBool(eng.truth(st, args[0])))]


@_b("memoryview")
def b_memoryview(eng, st, args, kw):
    return [(st, args[0])]


@_b("bytes")
def b_bytes(eng, st, args, kw):
    from .engine import SBytes
    if len(args) == 1 and isinstance(args[0], SBytes):
        return [(st, args[0])]
    raise Unsupported("bytes() constructor")


def snapshot_list(eng, st, src, ty=None) -> SRef:
    """list(iterable): a fresh list that is a permutation of the iterable's elements"""
    from .engine import SIter
    if isinstance(src, SRef) and src.ty.kind == "list":
        r = st.alloc()
        st.heap.c_seq = z3.Store(st.heap.c_seq, r, st.cseq(src.t))
        st.heap.c_len = z3.Store(st.heap.c_len, r, st.clen(src.t))
        st.assume(st.clen(src.t) >= 0)
        return SRef(r, src.ty)
    if isinstance(src, STuple):
        return new_list(eng, st, src.items)
    if isinstance(src, SGen):
        return src.lst
    if isinstance(src, SView) or (isinstance(src, SRef) and src.ty.kind in ("dict", "set")):
        d = src.d if isinstance(src, SView) else src
        kind = src.kind if isinstance(src, SView) else "keys"
        st.assume(st.container_wf(d.t))
        r = st.alloc()
        seq = sym.fresh_const("snap", sym.SeqArrS)
        n = st.clen(d.t)
        i, j, k = sym.fresh_int("i"), sym.fresh_int("j"), sym.fresh_val("k")
        dom = st.dom(d.t)
        if kind == "keys":
            ety = d.ty.k if d.ty.kind == "dict" else d.ty.v
            st.assume(z3.ForAll([i], z3.Implies(z3.And(i >= 0, i < n), z3.Select(dom, z3.Select(seq, i)))))
            st.assume(z3.ForAll([i, j], z3.Implies(z3.And(i >= 0, i < j, j < n), z3.Select(seq, i) != z3.Select(seq, j))))
            pos = z3.Function(sym.fresh_name("pos"), Val, sym.IntS)
            st.assume(z3.ForAll([k], z3.Implies(z3.Select(dom, k), z3.And(pos(k) >= 0, pos(k) < n, z3.Select(seq, pos(k)) == k))))
        elif kind == "values":
            ety = d.ty.v
            pos = z3.Function(sym.fresh_name("pos"), Val, sym.IntS)
            keyat = z3.Function(sym.fresh_name("keyat"), sym.IntS, Val)
            st.assume(z3.ForAll([i], z3.Implies(z3.And(i >= 0, i < n), z3.And(z3.Select(dom, keyat(i)), z3.Select(seq, i) == z3.Select(st.cmap(d.t), keyat(i)), pos(keyat(i)) == i))))
            st.assume(z3.ForAll([k], z3.Implies(z3.Select(dom, k), z3.And(pos(k) >= 0, pos(k) < n, keyat(pos(k)) == k))))
        else:
            ety = TTuple([d.ty.k, d.ty.v])
            pos = z3.Function(sym.fresh_name("pos"), Val, sym.IntS)
            keyat = z3.Function(sym.fresh_name("keyat"), sym.IntS, Val)
            st.assume(z3.ForAll([i], z3.Implies(z3.And(i >= 0, i < n), z3.And(z3.Select(dom, keyat(i)),
                      z3.Select(seq, i) == Val.tup(VL.cons(keyat(i), VL.cons(z3.Select(st.cmap(d.t), keyat(i)), VL.nil))), pos(keyat(i)) == i))))
            st.assume(z3.ForAll([k], z3.Implies(z3.Select(dom, k), z3.And(pos(k) >= 0, pos(k) < n, keyat(pos(k)) == k))))
        st.heap.c_seq = z3.Store(st.heap.c_seq, r, seq)
        st.heap.c_len = z3.Store(st.heap.c_len, r, n)
        out = SRef(r, TList(ety))
        if kind == "items":
            out.distinct_heads = True  # the keys of one dict: pairwise different first components
        if kind == "keys":
            out.snap_of_keys = dom  # the key set this list enumerates (used by sort_list to state max/min facts directly)
        return out
    raise Unsupported(f"list() of {type(src).__name__}")


@_b("list")
def b_list(eng, st, args, kw):
    if not args:
        return [(st, new_list(eng, st, [], TList(ANY)))]
    return [(st, snapshot_list(eng, st, args[0]))]


@_b("tuple")
def b_tuple(eng, st, args, kw):
    if not args:
        return [(st, STuple([]))]
    if isinstance(args[0], STuple):
        return [(st, args[0])]
    return [(st, snapshot_list(eng, st, args[0]))]


@_b("set")
def b_set(eng, st, args, kw):
    if not args:
        return [(st, st.new_container(TSet(ANY)))]
    src = args[0]
    if isinstance(src, SView) and src.kind == "keys":
        src = src.d
    if isinstance(src, SRef) and src.ty.kind in ("set", "dict"):
        ety = src.ty.v if src.ty.kind == "set" else src.ty.k
        ref = st.new_container(TSet(ety))
        st.assume(st.container_wf(src.t))
        st.heap.c_dom = z3.Store(st.heap.c_dom, ref.t, st.dom(src.t))
        st.heap.c_len = z3.Store(st.heap.c_len, ref.t, st.clen(src.t))
        return [(st, ref)]
    if isinstance(src, STuple):
        return [(st, new_set(eng, st, src.items))]
    if isinstance(src, (SRef, SGen)):
        lst = src.lst if isinstance(src, SGen) else src
        if lst.ty.kind == "list":
            ref = st.new_container(TSet(lst.ty.v))
            nd = sym.fresh_const("setof", sym.SetS)
            k, i = sym.fresh_val("k"), sym.fresh_int("i")
            n = st.clen(lst.t)
            st.assume(n >= 0)
            idx = z3.Function(sym.fresh_name("idx"), Val, sym.IntS)
            st.assume(z3.ForAll([i], z3.Implies(z3.And(i >= 0, i < n), z3.Select(nd, z3.Select(st.cseq(lst.t), i)))))
            st.assume(z3.ForAll([k], z3.Implies(z3.Select(nd, k), z3.And(idx(k) >= 0, idx(k) < n, z3.Select(st.cseq(lst.t), idx(k)) == k))))
            st.heap.c_dom = z3.Store(st.heap.c_dom, ref.t, nd)
            st.heap.c_len = z3.Store(st.heap.c_len, ref.t, sym.fresh_int("card"))
            st.assume(st.container_wf(ref.t))
            return [(st, ref)]
    raise Unsupported(f"set() of {type(src).__name__}")


@_b("dict")
def b_dict(eng, st, args, kw):
    if not args and not kw:
        return [(st, st.new_container(TDict(ANY, ANY)))]
    if len(args) == 1 and isinstance(args[0], SRef) and args[0].ty.kind == "dict" and not kw:
        return [(st, dict_copy(eng, st, args[0]))]
    if len(args) == 1 and isinstance(args[0], SEnumerate) and not kw:
        inner = args[0].inner
        if isinstance(inner, STuple):
            return [(st, new_dict(eng, st, [(SInt(i + args[0].start), v) for i, v in enumerate(inner.items)], TDict(INT, ANY)))]
        if isinstance(inner, SRef) and inner.ty.kind == "list":
            # {i: seq[i]}
            ref = st.new_container(TDict(INT, inner.ty.v))
            n = st.clen(inner.t)
            st.assume(n >= 0)
            nd, nm = sym.fresh_const("edom", sym.SetS), sym.fresh_const("emap", sym.MapS)
            k, i = sym.fresh_val("k"), sym.fresh_int("i")
            st.assume(z3.ForAll([k], z3.Select(nd, k) == z3.And(Val.is_int(k), Val.ival(k) >= args[0].start, Val.ival(k) < n + args[0].start)))
            st.assume(z3.ForAll([i], z3.Implies(z3.And(i >= 0, i < n), z3.Select(nm, Val.int(i + args[0].start)) == z3.Select(st.cseq(inner.t), i))))
            st.heap.c_dom = z3.Store(st.heap.c_dom, ref.t, nd)
            st.heap.c_map = z3.Store(st.heap.c_map, ref.t, nm)
            st.heap.c_len = z3.Store(st.heap.c_len, ref.t, n)
            return [(st, ref)]
    raise Unsupported("dict() constructor form")


def dict_copy(eng, st, d):
    ref = st.new_container(TDict(d.ty.k, d.ty.v))
    st.assume(st.container_wf(d.t))
    st.heap.c_dom = z3.Store(st.heap.c_dom, ref.t, st.dom(d.t))
    st.heap.c_map = z3.Store(st.heap.c_map, ref.t, st.cmap(d.t))
    st.heap.c_len = z3.Store(st.heap.c_len, ref.t, st.clen(d.t))
    return ref


@_b("enumerate")
def b_enumerate(eng, st, args, kw):
    return [(st, SEnumerate(args[0], 0))]


@_b("zip")
def b_zip(eng, st, args, kw):
    strict = False
    if "strict" in kw:
        t = z3.simplify(kw["strict"].t)
        strict = z3.is_true(t)
    return [(st, SZip(list(args), strict))]


@_b("range")
def b_range(eng, st, args, kw):
    if len(args) == 1:
        return [(st, SRange(SInt(0), args[0]))]
    if len(args) == 2:
        return [(st, SRange(args[0], args[1]))]
    raise Unsupported("range with step")


YLEN = z3.Function("yield_len", Val, sym.IntS)
YELEM = z3.Function("yield_elem", Val, sym.IntS, Val)


def ghost_iterator(eng, st, v):
    """an iterator of unknown provenance (what an unknown callable returned): it ranges over a ghost list of unknown, finite
    length and unconstrained elements; its position lives on the heap.  Encoding assumption (listed in the evidence): such a value
    IS an iterator (generator), it is finite, and consuming it has no effect on the state the contracts talk about."""
    from .engine import SIter
    key = "giter:" + z3.simplify(v.val()).sexpr()
    it = st.ghost.get(key)
    if it is None:
        r = st.alloc()
        st.assume(st.clen(r) >= 0)
        # the sequence is a function of the iterator value (so that every state - also the pre-state a `raises` clause is read in -
        # speaks about the same sequence)
        i_ = sym.fresh_int("yi")
        st.assume(st.clen(r) == YLEN(v.val()))
        st.assume(z3.ForAll([i_], z3.Select(st.cseq(r), i_) == YELEM(v.val(), i_)))
        p = st.alloc()
        st.write_field(p, "__it_pos", Val.int(z3.IntVal(0)))
        it = SIter("list", ref=p, lst=SRef(r, TList(ANY)))
        st.ghost[key] = it
        eng.externals_used.add("iterator returned by an unknown callable (ghost list model)")
    return it


def spec_yielded(eng, node, st, fi):
    """yielded(x): the sequence of values the unknown iterator x ranges over (ghost list)"""
    (s, v), = eng.ev(node.args[0], st, fi)
    return [(s, ghost_iterator(eng, s, v).lst)]


def spec_consumed(eng, node, st, fi):
    """consumed(it): how many elements have been pulled from iterator it (a list iterator or an unknown iterator)"""
    from .engine import SIter
    (s, v), = eng.ev(node.args[0], st, fi)
    if isinstance(v, (SOpaque, SAny)):
        v = ghost_iterator(eng, s, v)
    if not isinstance(v, SIter) or v.kind != "list":
        raise Unsupported("consumed() of a non-iterator")
    return [(s, SInt(Val.ival(s.read_field(v.ref, "__it_pos"))))]


@_b("iter")
def b_iter(eng, st, args, kw):
    from .engine import SIter
    (v,) = args
    if isinstance(v, SIter):
        return [(st, v)]
    if isinstance(v, SGen):
        v = v.lst
    if isinstance(v, SRef) and v.ty.kind == "list":
        # iterator object on the heap: (list ref, position)
        r = st.alloc()
        st.write_field(r, "__it_pos", Val.int(z3.IntVal(0)))
        return [(st, SIter("list", ref=r, lst=v))]
    raise Unsupported(f"iter() of {type(v).__name__}")


@_b("next")
def b_next(eng, st, args, kw):
    from .engine import SIter
    it = args[0]
    if isinstance(it, SGen):
        raise Unsupported("next() directly on generator value")
    if isinstance(it, (SOpaque, SAny)):
        it = ghost_iterator(eng, st, it)
    if not isinstance(it, SIter) or it.kind != "list":
        raise Unsupported("next() of non-iterator")
    pos = Val.ival(st.read_field(it.ref, "__it_pos"))
    n = st.clen(it.lst.t)
    st.assume(n >= 0)
    out = []
    for s, side in eng.branch(st, pos < n):
        if side:
            v = wrap_elem(eng, s, z3.Select(s.cseq(it.lst.t), pos), it.lst.ty.v)
            s.write_field(it.ref, "__it_pos", Val.int(pos + 1))
            out.append((s, v))
        elif len(args) > 1:
            out.append((s, args[1]))
        else:
            out.append((eng.raise_(s, "StopIteration"), None))
    return out


@_b("sorted")
def b_sorted(eng, st, args, kw):
    lst = snapshot_list(eng, st, args[0])
    if "key" in kw or "reverse" in kw:
        # sorted(xs, key=f): modelled as SOME permutation of xs - the order imposed by the key is not modelled (an over-approximation:
        # whatever is proved holds for every order, in particular for the sorted one)
        return [(st, permute_list(eng, st, lst))]
    return [(st, sort_list(eng, st, lst, fresh=False))]


def permute_list(eng, st, lst):
    n = st.clen(lst.t)
    old = st.cseq(lst.t)
    new = sym.fresh_const("permuted", sym.SeqArrS)
    perm = z3.Function(sym.fresh_name("perm"), sym.IntS, sym.IntS)
    inv = z3.Function(sym.fresh_name("perminv"), sym.IntS, sym.IntS)
    i = sym.fresh_int("i")
    st.assume(z3.ForAll([i], z3.Implies(z3.And(i >= 0, i < n), z3.And(perm(i) >= 0, perm(i) < n, inv(perm(i)) == i, z3.Select(new, i) == z3.Select(old, perm(i)))),
                        patterns=[z3.Select(new, i)]))
    st.assume(z3.ForAll([i], z3.Implies(z3.And(i >= 0, i < n), z3.And(inv(i) >= 0, inv(i) < n, perm(inv(i)) == i)), patterns=[inv(i)]))
    st.set_seq(lst.t, new)
    return lst


def sort_list(eng, st, lst, fresh=True):
    """in-place model of list.sort() / sorted(): the result is an ordered permutation (positions of equal elements are
    not tracked: stability is irrelevant for the totally ordered keys used in the repo)"""
    n = st.clen(lst.t)
    old = st.cseq(lst.t)
    new = sym.fresh_const("sorted", sym.SeqArrS)
    perm = z3.Function(sym.fresh_name("perm"), sym.IntS, sym.IntS)
    inv = z3.Function(sym.fresh_name("perminv"), sym.IntS, sym.IntS)
    i, j = sym.fresh_int("i"), sym.fresh_int("j")
    st.assume(z3.ForAll([i], z3.Implies(z3.And(i >= 0, i < n), z3.And(perm(i) >= 0, perm(i) < n, inv(perm(i)) == i, z3.Select(new, i) == z3.Select(old, perm(i))))))
    st.assume(z3.ForAll([i], z3.Implies(z3.And(i >= 0, i < n), z3.And(inv(i) >= 0, inv(i) < n, perm(inv(i)) == i))))
    ety = lst.ty.v
    le = val_le(eng, ety, st)
    st.assume(z3.ForAll([i, j], z3.Implies(z3.And(i >= 0, i <= j, j < n), le(z3.Select(new, i), z3.Select(new, j)))))
    # consequences stated explicitly (they follow from the three axioms above; they spare the solver the instantiation chain):
    # every element of the old list is bounded by the last / first element of the sorted one
    st.assume(sym.forall_pat([i], z3.Implies(z3.And(i >= 0, i < n), z3.And(le(z3.Select(old, i), z3.Select(new, n - 1)), le(z3.Select(new, 0), z3.Select(old, i)))),
                             z3.Select(old, i)))
    if getattr(lst, "distinct_heads", False):
        # a permutation of entries with pairwise different first components has pairwise different first components (follows from
        # the permutation axioms above and the items() axioms; stated explicitly to spare the solver the two-step instantiation)
        st.assume(z3.ForAll([i, j], z3.Implies(z3.And(i >= 0, i < j, j < n), VL.hd(Val.targs(z3.Select(new, i))) != VL.hd(Val.targs(z3.Select(new, j))))))
    dom = getattr(lst, "snap_of_keys", None)
    if dom is not None:
        # the sorted enumeration of a key set: its last (first) element is a member that bounds every member from above (below)
        k = sym.fresh_val("k")
        st.assume(z3.Implies(n > 0, z3.And(z3.Select(dom, z3.Select(new, n - 1)), z3.Select(dom, z3.Select(new, 0)))))
        st.assume(sym.forall_pat([k], z3.Implies(z3.And(n > 0, z3.Select(dom, k)), z3.And(le(k, z3.Select(new, n - 1)), le(z3.Select(new, 0), k))),
                                 z3.Select(dom, k)))
    st.set_seq(lst.t, new)
    return lst


STR_LE = z3.Function("str_le", sym.StrS, sym.StrS, sym.BoolS)


def str_order_axioms(st):
    """Python's str ordering enters the proofs only as AN abstract total order shared by code and contracts (z3/cvc5 do not
    decide str.<= under quantifiers); comparisons between two literals are evaluated concretely"""
    if st.ghost.get("__str_order__"):
        return
    st.ghost["__str_order__"] = True
    a, b, c = z3.String("so!a"), z3.String("so!b"), z3.String("so!c")
    st.assume(z3.ForAll([a, b], z3.Or(STR_LE(a, b), STR_LE(b, a)), patterns=[z3.MultiPattern(STR_LE(a, b))]))
    st.assume(z3.ForAll([a, b], z3.Implies(z3.And(STR_LE(a, b), STR_LE(b, a)), a == b), patterns=[z3.MultiPattern(STR_LE(a, b), STR_LE(b, a))]))
    st.assume(z3.ForAll([a, b, c], z3.Implies(z3.And(STR_LE(a, b), STR_LE(b, c)), STR_LE(a, c)), patterns=[z3.MultiPattern(STR_LE(a, b), STR_LE(b, c))]))


def str_le(st, a, b):
    sa, sb = z3.simplify(a), z3.simplify(b)
    if z3.is_string_value(sa) and z3.is_string_value(sb):
        return z3.BoolVal(sa.as_string() <= sb.as_string())
    str_order_axioms(st)
    return STR_LE(a, b)


def val_le(eng, ety, st=None):
    """ordering on Val terms of a given static type"""
    if ety.kind == "str":
        if st is not None:
            str_order_axioms(st)
        return lambda a, b: STR_LE(Val.sval(a), Val.sval(b))
    if ety.kind == "int":
        return lambda a, b: Val.ival(a) <= Val.ival(b)
    if ety.kind == "tuple" and ety.items and ety.items[0].kind in ("str", "int"):
        # lexicographic on the first component, ties arbitrary among later components (sound weakening for distinct keys)
        # (a sorted list of such tuples is therefore known to be ordered by its first components - in the same abstract string order
        # as everywhere else - and nothing is claimed about the order of entries whose first components are equal)
        f = val_le(eng, ety.items[0], st)

        def le(a, b):
            ha, hb = VL.hd(Val.targs(a)), VL.hd(Val.targs(b))
            return f(ha, hb)
        return le
    raise Unsupported(f"ordering of {ety}")


@_b("min")
def b_min(eng, st, args, kw):
    return _minmax(eng, st, args, kw, True)


@_b("max")
def b_max(eng, st, args, kw):
    return _minmax(eng, st, args, kw, False)


def _minmax(eng, st, args, kw, is_min):
    if len(args) >= 2:
        res = [(st, args[0])]
        for nxt in args[1:]:
            new = []
            for s, cur in res:
                for s2, a in eng.as_int(s, cur):
                    for s3, b in eng.as_int(s2, nxt):
                        if s3.exc is not None:
                            new.append((s3, None))
                        else:
                            new.append((s3, SInt(z3.If((b.t < a.t) if is_min else (b.t > a.t), b.t, a.t))))
            res = new
        return res
    (src,) = args
    if isinstance(src, SView) and src.kind == "values" and src.d.ty.v.kind == "int":
        d = src.d
        st.assume(st.container_wf(d.t))
        out = []
        for s, nonempty in eng.branch(st, st.clen(d.t) > 0):
            if not nonempty:
                out.append((eng.raise_(s, "ValueError", "max() of empty"), None))
                continue
            m = sym.fresh_int("ext")
            k, w = sym.fresh_val("k"), sym.fresh_val("w")
            s.assume(z3.ForAll([k], z3.Implies(z3.Select(s.dom(d.t), k),
                     (Val.ival(z3.Select(s.cmap(d.t), k)) >= m) if is_min else (Val.ival(z3.Select(s.cmap(d.t), k)) <= m))))
            wk = sym.fresh_val("witness")
            s.assume(z3.And(z3.Select(s.dom(d.t), wk), Val.ival(z3.Select(s.cmap(d.t), wk)) == m))
            out.append((s, SInt(m)))
        return out
    raise Unsupported("min/max form")


def any_all_genexp(eng, node, st, fi):
    """any(E for x in S if C) / all(..) in executable code.  The generator is evaluated as the LIST of its element values (the supported
    list comprehension); any() is true iff some position holds a truthy value.  CPython stops at the FIRST such position w: positions
    before w hold falsy values.  A walrus element `(name := e)` leaves in `name` the value at w (any true) resp. the value at the last
    position (exhausted: any false, all true) - with no element at all `name` stays as it was."""
    is_any = node.func.id == "any"
    gen = node.args[0]
    elt = gen.elt
    target = None
    if isinstance(elt, ast.NamedExpr):
        target, elt = elt.target.id, elt.value
    lc = ast.ListComp(elt=elt, generators=gen.generators)
    ast.copy_location(lc, gen)
    ast.fix_missing_locations(lc)
    out = []
    for s, lst in eng.ev(lc, st, fi):
        if s.exc is not None:
            out.append((s, None))
            continue
        if isinstance(lst, SGen):
            lst = lst.lst
        if not (isinstance(lst, SRef) and lst.ty.kind == "list"):
            raise Unsupported("any()/all() over a generator that is not list-like")
        n = s.clen(lst.t)
        s.assume(n >= 0)
        seq = s.cseq(lst.t)
        ety = lst.ty.v

        def truthy(state, idx):
            return eng.truth(state, wrap_elem(eng, state, z3.Select(seq, idx), ety))
        w = sym.fresh_int("anyw")
        j = sym.fresh_int("j")
        hit_t = truthy(s, w) if is_any else z3.Not(truthy(s, w))      # the position that stops the scan
        before = truthy(s, j) if is_any else z3.Not(truthy(s, j))
        stop = z3.And(w >= 0, w < n, hit_t, z3.ForAll([j], z3.Implies(z3.And(j >= 0, j < w), z3.Not(before))))
        none = z3.ForAll([j], z3.Implies(z3.And(j >= 0, j < n), z3.Not(before)))
        # fork: the scan stops at some position w / runs to the end
        s_stop, s_end = s, s.copy()
        s_stop.assume(stop)
        s_end.assume(none)
        if s_stop.feasible():
            if target is not None:
                eng.assign_name(s_stop, fi, target, wrap_elem(eng, s_stop, z3.Select(seq, w), ety))
            out.append((s_stop, SBool(z3.BoolVal(is_any))))
        if s_end.feasible():
            if target is not None:
                # exhausted: the name holds the last element if there was one (else it keeps its previous binding / stays unbound)
                for s2, nonempty in eng.branch(s_end, n > 0):
                    if nonempty:
                        eng.assign_name(s2, fi, target, wrap_elem(eng, s2, z3.Select(seq, n - 1), ety))
                    out.append((s2, SBool(z3.BoolVal(not is_any))))
            else:
                out.append((s_end, SBool(z3.BoolVal(not is_any))))
    return out


@_b("open")
def b_open(eng, st, args, kw):
    """open(path, mode): an opaque file handle; the call is logged ("open", path, mode) and may raise what the sidecar declares for `open`"""
    eng.externals_used.add("open")
    st.log_event("open", [a for a in args if not isinstance(a, (SFunc, SBuiltin))])
    return eng.external_outcomes(st, "open", "open")


@_b("any")
def b_any(eng, st, args, kw):
    raise Unsupported("any() over symbolic iterable")


@_b("all")
def b_all(eng, st, args, kw):
    raise Unsupported("all() over symbolic iterable")


@_b("defaultdict")
def b_defaultdict(eng, st, args, kw):
    fac = args[0] if args else None
    if isinstance(fac, STypeName):
        d = {"dict": TDict(ANY, ANY), "set": TSet(ANY), "list": TList(ANY), "int": INT}[fac.name]
    elif isinstance(fac, SFunc):
        d = fac
    else:
        raise Unsupported("defaultdict factory")
    ty = TDict(ANY, d if isinstance(d, sym.Ty) else ANY, default=d)
    return [(st, st.new_container(ty))]


@_b("getattr")
def b_getattr(eng, st, args, kw):
    v, name = args[0], args[1]
    n = z3.simplify(name.t)
    if not z3.is_string_value(n):
        raise Unsupported("getattr with symbolic name")
    res = eng.getattr(st, v, n.as_string())
    if len(args) == 3:
        out = []
        for s, r in res:
            if s.exc is not None and s.exc.ci.name == "AttributeError":
                s.exc = None
                out.append((s, args[2]))
            else:
                out.append((s, r))
        return out
    return res


@_b("eval")
def b_eval(eng, st, args, kw):
    # eval of a type name: an opaque class object (encoding assumption: total on the type names the property admits)
    f = z3.Function("py_eval", Val, sym.IntS)
    return [(st, SOpaque(f(args[0].val()), label="eval"))]


@_b("issubclass")
def b_issubclass(eng, st, args, kw):
    f = z3.Function("py_issubclass", Val, Val, sym.BoolS)
    return [(st, SBool(f(args[0].val(), args[1].val())))]


@_b("replace")
def b_replace(eng, st, args, kw):
    """dataclasses.replace(obj, **changes): a new object of the same class"""
    obj = args[0]
    if not (isinstance(obj, SRef) and obj.ty.kind == "class"):
        raise Unsupported("replace() of non-object")
    ci = eng.reg.get(obj.ty.name)
    r = st.alloc()
    st.heap.dyn_cls = z3.Store(st.heap.dyn_cls, r, z3.Select(st.heap.dyn_cls, obj.t))
    for f, fty in ci.fields.items():
        if f in kw:
            eng.store_field(st, r, f, kw[f])
        else:
            st.write_field(r, f, st.read_field(obj.t, f))
    return [(st, SRef(r, obj.ty))]


@_b("print")
def b_print(eng, st, args, kw):
    return [(st, NONEV)]


@_b("id")
def b_id(eng, st, args, kw):
    return [(st, SInt(sym.fresh_int("id")))]


@_b("time_ns")
def b_time_ns(eng, st, args, kw):
    t = sym.fresh_int("clock")
    v = SInt(t)
    st.ghost.setdefault("obs:time_ns", v)  # the first clock reading of the call can be named by `observes`
    return [(st, v)]


BUILTINS["perf_counter_ns"] = b_time_ns
BUILTINS["monotonic_ns"] = b_time_ns


# ==============================================================================================
# methods on builtin values
def value_method(eng, st, v, attr):
    from .engine import SBytes, SExcVal
    from . import bytesalg
    table = None
    if isinstance(v, SRef) and eng.contracts is not None and getattr(v, "origin", None) in eng.contracts.persistent_fields:
        if attr == "append" and v.ty.kind == "list":
            return SBuiltin("pvector.append", m_pvector_append, self_val=v)
        if attr == "set" and v.ty.kind == "dict":
            return SBuiltin("pmap.set", m_pmap_set, self_val=v)
    if isinstance(v, SRef) and v.ty.kind == "dict":
        table = DICT_METHODS
    elif isinstance(v, SRef) and v.ty.kind == "set":
        table = SET_METHODS
    elif isinstance(v, SRef) and v.ty.kind == "list":
        table = LIST_METHODS
    elif isinstance(v, SStr):
        table = STR_METHODS
    elif isinstance(v, SInt):
        table = INT_METHODS
    elif isinstance(v, SBytes):
        table = bytesalg.BYTES_METHODS
    elif isinstance(v, STypeName):
        table = TYPE_METHODS.get(v.name, {})
    elif isinstance(v, SView):
        table = {}
    elif isinstance(v, SEnum):
        table = {}
    from .engine import SConstMap
    if isinstance(v, SConstMap):
        table = CONSTMAP_METHODS
    if isinstance(v, SRec) and attr == "model_copy":
        return SBuiltin("model_copy", m_model_copy, self_val=v)
    if table is not None and attr in table:
        return SBuiltin(attr, table[attr], self_val=v)
    return None


def m_model_copy(eng, st, args, kw):
    """pydantic BaseModel.model_copy(update={...}): a new model whose fields are the receiver's, overridden by `update`"""
    rec = args[0]
    upd = kw.get("update")
    fields = dict(rec.fields)
    if upd is not None:
        if not (isinstance(upd, SRef) and upd.ty.kind == "dict"):
            raise Unsupported("model_copy(update=non-dict)")
        for f, fty in rec.ci.fields.items():
            kt = Val.str(z3.StringVal(f))
            present = z3.simplify(z3.Select(st.dom(upd.t), kt))
            if z3.is_true(present):
                fields[f] = wrap_elem(eng, st, z3.simplify(z3.Select(st.cmap(upd.t), kt)), fty)
            elif not z3.is_false(present):
                raise Unsupported("model_copy with a symbolic update key")
    return [(st, SRec(rec.ci, fields))]


CONSTMAP_METHODS = {
    "items": lambda eng, st, a, k: [(st, STuple([STuple([x, y]) for x, y in a[0].items]))],
    "keys": lambda eng, st, a, k: [(st, STuple([x for x, _ in a[0].items]))],
    "values": lambda eng, st, a, k: [(st, STuple([y for _, y in a[0].items]))],
}


def m_dict_get(eng, st, args, kw):
    d, k = args[0], args[1]
    default = args[2] if len(args) > 2 else kw.get("default", NONEV)
    kt = _store_val(k)
    present = z3.Select(st.dom(d.t), kt)
    if eng.pure:
        w = wrap_elem(eng, st, z3.Select(st.cmap(d.t), kt), d.ty.v)
        return [(st, eng.ite(st, present, w, default))]
    out = []
    for s, side in eng.branch(st, present):
        out.append((s, wrap_elem(eng, s, z3.Select(s.cmap(d.t), kt), d.ty.v) if side else default))
    return out


def m_dict_pop(eng, st, args, kw):
    d, k = args[0], args[1]
    kt = _store_val(k)
    out = []
    for s, side in eng.branch(st, z3.Select(st.dom(d.t), kt)):
        if side:
            v = wrap_elem(eng, s, z3.Select(s.cmap(d.t), kt), d.ty.v)
            dict_del(eng, s, d, kt)
            out.append((s, v))
        elif len(args) > 2:
            out.append((s, args[2]))
        else:
            out.append((eng.raise_(s, "KeyError", "dict.pop", [k]), None))
    return out


def m_dict_setdefault(eng, st, args, kw):
    d, k, dv = args[0], args[1], (args[2] if len(args) > 2 else NONEV)
    kt = _store_val(k)
    out = []
    for s, side in eng.branch(st, z3.Select(st.dom(d.t), kt)):
        if side:
            out.append((s, wrap_elem(eng, s, z3.Select(s.cmap(d.t), kt), d.ty.v)))
        else:
            dict_set(eng, s, d, k, dv)
            out.append((s, dv))
    return out


def m_dict_update(eng, st, args, kw):
    d = args[0]
    if len(args) == 2 and isinstance(args[1], SRef) and args[1].ty.kind == "dict":
        o = args[1]
        st.assume(st.container_wf(d.t))
        st.assume(st.container_wf(o.t))
        nd, nm = sym.fresh_const("udom", sym.SetS), sym.fresh_const("umap", sym.MapS)
        k = sym.fresh_val("k")
        st.assume(z3.ForAll([k], z3.Select(nd, k) == z3.Or(z3.Select(st.dom(d.t), k), z3.Select(st.dom(o.t), k))))
        st.assume(z3.ForAll([k], z3.Select(nm, k) == z3.If(z3.Select(st.dom(o.t), k), z3.Select(st.cmap(o.t), k), z3.Select(st.cmap(d.t), k))))
        st.set_dom(d.t, nd)
        st.set_map(d.t, nm)
        st.set_len(d.t, sym.fresh_int("card"))
        st.assume(st.container_wf(d.t))
        return [(st, NONEV)]
    for k, v in kw.items():
        dict_set(eng, st, d, SStr(k), v)
    if len(args) == 1:
        return [(st, NONEV)]
    raise Unsupported("dict.update form")


def m_pmap_set(eng, st, args, kw):
    """pyrsistent PMap.set: a NEW map, the receiver is unchanged"""
    d2 = dict_copy(eng, st, args[0])
    dict_set(eng, st, d2, args[1], args[2])
    return [(st, d2)]


def m_pvector_append(eng, st, args, kw):
    """pyrsistent PVector.append: a NEW vector"""
    l2 = snapshot_list(eng, st, args[0])
    list_append(eng, st, l2, args[1])
    return [(st, l2)]


def m_dict_copy(eng, st, args, kw):
    return [(st, dict_copy(eng, st, args[0]))]


DICT_METHODS = {
    "get": m_dict_get,
    "pop": m_dict_pop,
    "setdefault": m_dict_setdefault,
    "update": m_dict_update,
    "copy": m_dict_copy,
    "set": m_pmap_set,
    "keys": lambda eng, st, a, k: [(st, SView("keys", a[0]))],
    "values": lambda eng, st, a, k: [(st, SView("values", a[0]))],
    "items": lambda eng, st, a, k: [(st, SView("items", a[0]))],
}


def m_set_add(eng, st, args, kw):
    set_add(eng, st, args[0], args[1])
    return [(st, NONEV)]


def m_set_remove(eng, st, args, kw):
    s0, v = args
    kt = _store_val(v)
    out = []
    for s, side in eng.branch(st, z3.Select(st.dom(s0.t), kt)):
        if side:
            dict_del(eng, s, s0, kt)
            out.append((s, NONEV))
        else:
            out.append((eng.raise_(s, "KeyError", "set.remove", [v]), None))
    return out


def m_set_discard(eng, st, args, kw):
    dict_del(eng, st, args[0], _store_val(args[1]))
    return [(st, NONEV)]


def m_set_union(eng, st, args, kw):
    return [(st, set_binop(eng, st, ast.BitOr(), args[0], args[1]))]


def m_set_intersection(eng, st, args, kw):
    return [(st, set_binop(eng, st, ast.BitAnd(), args[0], args[1]))]


SET_METHODS = {"add": m_set_add, "remove": m_set_remove, "discard": m_set_discard, "union": m_set_union,
               "intersection": m_set_intersection}


def m_list_append(eng, st, args, kw):
    list_append(eng, st, args[0], args[1])
    return [(st, NONEV)]


def m_list_extend(eng, st, args, kw):
    return list_extend(eng, st, args[0], args[1])


def m_list_sort(eng, st, args, kw):
    if kw:
        raise Unsupported("list.sort with key")
    st.assume(st.clen(args[0].t) >= 0)
    sort_list(eng, st, args[0])
    return [(st, NONEV)]


def m_list_copy(eng, st, args, kw):
    return [(st, snapshot_list(eng, st, args[0]))]


def m_list_pop(eng, st, args, kw):
    lst = args[0]
    if len(args) > 1:
        raise Unsupported("list.pop(i)")
    n = st.clen(lst.t)
    st.assume(n >= 0)
    out = []
    for s, side in eng.branch(st, n > 0):
        if side:
            v = wrap_elem(eng, s, z3.Select(s.cseq(lst.t), n - 1), lst.ty.v)
            s.set_len(lst.t, n - 1)
            out.append((s, v))
        else:
            out.append((eng.raise_(s, "IndexError", "pop from empty list"), None))
    return out


LIST_METHODS = {"append": m_list_append, "extend": m_list_extend, "sort": m_list_sort, "copy": m_list_copy, "pop": m_list_pop}


def m_str_encode(eng, st, args, kw):
    from . import bytesalg
    return bytesalg.encode(eng, st, args[0], args[1] if len(args) > 1 else SStr("utf-8"))


def m_str_startswith(eng, st, args, kw):
    return [(st, SBool(z3.PrefixOf(args[1].t, args[0].t)))]


def m_str_endswith(eng, st, args, kw):
    return [(st, SBool(z3.SuffixOf(args[1].t, args[0].t)))]


def m_str_removeprefix(eng, st, args, kw):
    s0, p = args[0].t, args[1].t
    return [(st, SStr(z3.If(z3.PrefixOf(p, s0), z3.SubString(s0, z3.Length(p), z3.Length(s0) - z3.Length(p)), s0)))]


def m_str_lstrip(eng, st, args, kw):
    # str.lstrip(chars): longest prefix consisting of characters in `chars` is removed
    s0, chars = args[0].t, args[1].t
    r = sym.fresh_str("lstrip")
    cut = sym.fresh_int("cut")
    i = sym.fresh_int("i")
    st.assume(z3.And(cut >= 0, cut <= z3.Length(s0), r == z3.SubString(s0, cut, z3.Length(s0) - cut)))
    st.assume(z3.ForAll([i], z3.Implies(z3.And(i >= 0, i < cut), z3.Contains(chars, z3.SubString(s0, i, 1)))))
    st.assume(z3.Or(cut == z3.Length(s0), z3.Not(z3.Contains(chars, z3.SubString(s0, cut, 1)))))
    return [(st, SStr(r))]


STR_METHODS = {"encode": m_str_encode, "startswith": m_str_startswith, "endswith": m_str_endswith,
               "removeprefix": m_str_removeprefix, "lstrip": m_str_lstrip}


def m_int_to_bytes(eng, st, args, kw):
    from . import bytesalg
    return bytesalg.to_bytes(eng, st, args[0], args[1], args[2] if len(args) > 2 else kw.get("byteorder", SStr("big")))


INT_METHODS = {"to_bytes": m_int_to_bytes}


def m_int_from_bytes(eng, st, args, kw):
    from . import bytesalg
    return bytesalg.from_bytes(eng, st, args[1], args[2] if len(args) > 2 else kw.get("byteorder", SStr("big")))


TYPE_METHODS = {"int": {"from_bytes": m_int_from_bytes}}


# ==============================================================================================
# constructors
def construct(eng, st, ci, args, kwargs, node=None):
    from .engine import SExcVal
    if ci.kind == "exception":
        return [(st, SExcVal(SExc(ci, args, eng.loc(node) if node is not None else "")))]
    if ci.kind == "enum":
        # Enum(value) lookup
        (v,) = args
        out = []
        for s, iv in eng.as_int(st, v):
            if s.exc is not None:
                out.append((s, None))
                continue
            vals = [ci.member_values[m] for m in ci.members]
            rest = s
            for idx, mv in enumerate(vals):
                if rest is None:
                    break
                br = eng.branch(rest, iv.t == mv)
                rest = None
                for s2, side in br:
                    if side:
                        out.append((s2, SEnum(ci, idx)))
                    else:
                        rest = s2
            if rest is not None:
                out.append((eng.raise_(rest, "ValueError", f"not a valid {ci.name}"), None))
        return out
    if ci.kind == "record":
        names = list(ci.fields)
        vals = {}
        if len(args) > len(names):
            raise Unsupported(f"too many args for {ci.name}")
        for n, a in zip(names, args):
            vals[n] = a
        for k, v in kwargs.items():
            if k not in ci.fields:
                raise Unsupported(f"unknown field {k} for {ci.name}")
            vals[k] = v
        for n in names:
            if n not in vals:
                if n in ci.defaults:
                    vals[n] = eng._eval_const(eng.fe.module(ci.module), ci.defaults[n])
                else:
                    raise Unsupported(f"missing field {n} for {ci.name}")
        # coerce statically-untyped values to the declared field types where trivially possible
        return [(st, SRec(ci, vals))]
    if ci.kind in ("object", "external"):
        if ci.name == "Lock":
            r = st.alloc()
            st.write_field(r, "locked", Val.bool(z3.BoolVal(False)))
            return [(st, SRef(r, TClass("Lock")))]
        r = st.alloc()
        st.heap.dyn_cls = z3.Store(st.heap.dyn_cls, r, z3.IntVal(ci.id))
        ref = SRef(r, TClass(ci.name))
        if eng.contracts is not None:
            for o in eng.contracts.owning:  # a new object is held by no owning dict yet (ghost)
                st.heap.fields[f"__in_{o}"] = z3.Store(st.field(f"__in_{o}"), r, Val.bool(z3.BoolVal(False)))
        if "__init__" in ci.methods:
            init = eng.bound_method(ci, "__init__", ref)
            res = eng.call_function(st, init, args, kwargs, node)
            return [(s, ref if s.exc is None else None) for s, _ in res]
        if getattr(ci, "is_dataclass", False):
            names = list(ci.fields)
            vals = dict(zip(names, args))
            vals.update(kwargs)
            for n in names:
                if n not in vals:
                    if n in ci.defaults:
                        d = ci.defaults[n]
                        vals[n] = eng._eval_const(eng.fe.module(ci.module), d)
                    else:
                        raise Unsupported(f"missing field {n} for {ci.name}")
                eng.store_field(st, r, n, vals[n])
            return [(st, ref)]
        if not args and not kwargs:
            return [(st, ref)]
        raise Unsupported(f"constructor of {ci.name}")
    raise Unsupported(f"construct {ci}")


def class_attr(eng, st, v, attr):
    raise Unsupported(f"class attribute {v.ci.name}.{attr}")


# ==============================================================================================
# externals (names imported from outside the repository)
def external_name(eng, module, attr):
    if module in ("time",) and attr in ("time_ns", "perf_counter_ns", "monotonic_ns"):
        return SBuiltin(attr, b_time_ns)
    if module == "dataclasses" and attr == "replace":
        return SBuiltin("replace", BUILTINS["replace"])
    if module == "collections" and attr == "defaultdict":
        return SBuiltin("defaultdict", b_defaultdict)
    if module == "threading" and attr == "Lock":
        return SClass(eng.lock_ci)
    if module == "typing" or module == "typing_extensions":
        return SOpaque(label=f"typing.{attr}")
    key = f"{module}.{attr}"
    if eng.contracts is not None:
        ext = eng.contracts.externals.get(key)
        if ext is not None:
            return SBuiltin(key, ext)
    return SOpaque(label=key)


def external_call(eng, st, fv, args, kwargs):
    """method call on an object outside the repository (socket, poller, process handle ...): recorded in the event log,
    result unconstrained, no repository-visible state changed"""
    obj = fv.obj
    ci = eng.reg.get(obj.ty.name)
    key = f"{ci.name}.{fv.name}"
    if eng.contracts is not None and key in eng.contracts.externals:
        return eng.contracts.externals[key](eng, st, [obj] + list(args), kwargs)
    eng.externals_used.add(key)
    st.log_event(fv.name, [a for a in args if not isinstance(a, (SFunc, SBuiltin))])
    return eng.external_outcomes(st, fv.name, key)


def import_stmt(eng, stmt, st, fi):
    names = [a.name for a in stmt.names]
    if isinstance(stmt, ast.Import) and names == ["coptrs"]:
        # assumption recorded in evidence: the optional C extension is absent, so the Python fallback is the code that runs
        return [_outcome(eng.raise_(st, "ImportError", "coptrs absent"), "raise")]
    raise Unsupported(f"import inside function: {names}")


def _outcome(st, kind, value=None):
    from .engine import Outcome
    return Outcome(st, kind, value)


# ==============================================================================================
# with
def with_stmt(eng, stmt, st, fi):
    from .engine import Outcome
    if len(stmt.items) != 1:
        raise Unsupported("multi-item with")
    item = stmt.items[0]
    out = []
    for s, cm in eng.ev(item.context_expr, st, fi):
        if s.exc is not None:
            out.append(Outcome(s, "raise"))
            continue
        if isinstance(cm, SRef) and cm.ty.kind == "class" and cm.ty.name == "Lock":
            # blocking acquire: in the atomic-step model a held lock would block for ever -> reported as its own exception kind
            locked = Val.bval(s.read_field(cm.t, "locked"))
            for s2, is_locked in eng.branch(s, locked):
                if is_locked:
                    out.append(Outcome(eng.raise_(s2, "RuntimeError", "with lock: lock already held (would block)"), "raise"))
                    continue
                s2.write_field(cm.t, "locked", Val.bool(z3.BoolVal(True)))
                for o in eng.ex_block(stmt.body, s2, fi):
                    o.st.write_field(cm.t, "locked", Val.bool(z3.BoolVal(False)))
                    out.append(o)
            continue
        if isinstance(cm, SOpaque):
            # a context manager from outside the repository (an open file ...): entering binds the same handle (files return themselves),
            # leaving - normally or by exception - is logged as "__exit__"; it does not swallow exceptions
            eng.externals_used.add(f"with:{cm.label or 'opaque'}")
            states = [s]
            if item.optional_vars is not None:
                states = eng.assign(item.optional_vars, cm, s, fi)
            for s2 in states:
                if s2.exc is not None:
                    out.append(Outcome(s2, "raise"))
                    continue
                for o in eng.ex_block(stmt.body, s2, fi):
                    o.st.log_event("__exit__", [cm])
                    out.append(o)
            continue
        raise Unsupported(f"with on {cm!r}")
    return out


def lock_acquire(eng, st, args, kw):
    lock = args[0]
    blocking = kw.get("blocking", args[1] if len(args) > 1 else SBool(True))
    locked = Val.bval(st.read_field(lock.t, "locked"))
    out = []
    for s, is_locked in eng.branch(st, locked):
        if is_locked:
            if z3.is_false(z3.simplify(blocking.t)):
                out.append((s, SBool(False)))
            else:
                out.append((eng.raise_(s, "RuntimeError", "blocking acquire of a held lock"), None))
        else:
            s.write_field(lock.t, "locked", Val.bool(z3.BoolVal(True)))
            out.append((s, SBool(True)))
    return out


def lock_release(eng, st, args, kw):
    lock = args[0]
    locked = Val.bval(st.read_field(lock.t, "locked"))
    out = []
    for s, is_locked in eng.branch(st, locked):
        if is_locked:
            s.write_field(lock.t, "locked", Val.bool(z3.BoolVal(False)))
            out.append((s, NONEV))
        else:
            out.append((eng.raise_(s, "RuntimeError", "release unlocked lock"), None))
    return out


def lock_locked(eng, st, args, kw):
    return [(st, SBool(Val.bval(st.read_field(args[0].t, "locked"))))]


# ---- codec pairs (pickle.dumps / pickle.loads and friends) ---------------------------------------------------------------
# A dependency's encoder/decoder pair, declared in a sidecar by  codec_pair("name", enc="mod.dumps", dec="mod.loads").
# ASSUMED (listed in the evidence): dec(enc(v)) == v for every value v, and dec never fails on what enc produced.  Nothing else
# is known: the bytes are an opaque blob identified by the term enc(v); decoding any other byte string may raise or give anything.
# Nested mutable containers of v are identified with those of dec(enc(v)) (a copy is not distinguished from the original).
_CODECS: dict = {}


def codec_functions(name):
    if name not in _CODECS:
        _CODECS[name] = (z3.Function(f"codec_{name}_enc", Val, sym.IntS), z3.Function(f"codec_{name}_dec", sym.IntS, Val),
                         z3.Function(f"codec_{name}_ok", sym.IntS, sym.BoolS))
    return _CODECS[name]


def _codec_instance(st, name, v):
    """the assumed round-trip law, instantiated at the value being encoded (ground: refutations stay quantifier-free)"""
    from . import bytesalg
    enc, dec, ok = codec_functions(name)
    st.assume(z3.And(dec(enc(v)) == v, ok(enc(v)), bytesalg.blob_len(enc(v)) >= 0))


def make_codec_enc(name):
    def enc_call(eng, st, args, kw):
        from . import bytesalg
        if len(args) != 1 or kw:
            raise Unsupported(f"codec {name}: encoder called with options")
        enc, _, _ = codec_functions(name)
        v = _store_val(args[0]) if not isinstance(args[0], bytesalg_SBytes()) else bytesalg.bytes_val(args[0])
        _codec_instance(st, name, v)
        i = enc(v)
        return [(st, bytesalg._SB([("blob", i, z3.IntVal(0), bytesalg.blob_len(i))]))]
    return enc_call


def bytesalg_SBytes():
    from .engine import SBytes
    return SBytes


def make_codec_dec(name):
    def dec_call(eng, st, args, kw):
        from . import bytesalg
        if len(args) != 1 or kw:
            raise Unsupported(f"codec {name}: decoder called with options")
        _, dec, ok = codec_functions(name)
        b = args[0]
        if isinstance(b, SOpaque):
            i = b.t
        elif isinstance(b, bytesalg_SBytes()):
            try:
                i = Val.oid(bytesalg.bytes_val(b))
            except Unsupported:
                i = sym.fresh_int("cblob")  # a composite byte string: contents unknown to the codec
        elif isinstance(b, SAny):
            i = Val.oid(b.t)
        else:
            raise Unsupported(f"codec {name}: decoding a {type(b).__name__}")
        out = []
        if eng.pure:
            return [(st, SAny(dec(i), ANY))]
        for s, good in eng.branch(st, ok(i)):
            if good:
                out.append((s, SAny(dec(i), ANY)))
            else:
                out.append((eng.raise_(s, "Exception", f"{name}: undecodable bytes"), None))
        return out
    return dec_call


_PURE_METHODS: dict = {}


def make_pure_method(key, returns_expr):
    def call(eng, st, args, kw):
        if kw:
            raise Unsupported(f"pure external method {key} called with keywords")
        k2 = (key, len(args))
        if k2 not in _PURE_METHODS:
            _PURE_METHODS[k2] = z3.Function("extpure_" + key.replace(".", "_"), *([Val] * len(args)), Val)
        t = _PURE_METHODS[k2](*[_store_val(a) for a in args])
        ty = eng.fe.parse_type(returns_expr, st.frames[0].module) if returns_expr is not None else ANY
        st.assume(sym.type_constraint(t, ty, eng.reg, shallow=True))
        return [(st, SAny(t, ty) if ty.kind in ("union", "any") else sym.from_val(t, ty, eng.reg))]
    return call


LOCK_EXTERNALS = {"Lock.acquire": lock_acquire, "Lock.release": lock_release, "Lock.locked": lock_locked}


# ==============================================================================================
# unpacking / star-args
def unpack_assign(eng, target, v, st, fi) -> list[State]:
    n = len(target.elts)
    if any(isinstance(e, ast.Starred) for e in target.elts):
        raise Unsupported("starred unpack")
    if isinstance(v, SAny):
        out = []
        for s, w in eng.narrow(st, v):
            if isinstance(w, SAny):
                # assume a tuple of the right arity (well-typedness of the stored data)
                items, cur = [], Val.targs(w.t)
                s.assume(Val.is_tup(w.t))
                for _ in range(n):
                    items.append(SAny(VL.hd(cur), ANY))
                    cur = VL.tl(cur)
                w = STuple(items)
            out.extend(unpack_assign(eng, target, w, s, fi))
        return out
    if isinstance(v, STuple):
        if len(v.items) != n:
            return [eng.raise_(st, "ValueError", "unpack arity")]
        states = [st]
        for t, item in zip(target.elts, v.items):
            nxt = []
            for s in states:
                if s.exc is not None:
                    nxt.append(s)
                else:
                    nxt.extend(eng.assign(t, item, s, fi))
            states = nxt
        return states
    raise Unsupported(f"unpack of {type(v).__name__}")


class _StarList(list):
    """f(*lst) with a list of symbolic length: carries a snapshot of the list (taken at the call)"""

    def __init__(self, ref):
        super().__init__()
        self.ref = ref


class _StarDict(dict):
    def __init__(self, ref):
        super().__init__()
        self.ref = ref


def dict_copy(eng, st, d):
    r = st.new_container(d.ty)
    st.heap.c_dom = z3.Store(st.heap.c_dom, r.t, st.dom(d.t))
    st.heap.c_map = z3.Store(st.heap.c_map, r.t, st.cmap(d.t))
    st.heap.c_len = z3.Store(st.heap.c_len, r.t, st.clen(d.t))
    return r


def expand_star(eng, st, fi, star, dstar, args, kwargs):
    out = []
    results = [(st, list(args), dict(kwargs))]
    if star is not None:
        nxt = []
        for s, a, k in results:
            for s2, v in eng.ev(star.value, s, fi):
                if s2.exc is not None:
                    nxt.append((s2, a, k))
                elif isinstance(v, STuple):
                    nxt.append((s2, a + v.items, k))
                elif isinstance(v, SRef) and v.ty.kind == "list" and not a:
                    nxt.append((s2, _StarList(snapshot_list(eng, s2, v)), k))  # only an opaque callee accepts this (engine.call)
                else:
                    raise Unsupported("*args with symbolic length")
        results = nxt
    for d in dstar:
        nxt = []
        for s, a, k in results:
            if s.exc is not None:
                nxt.append((s, a, k))
                continue
            for s2, v in eng.ev(d.value, s, fi):
                if s2.exc is not None:
                    nxt.append((s2, a, k))
                    continue
                marker = getattr(v, "kw_items", None)
                if marker is None and isinstance(v, SRef) and v.ty.kind == "dict" and not k:
                    nxt.append((s2, a, _StarDict(dict_copy(eng, s2, v))))
                    continue
                if marker is None:
                    raise Unsupported("**kwargs with symbolic keys")
                k2 = dict(k)
                k2.update(marker)
                nxt.append((s2, a, k2))
        results = nxt
    return results


def dict_unpack_literal(eng, node, st, fi):
    """{**a, **b, k: v}: later entries win"""
    results = [(st, None)]
    out = []
    for s, _ in results:
        ref = st.new_container(TDict(ANY, ANY))
        states = [s]
        for kn, vn in zip(node.keys, node.values):
            nxt = []
            for s2 in states:
                if s2.exc is not None:
                    nxt.append(s2)
                    continue
                if kn is None:
                    for s3, src in eng.ev(vn, s2, fi):
                        if s3.exc is not None:
                            nxt.append(s3)
                            continue
                        if not (isinstance(src, SRef) and src.ty.kind == "dict"):
                            raise Unsupported("** of non-dict")
                        if ref.ty.k.kind == "any":
                            ref = SRef(ref.t, TDict(src.ty.k, src.ty.v))
                        m_dict_update(eng, s3, [ref, src], {})
                        nxt.append(s3)
                else:
                    for s3, (k, v) in eng.ev_list([kn, vn], s2, fi):
                        if s3.exc is None:
                            dict_set(eng, s3, ref, k, v)
                        nxt.append(s3)
            states = nxt
        out.extend((s2, ref if s2.exc is None else None) for s2 in states)
    return out


def slice_assign(eng, target, v, st, fi):
    """x[a:b] = v  where x is a value from outside the repository (memoryview of a shared-memory segment): recorded as the event
    setslice(x, a, b, v); nothing the repository holds changes.  Slice assignment on repository lists is not modelled."""
    sl = target.slice
    out = []
    for s, obj in eng.ev(target.value, st, fi):
        if s.exc is not None:
            out.append(s)
            continue
        from .engine import SBytes
        if isinstance(obj, SBuiltin) and getattr(obj, "as_value", None) is not None:
            obj = obj.as_value  # an attribute of an outside object (the buffer of a segment)
        if isinstance(obj, SBytes):
            obj = SOpaque(label="memoryview")  # a writable view handed out by the outside world: identity not tracked
        if not isinstance(obj, (SOpaque, SAny)) or (isinstance(obj, SAny) and obj.ty.kind not in ("any", "opaque")):
            raise Unsupported(f"slice assignment on a repository container ({obj!r})")
        parts = [sl.lower, sl.upper]
        if sl.step is not None:
            raise Unsupported("slice assignment with step")
        vals = []
        cur = [(s, [])]
        for pnode in parts:
            nxt = []
            for s2, acc in cur:
                if pnode is None:
                    nxt.append((s2, acc + [NONEV]))
                else:
                    for s3, pv in eng.ev(pnode, s2, fi):
                        nxt.append((s3, acc + [pv]))
            cur = nxt
        for s2, acc in cur:
            if s2.exc is not None:
                out.append(s2)
                continue
            eng.externals_used.add("slice assignment into an external buffer (event setslice)")
            s2.log_event("setslice", [obj] + acc + [v])
            for s3, _ in eng.external_outcomes(s2, "setslice", "setslice"):
                out.append(s3)
    return out


def call_generator(eng, st, fv, fr, node):
    raise Unsupported(f"generator function {fv.name}")


def comprehension(eng, node, st, fi, kind):
    from . import comp
    return comp.comprehension(eng, node, st, fi, kind)


# ==============================================================================================
# contract-language functions (spec mode)
def spec_old(eng, node, st, fi):
    if eng.old_state is None:
        raise Unsupported("old() outside a postcondition")
    saved_pure = eng.pure
    eng.pure = True
    try:
        o = eng.old_state
        # evaluate in the pre-state heap with the *entry* values of the parameters, but keep the current path condition
        tmp = o.copy()
        tmp.pc = st.pc
        for k, v in st.ghost.items():
            if k.startswith("obs:"):
                tmp.ghost[k] = v
        tmp.frames = [f.copy() for f in o.frames]
        # spec-bound variables (quantifier variables, let-bindings) live in the current frame
        for k, v in st.frames[fi].vars.items():
            tmp.frames[-1].vars.setdefault(k, v)
        for k, v in getattr(eng, "spec_bound", {}).items():
            tmp.frames[-1].vars[k] = v
        res = eng.ev(node.args[0], tmp, len(tmp.frames) - 1)
        (s2, v), = res
        st.pc = s2.pc
        return [(st, v)]
    finally:
        eng.pure = saved_pure


def spec_implies(eng, node, st, fi):
    (s, a), = eng.ev(node.args[0], st, fi)
    at = eng.truth(s, a)
    # the consequent is read under the antecedent (only used to simplify its terms, e.g. list indices known to be non-negative);
    # the antecedent itself does not stay on the path
    s.pc.append(at)
    mark = len(s.pc) - 1
    try:
        (s, b), = eng.ev(node.args[1], s, fi)
        bt = eng.truth(s, b)
    finally:
        if mark < len(s.pc) and s.pc[mark] is at:
            del s.pc[mark]
        else:
            for ix in range(len(s.pc) - 1, -1, -1):
                if s.pc[ix] is at:
                    del s.pc[ix]
                    break
    return [(s, SBool(z3.Implies(at, bt)))]


def spec_iff(eng, node, st, fi):
    (s, a), = eng.ev(node.args[0], st, fi)
    (s, b), = eng.ev(node.args[1], s, fi)
    return [(s, SBool(eng.truth(s, a) == eng.truth(s, b)))]


def _quant(eng, node, st, fi, is_forall):
    """forall(T, lambda x: body)  /  forall(T1, T2, lambda x, y: body);  T is a type expression (str, int, Job, DatasetId ...)"""
    *tys, lam = node.args
    if not isinstance(lam, ast.Lambda):
        raise Unsupported("quantifier needs a lambda")
    names = [a.arg for a in lam.args.args]
    if len(names) != len(tys):
        raise Unsupported("quantifier arity")
    fr = st.frames[fi]
    consts, guards, bound = [], [], {}
    for n, tnode in zip(names, tys):
        ty = eng.fe.parse_type(tnode, fr.module)
        c = sym.fresh_val(f"q_{n}")
        consts.append(c)
        guards.append(sym.type_constraint(c, ty, eng.reg))
        w = sym.from_val(c, ty, eng.reg)
        if isinstance(w, SRef):
            guards.append(w.t < st.heap.next_ref)
        bound[n] = w
    saved = {n: fr.vars.get(n, _MISSING) for n in names}
    sb = dict(getattr(eng, "spec_bound", {}))
    eng.spec_bound = {**sb, **bound}
    fr.vars.update(bound)
    try:
        (s, body), = eng.ev(lam.body, st, fi)
    finally:
        eng.spec_bound = sb
        for n, old in saved.items():
            if old is _MISSING:
                fr.vars.pop(n, None)
            else:
                fr.vars[n] = old
    g = z3.And(*guards)
    bt = eng.truth(s, body)
    if is_forall:
        return [(s, SBool(z3.ForAll(consts, z3.Implies(g, bt))))]
    return [(s, SBool(z3.Exists(consts, z3.And(g, bt))))]


_MISSING = object()


def spec_forall(eng, node, st, fi):
    return _quant(eng, node, st, fi, True)


def spec_exists(eng, node, st, fi):
    return _quant(eng, node, st, fi, False)


def spec_result(eng, node, st, fi):
    if eng.result_val is None:
        raise Unsupported("result() outside a postcondition")
    return [(st, eng.result_val)]


def spec_events_len(eng, node, st, fi):
    return [(st, SInt(st.ev_len))]


def spec_event(eng, node, st, fi):
    """event(i) -> the i-th logged external call as a tuple value"""
    (s, i), = eng.ev(node.args[0], st, fi)
    return [(s, SAny(z3.Select(s.ev_arr, i.t), ANY))]


def spec_ev(eng, node, st, fi):
    """ev(name, a1, a2, ...) -> the tuple value an external call name(a1, a2..) is logged as"""
    s = st
    vals = []
    name = node.args[0].value
    for a in node.args[1:]:
        (s, v), = eng.ev(a, s, fi)
        vals.append(v.val())
    return [(s, SAny(Val.tup(sym.vl_of([Val.str(z3.StringVal(name))] + vals)), ANY))]


def spec_logged(eng, node, st, fi):
    """logged(e): the entry e (built with ev(..)) was put on the external-call log since the verified function was entered.
    A set-valued ghost kept next to the log: 'every X was told Y' is stated without an existential over log positions."""
    (s, e), = eng.ev(node.args[0], st, fi)
    return [(s, SBool(z3.Select(s.ev_set, e.val())))]


def spec_locked(eng, node, st, fi):
    (s, l), = eng.ev(node.args[0], st, fi)
    return [(s, SBool(Val.bval(s.read_field(l.t, "locked"))))]


def spec_fresh(eng, node, st, fi):
    """fresh(x): x is an object allocated during the call"""
    (s, v), = eng.ev(node.args[0], st, fi)
    return [(s, SBool(v.t >= eng.old_state.heap.next_ref))]


def spec_same(eng, node, st, fi):
    """same(a, b): identity of references / equality of immutable values"""
    (s, a), = eng.ev(node.args[0], st, fi)
    (s, b), = eng.ev(node.args[1], s, fi)
    return [(s, SBool(a.val() == b.val()))]


def spec_typed(eng, node, st, fi):
    """typed(x, T): x (an untyped value) seen at static type T"""
    (s, v), = eng.ev(node.args[0], st, fi)
    ty = eng.fe.parse_type(node.args[1], st.frames[fi].module)
    return [(s, sym.from_val(v.val(), ty, eng.reg))]


def spec_is_type(eng, node, st, fi):
    (s, v), = eng.ev(node.args[0], st, fi)
    ty = eng.fe.parse_type(node.args[1], st.frames[fi].module)
    return [(s, SBool(sym.type_constraint(v.val(), ty, eng.reg)))]


def spec_key_of(eng, node, st, fi):
    """key_of(obj, "field"): the key under which obj is held in the owning dict `field` (ghost)"""
    (s, v), = eng.ev(node.args[0], st, fi)
    f = node.args[1].value
    return [(s, SAny(s.read_field(v.t, f"__key_{f}"), ANY))]


def spec_held(eng, node, st, fi):
    """held(obj, "field"): obj is currently a value of the owning dict `field` (ghost)"""
    (s, v), = eng.ev(node.args[0], st, fi)
    f = node.args[1].value
    return [(s, SBool(Val.bval(s.read_field(v.t, f"__in_{f}"))))]


def spec_owner_of(eng, node, st, fi):
    """owner_of(container, "field"): the object whose `field` holds this container (ghost, for `owned_field`s)"""
    (s, v), = eng.ev(node.args[0], st, fi)
    f = node.args[1].value
    return [(s, SAny(s.read_field(v.t, f"__owner_{f}"), ANY))]


def spec_isascii(eng, node, st, fi):
    from . import bytesalg
    (s, v), = eng.ev(node.args[0], st, fi)
    return [(s, SBool(bytesalg.isascii(v.t)))]


def spec_ev_name(eng, node, st, fi):
    """ev_name(e): the name of a logged external call"""
    (s, e), = eng.ev(node.args[0], st, fi)
    return [(s, SStr(Val.sval(VL.hd(Val.targs(e.val())))))]


def spec_ev_arg(eng, node, st, fi):
    """ev_arg(e, i): the i-th argument (0-based, literal i) of a logged external call, as an untyped value"""
    (s, e), = eng.ev(node.args[0], st, fi)
    i = node.args[1].value
    cur = VL.tl(Val.targs(e.val()))
    for _ in range(i):
        cur = VL.tl(cur)
    return [(s, SAny(VL.hd(cur), ANY))]


def spec_ev_argc(eng, node, st, fi):
    """ev_argc(e) == n  iff the logged call has exactly n arguments (n literal, given as second parameter)"""
    (s, e), = eng.ev(node.args[0], st, fi)
    n = node.args[1].value
    cur = VL.tl(Val.targs(e.val()))
    conj = [Val.is_tup(e.val()), VL.is_cons(Val.targs(e.val()))]
    for _ in range(n):
        conj.append(VL.is_cons(cur))
        cur = VL.tl(cur)
    conj.append(VL.is_nil(cur))
    return [(s, SBool(z3.And(*conj)))]


def spec_agg(eng, node, st, fi):
    """agg("name"): current value of a ghost aggregate (sum of the declared contribution over the objects held by the owning dict)"""
    return [(st, SInt(eng.agg_value(st, node.args[0].value)))]


def spec_agg_contrib(eng, node, st, fi):
    """contrib("name", obj): the contribution of obj to the aggregate"""
    (s, o), = eng.ev(node.args[1], st, fi)
    return [(s, SInt(eng.agg_contrib(s, node.args[0].value, o.t)))]


def spec_sk(eng, node, st, fi):
    """sk("name", i): application of a Skolem function Int -> Int that is fresh for each use of the (assumed) contract: the
    witness of an existential the contract asserts"""
    (s, i), = eng.ev(node.args[1], st, fi)
    scope = getattr(eng, "skolem_scope", 0)
    f = z3.Function(f"sk_{node.args[0].value}!{scope}", sym.IntS, sym.IntS)
    return [(s, SInt(f(i.t)))]


SPEC_FUNCS = {
    "logged": spec_logged,
    "sk": spec_sk,
    "agg": spec_agg,
    "contrib": spec_agg_contrib,
    "ev_name": spec_ev_name,
    "ev_arg": spec_ev_arg,
    "ev_argc": spec_ev_argc,
    "isascii": spec_isascii,
    "owner_of": spec_owner_of,
    "key_of": spec_key_of,
    "held": spec_held,
    "old": spec_old,
    "implies": spec_implies,
    "iff": spec_iff,
    "forall": spec_forall,
    "exists": spec_exists,
    "result": spec_result,
    "events_len": spec_events_len,
    "event": spec_event,
    "ev": spec_ev,
    "locked": spec_locked,
    "fresh": spec_fresh,
    "yielded": spec_yielded,
    "consumed": spec_consumed,
    "same": spec_same,
    "typed": spec_typed,
    "is_type": spec_is_type,
}
