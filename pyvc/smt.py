"""Discharge of one obligation: z3 (python API) first; `unknown` goes to the cvc5 binary on the same SMT-LIB text."""
from __future__ import annotations

import os
import subprocess
import tempfile
import time
import z3

CVC5 = "/usr/bin/cvc5"


def _solver(pc, goal, timeout_ms):
    s = z3.Solver()
    s.set("timeout", timeout_ms)
    for p in pc:
        s.add(p)
    s.add(z3.Not(goal))
    return s


def _check(s, budget_ms):
    return s.check()


def discharge(ob, timeout_ms=10000, quick_only=False):
    t0 = time.time()
    g = z3.simplify(ob.goal) if ob.goal is not None else z3.BoolVal(True)
    if z3.is_true(g):
        ob.result, ob.backend, ob.seconds = "discharged", "simplifier", time.time() - t0
        return ob
    s = _solver(ob.pc, ob.goal, timeout_ms)
    dump = os.environ.get("PYVC_DUMP")
    if dump and dump in ob.id:
        with open(os.path.join(os.environ.get("PYVC_DUMP_DIR", "/tmp"), ob.id.replace("/", "_") + ".smt2"), "w") as f:
            f.write("(set-logic ALL)\n" + s.to_smt2())
    # portfolio, in sequence: z3 briefly (most obligations take milliseconds) -> cvc5 on the same SMT-LIB text (much better on the
    # heap-frame obligations with many quantified axioms) -> z3 again with the full budget.  `unknown` only if all three give up.
    quick = min(2000, timeout_ms)
    s.set("timeout", quick)
    r = _check(s, quick)
    ob.backend = "z3-" + z3.get_version_string()
    if r == z3.unknown and not quick_only:
        for stage in ("cvc5-short", "z3-full", "cvc5-full"):
            if stage.startswith("cvc5"):
                budget = min(4000, timeout_ms) if stage == "cvc5-short" else timeout_ms
                if stage == "cvc5-full" and timeout_ms <= 4000:
                    continue
                r2 = _cvc5(s, budget)
                if r2 == "unsat":
                    ob.result, ob.backend = "discharged", "cvc5-1.0.3"
                    ob.seconds = time.time() - t0
                    return ob
                if r2 == "sat":
                    ob.result, ob.backend = "refuted", "cvc5-1.0.3"
                    ob.seconds = time.time() - t0
                    return ob
            elif timeout_ms > quick:
                s = _solver(ob.pc, ob.goal, timeout_ms)
                r = _check(s, timeout_ms)
                if r != z3.unknown:
                    break
    if r == z3.unsat:
        ob.result = "discharged"
    elif r == z3.sat:
        ob.result = "refuted"
        try:
            ob.model = s.model()
        except Exception:
            ob.model = None
    else:
        ob.result = "unknown"
        ob.note = (ob.note + " " if ob.note else "") + f"z3: {s.reason_unknown()}"
    ob.seconds = time.time() - t0
    return ob


def _cvc5(solver, timeout_ms):
    if not os.path.exists(CVC5):
        return "unknown"
    text = solver.to_smt2()
    text = "(set-logic ALL)\n" + text
    with tempfile.NamedTemporaryFile("w", suffix=".smt2", delete=False) as f:
        f.write(text)
        path = f.name
    try:
        p = subprocess.run([CVC5, "--strings-exp", f"--tlimit={timeout_ms}", path], capture_output=True, text=True, timeout=timeout_ms / 1000 + 5)
        out = p.stdout.strip().splitlines()
        return out[0] if out and out[0] in ("sat", "unsat") else "unknown"
    except Exception:
        return "unknown"
    finally:
        os.unlink(path)
