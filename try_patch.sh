#!/bin/sh
# usage: try_patch.sh <patch.diff|-R:commit> <PROP> [tier]   -- runs a check against a scratch copy of /repo/src with the patch applied
set -e
P="$1"; case "$P" in -R:*) ;; /*) ;; *) P="$(pwd)/$P" ;; esac; PROP="$2"; TIER="${3:-quick}"
D=$(mktemp -d /tmp/mutXXXXXX)
cp -r /repo/src "$D/src"
case "$P" in
  -R:*) git -C /repo show "${P#-R:}" | (cd "$D" && patch -R -p1 -s) ;;
  *) (cd "$D" && patch -p1 -s < "$P") ;;
esac
cd /verif
VERIF_EVIDENCE_DIR="$D/evidence" VERIF_REPLAY_DIR="$D/replays" EKW_REPO_SRC="$D/src" ./check "$PROP" --tier "$TIER" 2>&1 | grep -E "VIOLATION|DETAIL|UNDECIDED|KNOWN|^\[" | cut -c1-260 | head -${LINES_MAX:-12}
rm -rf "$D"
