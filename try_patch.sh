#!/bin/sh
# usage: try_patch.sh <patch.diff|-R:commit> <PROP> [tier]   -- runs a check against a scratch copy of /repo/src with the patch applied
set -e
HERE=$(cd "$(dirname "$0")" && pwd)
P="$1"; case "$P" in -R:*) ;; /*) ;; *) P="$(pwd)/$P" ;; esac; PROP="$2"; TIER="${3:-quick}"
D=$(mktemp -d /tmp/mutXXXXXX)
case "$P" in
  -R:*) # revert of a fix commit: done by git in a scratch worktree (handles later commits touching the same file)
        rmdir "$D"; git -C /repo worktree add -q --detach "$D" HEAD
        git -C "$D" -c user.email=x@y -c user.name=x revert --no-commit "${P#-R:}" >/dev/null 2>&1 || { echo "revert of ${P#-R:} failed"; git -C /repo worktree remove --force "$D"; exit 3; }
        WT=1 ;;
  *) cp -r /repo/src "$D/src"; (cd "$D" && patch -p1 -s < "$P") ;;
esac
cd "$HERE"
VERIF_EVIDENCE_DIR="$D/evidence" VERIF_REPLAY_DIR="$D/replays" EKW_REPO_SRC="$D/src" ./check "$PROP" --tier "$TIER" 2>&1 | grep -E "VIOLATION|DETAIL|UNDECIDED|KNOWN|CRASH|Error|^\[" | cut -c1-260 | head -${LINES_MAX:-12}
if [ -n "$WT" ]; then git -C /repo worktree remove --force "$D"; else rm -rf "$D"; fi
