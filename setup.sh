#!/bin/sh
# Builds /verif/.venv offline: python 3.12 (the repo's interpreter) + solvers/tools from the wheelhouse
# + a .pth that exposes /venv's site-packages (repo third-party deps).  Idempotent.
set -e
cd "$(dirname "$0")"
V=.venv
if [ -x "$V/bin/python" ] && "$V/bin/python" -c "import z3, cvc5, jsonschema" >/dev/null 2>&1; then
  exit 0
fi
rm -rf "$V"
/venv/bin/python -m venv "$V"
PIP_NO_INDEX=1 "$V/bin/python" -m pip install -q --no-index --find-links /opt/veriftools/wheels \
    z3-solver cvc5 crosshair-tool deal icontract jsonschema hypothesis >/dev/null
SP=$("$V/bin/python" -c "import sysconfig; print(sysconfig.get_paths()['purelib'])")
echo "import site; site.addsitedir('/venv/lib/python3.12/site-packages')" > "$SP/zz_repo_deps.pth"
"$V/bin/python" -c "import z3, cvc5, jsonschema, numpy, xarray, pydantic, zmq; print('verif venv ok', z3.get_version_string())"
