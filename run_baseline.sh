#!/bin/sh
# Runs the repository's pinned baseline (guard off) and prints pass/fail counts.
cd /repo && env -u EKW_VERIF /venv/bin/python -m pytest -ra -q -p no:cacheprovider --timeout=900 --continue-on-collection-errors "$@"
