"""Bounded stand-in for C06: the REAL Listener / ReliableSender (and the REAL owner loops Bridge.recv_events and
Executor.recv_loop) over fake zmq sockets joined by an in-memory network that an adversary controls
(deliver / drop / duplicate / delay per frame sequence, clock advanced by hand).
"""
from __future__ import annotations

import itertools
import pickle
import random
from collections import Counter
import time


class Net:
    def __init__(self):
        self.inbox = {}  # address -> list[list[bytes]]
        self.wire = []  # (dest address, frames)
        self.now = 10 ** 12
        self.sent_log = []


class FakePush:
    def __init__(self, net, addr=None):
        self.net, self.addr = net, addr

    def set(self, *a):
        pass

    def connect(self, addr):
        self.addr = addr

    def send(self, b):
        self.net.wire.append((self.addr, [bytes(b)]))

    def send_multipart(self, frames):
        self.net.wire.append((self.addr, [bytes(f) for f in frames]))


class FakePull:
    def __init__(self, net):
        self.net = net
        self.addr = None

    def bind(self, addr):
        self.addr = addr
        self.net.inbox.setdefault(addr, [])

    def recv_multipart(self):
        return self.net.inbox[self.addr].pop(0)

    def recv(self):
        return self.net.inbox[self.addr].pop(0)[0]


class FakeCtx:
    def __init__(self, net):
        self.net = net

    def socket(self, kind):
        import zmq
        return FakePull(self.net) if kind == zmq.PULL else FakePush(self.net)


class FakePoller:
    hook = None  # called when a poll finds nothing: lets the adversary move the network / the clock

    def __init__(self):
        self.socks = []

    def register(self, sock, flags=0):
        self.socks.append(sock)

    def unregister(self, sock):
        self.socks.remove(sock)

    def poll(self, timeout=None):
        import zmq
        for s in self.socks:
            if s.net.inbox.get(s.addr):
                return [(s, zmq.POLLIN)]
        if FakePoller.hook is not None and timeout != 0:
            FakePoller.hook()
            for s in self.socks:
                if s.net.inbox.get(s.addr):
                    return [(s, zmq.POLLIN)]
        return []


def install(net):
    import cascade.executor.comms as comms
    ctx = FakeCtx(net)
    comms.get_context = lambda: ctx
    comms.zmq.Poller = FakePoller
    comms.time.time_ns = lambda: net.now
    return comms


class Endpoint:
    """a generic owner loop: what Bridge.recv_events / Executor.recv_loop do with the two comms objects"""

    def __init__(self, comms, addr):
        self.listener = comms.Listener(addr)
        self.sender = comms.ReliableSender(addr, 800)
        self.delivered = []
        self.raised = None

    def step(self):
        from cascade.executor.msg import Ack
        try:
            for m in self.listener.recv_messages(0):
                if isinstance(m, Ack):
                    self.sender.ack(m.idx)
                else:
                    self.delivered.append(m)
            self.sender.maybe_retry()
        except ValueError as e:
            self.raised = e


def scenario(seed, n_ab, n_ba, p_drop, p_dup, max_faults):
    """random adversary: returns (ok, description)"""
    from cascade.executor.msg import DatasetPurge, TaskFailure
    from cascade.low.core import DatasetId, WorkerId
    rng = random.Random(seed)
    net = Net()
    comms = install(net)
    FakePoller.hook = None
    a, b = Endpoint(comms, "A"), Endpoint(comms, "B")
    a.sender.add_host("b", "B")
    b.sender.add_host("a", "A")
    to_send_ab = [DatasetPurge(DatasetId("t", str(i))) for i in range(n_ab)]
    to_send_ba = [TaskFailure(WorkerId("h", "w"), str(i), "d") for i in range(n_ba)]
    faults = 0
    actions = []
    sent_ab, sent_ba = [], []
    for round_ in range(400):
        choices = []
        if to_send_ab:
            choices.append("send_ab")
        if to_send_ba:
            choices.append("send_ba")
        if net.wire:
            choices += ["net"] * 3
        choices += ["step_a", "step_b", "tick"]
        c = rng.choice(choices)
        if c == "send_ab":
            m = to_send_ab.pop(0)
            a.sender.send("b", m)
            sent_ab.append(m)
        elif c == "send_ba":
            m = to_send_ba.pop(0)
            b.sender.send("a", m)
            sent_ba.append(m)
        elif c == "net":
            i = rng.randrange(len(net.wire))
            dest, frames = net.wire.pop(i)
            r = rng.random()
            if faults < max_faults and r < p_drop:
                faults += 1
                actions.append(("drop", dest, len(frames)))
            elif faults < max_faults and r < p_drop + p_dup:
                faults += 1
                net.inbox[dest].append(list(frames))
                net.inbox[dest].append(list(frames))
                actions.append(("dup", dest, len(frames)))
            else:
                net.inbox[dest].append(frames)
        elif c == "step_a":
            a.step()
        elif c == "step_b":
            b.step()
        else:
            net.now += 900 * 1_000_000
        if a.raised or b.raised:
            break
        if not to_send_ab and not to_send_ba and not net.wire and not a.sender.inflight and not b.sender.inflight \
                and not net.inbox["A"] and not net.inbox["B"]:
            break
    # quiesce without further faults
    for _ in range(200):
        if a.raised or b.raised:
            break
        while net.wire:
            dest, frames = net.wire.pop(0)
            net.inbox[dest].append(frames)
        a.step()
        b.step()
        net.now += 900 * 1_000_000
        if not a.sender.inflight and not b.sender.inflight and not net.wire and not net.inbox["A"] and not net.inbox["B"]:
            break
    desc = {"seed": seed, "a_to_b": len(sent_ab), "b_to_a": len(sent_ba), "faults": actions}
    problems = []
    if not (a.raised or b.raised):
        if sorted(map(repr, b.delivered)) != sorted(map(repr, sent_ab)):
            problems.append(f"A->B: sent {list(map(repr, sent_ab))} but the application at B received {list(map(repr, b.delivered))} and no sender raised")
        if sorted(map(repr, a.delivered)) != sorted(map(repr, sent_ba)):
            problems.append(f"B->A: sent {list(map(repr, sent_ba))} but the application at A received {list(map(repr, a.delivered))} and no sender raised")
    else:
        # a raise is only legitimate after the retries were exhausted
        for ep in (a, b):
            if ep.raised and "retried too many times" not in str(ep.raised):
                problems.append(f"endpoint raised {ep.raised!r} on well-formed traffic")
        for ep, sent in ((b, sent_ab), (a, sent_ba)):
            reprs = list(map(repr, ep.delivered))
            if len(set(reprs)) != len(reprs):
                problems.append(f"duplicate delivery: {reprs}")
    return problems, desc


def permanent_loss(direction):
    """a peer that never answers: the sender must raise after a bounded number of retries"""
    from cascade.executor.msg import DatasetPurge
    from cascade.low.core import DatasetId
    net = Net()
    comms = install(net)
    FakePoller.hook = None
    a = Endpoint(comms, "A")
    a.sender.add_host("b", "B")
    net.inbox.setdefault("B", [])
    a.sender.send("b", DatasetPurge(DatasetId("t", "0")))
    sends = 0
    for i in range(60):
        sends += len(net.wire)
        net.wire.clear()
        a.step()
        if a.raised:
            return [], {"retries_until_raise": sends}
        net.now += 900 * 1_000_000
    return [f"a message that is never acknowledged was retried {sends} times over 60 grace periods without the sender raising"], {"sends": sends}


def late_duplicate(n_between):
    """two senders, one receiver: the quiet sender's only message is delivered and its ack is lost; the chatty sender then gets n_between messages through
    (each acknowledged normally); only then does the quiet sender's retry arrive.  However much traffic lies in between, the retry must not be handed to
    the application a second time."""
    from cascade.executor.msg import DatasetPurge
    from cascade.low.core import DatasetId
    net = Net()
    comms = install(net)
    FakePoller.hook = None
    r = Endpoint(comms, "R")
    quiet, chatty = Endpoint(comms, "Q"), Endpoint(comms, "C")
    quiet.sender.add_host("r", "R")
    chatty.sender.add_host("r", "R")

    def move(drop_acks_to=()):
        for dest, frames in net.wire:
            if dest in drop_acks_to:
                continue
            net.inbox.setdefault(dest, []).append(frames)
        net.wire.clear()
    quiet.sender.send("r", DatasetPurge(DatasetId("quiet", "0")))
    move()
    r.step()
    move(drop_acks_to=("Q",))          # the ack to the quiet sender is lost
    for i in range(n_between):
        chatty.sender.send("r", DatasetPurge(DatasetId("chatty", str(i))))
        move()
        r.step()
        move(drop_acks_to=("Q",))
        chatty.step()
    net.now += 900 * 1_000_000         # past the resend grace: the quiet sender retries
    quiet.step()
    move()
    r.step()
    move()
    quiet.step()
    got = Counter(repr(m) for m in r.delivered)
    bad = {k: v for k, v in got.items() if v != 1}
    probs = []
    if bad or len(r.delivered) != n_between + 1 or r.raised:
        probs.append(f"{n_between + 1} messages sent by two senders, {len(r.delivered)} handed to the application; wrong multiplicity: {dict(list(bad.items())[:3])}; receiver raised: {r.raised!r}")
    return probs, {"frames_between_first_delivery_and_retry": n_between}


def frame_shapes():
    """every frame sequence of length 0..4 over {Syn, plain message, payload header, raw value}: either the documented
    valid shapes are accepted with the right result, or ValueError"""
    from cascade.executor.msg import Ack, DatasetPurge, DatasetTransmitPayload, DatasetTransmitPayloadHeader, Syn
    from cascade.executor.serde import ser_message
    from cascade.low.core import DatasetId
    net = Net()
    comms = install(net)
    FakePoller.hook = None
    ds = DatasetId("t", "0")
    msg = DatasetPurge(ds)
    hdr = DatasetTransmitPayloadHeader("c", 3, ds, "d")
    alphabet = {"S": lambda i: ser_message(Syn(100 + i, "X")), "M": lambda i: ser_message(msg), "H": lambda i: pickle.dumps(hdr), "V": lambda i: b"value"}
    net.inbox.setdefault("X", [])
    problems, cases = [], 0
    valid = {("M",): msg, ("H", "V"): DatasetTransmitPayload(hdr, b"value"), ("S", "M"): msg, ("S", "H", "V"): DatasetTransmitPayload(hdr, b"value")}
    n = 0
    for L in range(0, 5):
        for shape in itertools.product("SMHV", repeat=L):
            cases += 1
            n += 1
            l = comms.Listener(f"L{n}")
            frames = [alphabet[c](n) for c in shape]
            net.inbox[l.address].append(frames)
            try:
                got = l._recv_one(0)
                err = None
            except ValueError as e:
                got, err = None, e
            except Exception as e:  # noqa - e.g. unpickling raw bytes: still a rejection, but of the wrong kind? property says "rejected with an error"
                got, err = None, e
            # the frame after a payload header is the value: ANY bytes are legal there
            if len(shape) == 2 and shape[0] == "H":
                expect = DatasetTransmitPayload(hdr, frames[1])
            elif len(shape) == 3 and shape[:2] == ("S", "H"):
                expect = DatasetTransmitPayload(hdr, frames[2])
            else:
                expect = valid.get(shape)
            if expect is not None:
                if err is not None or got != expect:
                    problems.append(f"valid frame shape {shape}: expected {expect!r}, got {got!r} / {err!r}")
            else:
                if err is None and got is not None:
                    problems.append(f"malformed frame shape {shape} was delivered as {got!r}")
    return problems, cases


def owner_loops(seed):
    """the REAL Bridge.recv_events and Executor.recv_loop against a generic peer, with the first transmission of every
    data frame dropped: each message must still be handed over exactly once (or the sender raises)"""
    import cascade.executor.bridge as bridge_mod
    import cascade.executor.executor as exe_mod
    from cascade.executor.msg import DatasetPublished, DatasetPurge, TaskFailure
    from cascade.low.core import DatasetId, WorkerId
    problems = []
    # ---- executor -> controller through the real Executor.recv_loop ------------------------------------------
    # adversary: for every subset S of the messages, the FIRST transmission of exactly the messages in S is lost (so a later message may get
    # through - and be acknowledged - before an earlier one is retransmitted); everything else is delivered
    class Stop(BaseException):
        pass

    class H:
        exitcode = None
        pid = 1
    w = WorkerId("h0", "w0")
    for lost, tick_ms in [(l, t) for t in (900, 100) for l in ([0, 1, 2], [0], [1], [0, 1], [0, 2], [1, 2], [2], [])]:
        # tick_ms: how far the clock moves per poll - with 100 ms an acknowledgement comes back well inside the 800 ms resend grace
        net = Net()
        comms = install(net)
        exe_mod.callback = comms.callback
        ex = object.__new__(exe_mod.Executor)
        ex.mlistener = comms.Listener("E")
        ex.sender = comms.ReliableSender("E", 800)
        ex.sender.add_host("controller", "C")
        ex.workers, ex.datasets, ex.terminating, ex.host = {}, set(), False, "h0"
        ex.heartbeat_watcher = comms.GraceWatcher(10 ** 9)
        ex.heartbeat_watcher.step()
        ex.shm_process, ex.data_server = H(), H()
        ex.registration = None
        ex.terminate = lambda ex=ex: setattr(ex, "terminating", True)
        ctrl = Endpoint(comms, "C")
        ctrl.sender.add_host("h0", "E")
        local = [TaskFailure(w, "t1", "boom"), DatasetPublished(w, DatasetId("t", "0"), None), DatasetPublished(w, DatasetId("t", "1"), None)]
        for m in local:
            comms.callback("E", m)  # what a worker does: an un-Syn'ed local message to its executor
        dropped, polls, ordinal = set(), [0], {}

        def hook(net=net, ctrl=ctrl, dropped=dropped, polls=polls, ordinal=ordinal, lost=lost, tick_ms=tick_ms):
            polls[0] += 1
            if polls[0] > (80 if tick_ms >= 900 else 400):
                raise Stop()
            for dest, frames in list(net.wire):
                net.wire.remove((dest, frames))
                key = frames[0]
                if len(frames) >= 2 and dest == "C":   # an acknowledged data frame of the executor (first frame is its Syn)
                    ordinal.setdefault(key, len(ordinal))
                    if ordinal[key] in lost and key not in dropped:
                        dropped.add(key)
                        continue
                net.inbox[dest].append(frames)
            ctrl.step()
            net.now += tick_ms * 1_000_000
        FakePoller.hook = hook
        for dest, frames in list(net.wire):  # the local messages reach the executor
            net.wire.remove((dest, frames))
            net.inbox[dest].append(frames)
        try:
            ex.recv_loop()
        except Stop:
            pass
        FakePoller.hook = None
        got = [m for m in ctrl.delivered if not isinstance(m, exe_mod.ExecutorFailure)]
        failed = [m for m in ctrl.delivered if isinstance(m, exe_mod.ExecutorFailure)]
        if sorted(map(repr, got)) != sorted(map(repr, local)) and not failed:
            problems.append(f"executor->controller with the first transmission of messages {lost} lost ({tick_ms} ms per poll): controller application received {list(map(repr, got))}, expected "
                            f"{list(map(repr, local))} (in flight at the executor: {len(ex.sender.inflight)}; the executor neither resent nor reported)")
            break
    # ---- controller side through the real Bridge.recv_events ----------------------------------------------------
    net = Net()
    comms = install(net)
    br = object.__new__(bridge_mod.Bridge)
    br.mlistener = comms.Listener("C")
    br.sender = comms.ReliableSender("C", 800)
    br.sender.add_host("h0", "E")
    br.heartbeat_checker = {"h0": comms.GraceWatcher(10 ** 9)}
    br.transmit_idx_counter = 0
    peer = Endpoint(comms, "E")
    peer.sender.add_host("controller", "C")
    br.purge("h0", DatasetId("t", "9"))  # controller -> executor, first transmission dropped
    ev = DatasetPublished(w, DatasetId("t", "1"), None)
    peer.sender.send("controller", ev)
    dropped, polls = set(), [0]
    FakePoller.hook = hook.__class__(hook.__code__, {**hook.__globals__}, "hook2", None, hook.__closure__) if False else None

    def hook2():
        polls[0] += 1
        if polls[0] > 80:
            raise Stop()
        for dest, frames in list(net.wire):
            net.wire.remove((dest, frames))
            key = frames[0]
            if len(frames) >= 2 and key not in dropped:
                dropped.add(key)
                continue
            net.inbox[dest].append(frames)
        peer.step()
        net.now += 900 * 1_000_000
    FakePoller.hook = hook2
    events = []
    try:
        events = br.recv_events()
        for _ in range(6):  # let the retry of the purge happen
            hook2()
            br.sender.maybe_retry()
            for m in br.mlistener.recv_messages(0):
                from cascade.executor.msg import Ack
                if isinstance(m, Ack):
                    br.sender.ack(m.idx)
    except Stop:
        pass
    except ValueError as e:
        problems.append(f"Bridge.recv_events raised {e!r} although every message could be delivered on retry")
    FakePoller.hook = None
    # the controller WAITS for an event that only comes once its own (lost) command got through: nothing but the waiting loop of recv_events can
    # resend it.  The executor answers the purge it finally receives with a publication.
    net = Net()
    comms = install(net)
    br2 = object.__new__(bridge_mod.Bridge)
    br2.mlistener = comms.Listener("C")
    br2.sender = comms.ReliableSender("C", 800)
    br2.sender.add_host("h0", "E")
    br2.heartbeat_checker = {"h0": comms.GraceWatcher(10 ** 9)}
    br2.transmit_idx_counter = 0
    peer2 = Endpoint(comms, "E")
    peer2.sender.add_host("controller", "C")
    br2.purge("h0", DatasetId("t", "7"))
    dropped2, polls2, answered = set(), [0], [False]

    def hook3():
        polls2[0] += 1
        if polls2[0] > 120:
            raise Stop()
        for dest, frames in list(net.wire):
            net.wire.remove((dest, frames))
            key = frames[0]
            if len(frames) >= 2 and dest == "E" and key not in dropped2:
                dropped2.add(key)          # the first transmission of the controller's command is lost
                continue
            net.inbox[dest].append(frames)
        peer2.step()
        if peer2.delivered and not answered[0]:
            answered[0] = True
            peer2.sender.send("controller", DatasetPublished(w, DatasetId("t", "8"), None))
        net.now += 300 * 1_000_000
    FakePoller.hook = hook3
    waited = None
    try:
        waited = br2.recv_events()
    except Stop:
        pass
    except ValueError:
        waited = "raised"   # giving up loudly is allowed ("the sender raises after a bounded number of retries")
    FakePoller.hook = None
    if waited is None:
        problems.append(f"controller waiting in recv_events after its command was lost once: polled {polls2[0]} times ({polls2[0] * 0.3:.0f} simulated s), the command was "
                        f"neither resent nor given up on (in flight: {len(br2.sender.inflight)}, executor received {list(map(repr, peer2.delivered))})")
    if list(map(repr, events)) != [repr(ev)]:
        problems.append(f"controller application received {list(map(repr, events))}, expected exactly [{ev!r}]")
    if list(map(repr, peer.delivered)) != [repr(DatasetPurge(DatasetId("t", "9")))]:
        problems.append(f"executor application received {list(map(repr, peer.delivered))}, expected exactly one DatasetPurge")
    return problems


def run(out, tier, seed):
    t0 = time.time()
    failures, samples = [], []
    seen = set()

    def add(ob, desc, what, cls="other"):
        if ob in seen:
            return
        seen.add(ob)
        failures.append({"obligation": ob, "inputs": desc, "observed": what[:600], "class": cls, "clause": ob})
    cases, nontrivial = 0, 0
    probs, n = frame_shapes()
    cases += n
    for p in probs:
        add("C06/malformed-frames-rejected", "frame shapes", p)
    for d in ("ab",):
        probs, desc = permanent_loss(d)
        cases += 1
        for p in probs:
            add("C06/sender-raises-after-bounded-retries", desc, p)
        samples.append({"permanent loss": desc})
    for n_between in ((0, 1, 7, 300, 5000) if tier == "quick" else (0, 1, 7, 300, 5000, 70000)):
        probs, desc = late_duplicate(n_between)
        cases += 1
        nontrivial += 1
        for p in probs:
            add("C06/late-duplicate-suppressed", desc, p)
    probs = owner_loops(seed)
    cases += 2
    for p in probs:
        add("C06/owner-loops-drive-retries", "real Executor.recv_loop / Bridge.recv_events, first transmission of each data frame dropped", p)
    budget = 25 if tier == "quick" else 300
    i = 0
    while time.time() - t0 < budget:
        sd = seed * 1_000_003 + i
        rng = random.Random(sd)
        probs, desc = scenario(sd, rng.randint(0, 3), rng.randint(0, 3), rng.choice([0.0, 0.2, 0.4]), rng.choice([0.0, 0.2, 0.3]), rng.randint(0, 6))
        cases += 1
        if desc["faults"]:
            nontrivial += 1
        if len(samples) < 3 and desc["faults"]:
            samples.append(desc)
        for p in probs:
            add("C06/exactly-once-or-raise", desc, p)
        i += 1
    out.add_bounded("acknowledged messaging under loss/duplication/delay", "exhaustive frame shapes + seeded random adversary",
                    f"all frame sequences of length 0..4 over {{Syn, message, payload header, raw}}; permanent loss; a retry arriving after 0..5000 (thorough: 70000) acknowledged frames of another sender; the real owner loops with every first transmission dropped; "
                    f"random adversary: 0..3 messages per direction, per-frame drop p in {{0,.2,.4}}, duplicate p in {{0,.2,.3}}, <= 6 faults, arbitrary interleaving of sends, "
                    f"deliveries, endpoint loop steps and clock ticks, for {budget}s; non-trivial = at least one fault injected", cases, nontrivial, time.time() - t0, samples, failures)
