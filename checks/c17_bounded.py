"""Bounded stand-in for the C17 encodings that are outside pyvc (pickle / orjson / pydantic): labelled bounded, never proof."""
import itertools
import pickle
import time


def run(out, tier, seed):
    t0 = time.time()
    cases, failures, samples = 0, [], []
    import cascade.executor.msg as msg
    import cascade.executor.serde as serde
    from cascade.low.core import DatasetId, WorkerId
    import cascade.controller.report as report
    ds = [DatasetId("t", "0"), DatasetId("", ""), DatasetId("a.b", "10")]
    # identifiers are free-form strings: the pool carries every character the code base itself uses as a separator in reprs / addresses (. : / space)
    ws = [WorkerId("h0", "w0"), WorkerId("", "w12"), WorkerId("node1.cluster.local", "w0"), WorkerId("10.0.0.1:5555", "gpu.1"), WorkerId("h.", ".w /x")]
    ds += [DatasetId("t.u:v", "a.b"), DatasetId("x y/z", ".")]
    insts = []
    for d, w in itertools.product(ds, ws):
        h0 = w.host or "h0"
        insts += [msg.Syn(0, "tcp://x:1"), msg.Syn(2**40, ""), msg.Ack(0), msg.Ack(2**33),
                  msg.TaskSequence(w, ["a", "b"], {d}), msg.TaskSequence(w, [], set()), msg.TaskFailure(w, None, "boom"), msg.TaskFailure(w, "t", ""),
                  msg.DatasetPublished(w, d, None), msg.DatasetPublished(h0, d, 2**32), msg.DatasetPurge(d),
                  msg.DatasetTransmitCommand(h0, "h1", "tcp://y:2", d, 2**32 + 1),
                  msg.DatasetTransmitPayload(msg.DatasetTransmitPayloadHeader("tcp://z:3", 7, d, "cloudpickle.loads"), b"\x00" * 5),
                  msg.DatasetTransmitFailure(h0, "x"), msg.ExecutorFailure(h0, "y"), msg.ExecutorExit(h0),
                  msg.ExecutorRegistration(h0, "m", "d", [msg.Worker(w, 1, 0, 1024)]), msg.ExecutorShutdown(), msg.WorkerReady(w), msg.WorkerShutdown()]
    for m in insts:
        cases += 1
        try:
            back = serde.des_message(serde.ser_message(m))
            if back != m:
                failures.append({"obligation": "C17/serde-roundtrip", "inputs": repr(m), "observed": repr(back), "class": "serde"})
        except Exception as e:  # noqa
            failures.append({"obligation": "C17/serde-roundtrip", "inputs": repr(m), "observed": repr(e), "class": "serde"})
    samples.append({"executor message": repr(insts[4])[:120]})
    for r in [report.ControllerReport("j", "10.00", 5, []), report.ControllerReport("j", None, 2**63, [(ds[0], b"abc"), (ds[2], b"")]),
              report.ControllerReport("", report.JobProgressShutdown, 0, [])]:
        cases += 1
        back = report.deserialize(report.serialize(r))
        if back != r:
            failures.append({"obligation": "C17/report-roundtrip", "inputs": repr(r), "observed": repr(back), "class": "report"})
    # framing: what the REAL sending functions put on a (fake) socket, fed to the REAL Listener._recv_one through a fake poller
    try:
        c_f, f_f = framing_cases(insts)
        cases += c_f
        failures += f_f
    except Exception as e:  # noqa
        out.notes.append(f"framing stand-in skipped: {e!r}")
    # gateway JSON + JobInstance
    try:
        cases_g, fails_g, samp = gateway_cases()
        cases += cases_g
        failures += fails_g
        samples += samp
    except Exception as e:  # noqa
        out.notes.append(f"gateway stand-in skipped: {e!r}")
    out.add_bounded("pickle/JSON encodings", "enumerated instances", "every executor message class x 25 id combinations (ids with every separator character the code uses: . : / space, empty strings) (serde round trip, and framed by the real send / callback / send_data then decoded by the real _recv_one); 3 controller reports; "
                    "gateway requests/responses and JobInstance JSON for 4 job shapes", cases, cases, time.time() - t0, samples, failures)


def framing_cases(insts):
    """bounded stand-in of the C17 framing harnesses: send / send_data / callback -> frames -> _recv_one"""
    import cascade.executor.comms as comms
    import cascade.executor.msg as msg
    cases, failures = 0, []
    wire = []

    class Sock:
        def send_multipart(self, frames):
            wire.append(list(frames))

        def send(self, b):
            wire.append([b])

        def recv_multipart(self):
            return wire.pop(0)

        def set(self, *a):
            pass

        def connect(self, *a):
            pass

    class Poller:
        def poll(self, t=None):
            return [(Sock(), 1)] if wire else []

    saved = comms.get_socket
    comms.get_socket = lambda address: Sock()
    try:
        def listener():
            li = object.__new__(comms.Listener)
            li.address, li.socket, li.poller, li.acked = "a", Sock(), Poller(), set()
            return li

        def expect(kind, m, got):
            if got != m:
                failures.append({"obligation": f"C17/framing-{kind}", "inputs": repr(m), "observed": repr(got), "class": "framing"})
        for i, m in enumerate(insts):
            wire.clear()
            cases += 1
            sender = comms.ReliableSender("tcp://me:1", 100)
            sender.hosts["h"] = (Sock(), "x")
            sender.idx = i * 7
            try:
                if not isinstance(m, msg.Syn):  # Syn is the envelope of the acknowledged layer, never its payload
                    sender.send("h", m)
                    wire[:] = wire[:1]
                    expect("reliable-send", m, listener()._recv_one(0))
            except Exception as e:  # noqa
                failures.append({"obligation": "C17/framing-reliable-send", "inputs": repr(m), "observed": repr(e), "class": "framing"})
            if not isinstance(m, msg.Syn):
                wire.clear()
                cases += 1
                try:
                    comms.callback("x", m)
                    wire[:] = wire[-1:]
                    expect("local-callback", m, listener()._recv_one(0))
                except Exception as e:  # noqa
                    failures.append({"obligation": "C17/framing-local-callback", "inputs": repr(m), "observed": repr(e), "class": "framing"})
            if isinstance(m, msg.DatasetTransmitPayload):
                wire.clear()
                cases += 1
                try:
                    comms.send_data("x", m, msg.Syn(i, "tcp://me:1"))
                    wire[:] = wire[-1:]
                    expect("send-data", m, listener()._recv_one(0))
                except Exception as e:  # noqa
                    failures.append({"obligation": "C17/framing-send-data", "inputs": repr(m), "observed": repr(e), "class": "framing"})
    finally:
        comms.get_socket = saved
    return cases, failures


def gateway_cases():
    import base64
    import orjson
    import cascade.gateway.api as api
    import cascade.gateway.client as client
    from cascade.low.builders import JobBuilder, TaskBuilder
    from cascade.low.core import DatasetId, JobInstance
    cases, fails, samples = 0, [], []

    def f1(a, b=2):
        return a + b

    def gen(n):
        for i in range(n):
            yield i
    jobs = []
    t = TaskBuilder.from_callable(f1)
    jobs.append(JobBuilder().with_node("a", t.with_values(1, b=3)).with_node("b", t).with_edge("a", "b", "a").build().get_or_raise())
    jobs.append(JobBuilder().with_node("a", t.with_values(a=1)).with_node("b", t.with_values(b=5)).with_edge("a", "b", 0).build().get_or_raise())
    jobs.append(JobInstance(tasks={}, edges=[]))
    j3 = jobs[0].model_copy(update={"ext_outputs": [DatasetId("b", "0")]})
    jobs.append(j3)
    for j in jobs:
        cases += 1
        back = JobInstance(**orjson.loads(orjson.dumps(j.model_dump(mode="json"))))
        if back.model_dump() != j.model_dump():  # the builder hands out TaskBuilder (a TaskInstance subclass): compare contents, not classes
            fails.append({"obligation": "C17/jobinstance-json", "inputs": repr(j)[:300], "observed": repr(back)[:300], "class": "jobinstance"})
    samples.append({"job instance": repr(jobs[1])[:160]})
    reqs = [api.JobProgressRequest(job_ids=[]), api.JobProgressRequest(job_ids=["a", ""]), api.ResultRetrievalRequest(job_id="j", dataset_id=DatasetId("t", "0")),
            api.ShutdownRequest(), api.SubmitJobRequest(job=api.JobSpec(benchmark_name=None, envvars={"A": "1"}, job_instance=jobs[0], workers_per_host=2, hosts=1, use_slurm=False))]
    for r in reqs:
        cases += 1
        d = r.model_dump(mode="json")
        d["clazz"] = type(r).__name__
        back = client.parse_request(orjson.dumps(d))
        if back.model_dump() != r.model_dump():
            fails.append({"obligation": "C17/gateway-request", "inputs": repr(r)[:300], "observed": repr(back)[:300], "class": "gateway"})
    resps = [api.SubmitJobResponse(job_id="x", error=None), api.SubmitJobResponse(job_id=None, error="e"), api.JobProgressResponse(progresses={"a": "1.00"}, error=None),
             api.ResultRetrievalResponse(result=base64.b64encode(b"\x00\xff").decode(), error=None), api.ShutdownResponse(error=None)]
    for r in resps:
        cases += 1
        raw = client.serialize_response(r)
        rd = orjson.loads(raw)
        rdc = rd.pop("clazz")
        back = api.__dict__[rdc](**rd)
        if back != r:
            fails.append({"obligation": "C17/gateway-response", "inputs": repr(r)[:300], "observed": repr(back)[:300], "class": "gateway"})
    # the REAL client.request_response against an in-process REQ socket whose peer decodes with the real parse_request
    received = {}

    class FakeSock:
        def set(self, *a):
            pass

        def connect(self, url):
            pass

        def send(self, b):
            received["req"] = client.parse_request(b)
            cls = type(received["req"]).__name__[: -len("Request")] + "Response"
            resp = {"SubmitJobResponse": api.SubmitJobResponse(job_id="j", error=None), "JobProgressResponse": api.JobProgressResponse(progresses={"j": "1.00"}, error=None),
                    "ResultRetrievalResponse": api.ResultRetrievalResponse(result="AA==", error=None), "ShutdownResponse": api.ShutdownResponse(error=None)}[cls]
            received["resp_obj"] = resp
            self.out = client.serialize_response(resp)

        def poll(self, timeout, flags=0):
            return 1

        def recv(self):
            return self.out

    class FakeCtx:
        def socket(self, kind):
            return FakeSock()
    real_ctx = client.zmq.Context
    client.zmq.Context = FakeCtx
    try:
        # job instances whose optional fields are filled IN PLACE after construction (pydantic then considers them 'unset')
        j_inplace = JobInstance(tasks=dict(jobs[0].tasks), edges=list(jobs[0].edges))
        j_inplace.ext_outputs.append(DatasetId("b", "0"))
        j_inplace.serdes["k"] = ("a.ser", "a.des")
        more = [api.SubmitJobRequest(job=api.JobSpec(benchmark_name=None, envvars={}, job_instance=j_inplace, workers_per_host=1, hosts=1, use_slurm=False)),
                api.SubmitJobRequest(job=api.JobSpec(benchmark_name="generators", envvars={"N": "8"}, job_instance=None, workers_per_host=2, hosts=2, use_slurm=True))]
        for r in reqs + more:
            cases += 1
            import threading
            resp = client.request_response(r, "tcp://fake:1")
            got = received["req"]
            if got.model_dump() != r.model_dump():
                fails.append({"obligation": "C17/gateway-request-through-client", "inputs": repr(r)[:300], "observed": "server decoded " + repr(got)[:300], "class": "gateway"})
            if resp.model_dump() != received["resp_obj"].model_dump():
                fails.append({"obligation": "C17/gateway-response-through-client", "inputs": repr(received["resp_obj"])[:300], "observed": repr(resp)[:300], "class": "gateway"})
    finally:
        client.zmq.Context = real_ctx
    return cases, fails, samples
