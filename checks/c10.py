"""C10 - lowering a graph to a job and running a task preserves what each node computes."""
from checks import common

PROVED_TARGETS = ["cascade.low.func:ensure", "cascade.executor.runner.runner:run"]


def run(tier, seed):
    out = common.Outcome("C10", tier, seed)
    if PROVED_TARGETS:
        out.add_pyvc(common.pyvc_run(PROVED_TARGETS, timeout_ms=10000 if tier == "quick" else 60000))
    from checks import c10_bounded
    c10_bounded.run(out, tier, seed)
    from checks import extra_bounded
    extra_bounded.c10_shared_instances(out, tier, seed)
    out.assumptions += ["cloudpickle round-trips the recorder callables; the thin Memory subclass used by the stand-in keeps values in-process instead of shm"]
    return out.finish("exploration", rule="see bounded_standins[].bound", explanation="real graph2job + execute_sequence + runner.run on enumerated graphs; recorder callables make every argument position and every output binding observable")
