"""Bounded stand-in for C11: graph transformations preserve the computation the graph denotes.

The real `copy_graph`, `rename_nodes`, `join_namespaced`, `deduplicate_nodes`, `fuse_nodes`, `split_graph` and
`expand_graph` of `earthkit.workflows.graph` are run on EVERY small DAG up to a stated bound (then on seeded random
larger ones) and the result is compared with a reference model that never touches the code under test:

  den(node)        = App(payload, {input name -> (den(parent), output name)})            (hash-consed per case)
  den(fused node)  = the same expression with the fused payload unfolded into parent and child applications
  den(expansion)   = the sub-graph evaluated with its mapped sources applied to the expanded node's inputs

Everything the property is silent about is accepted: order of sinks, node names of the result, whether the input graph
is mutated (except for `copy_graph`), which of two equal nodes survives de-duplication, whether sub-graph sinks that
no output selects are kept when the expanded node is not a sink, error texts.

Not demanded either (the property does not state it, so changes there go unnoticed on purpose): that `fuse_nodes` offers
only parents with a single consumer to the callback (fusing a shared parent duplicates work but denotes the same), that
`split_graph` cuts an edge only when the keys differ (cutting inside a part still re-joins to the original), that
`copy_graph` shares no node with its input.

Sub-spaces (one `add_bounded` record each): copy / rename+join / deduplicate / fuse / split / expand / seeded random.

FOUND DEFECTS (current /repo tree; the checks stay, each with its own class)
---------------------------------------------------------------------------
1. class 'output-named-like-node-attribute' (known before): `Transformer.__transform_output` does
   `getattr(node, output.name)`; an output called 'name', 'inputs', 'outputs', 'payload' (or any other attribute of
   Node / of expand's _Subgraph, e.g. 'copy', 'leaves') resolves to that attribute, not to the Output.
       from earthkit.workflows.graph import Node, Graph, copy_graph
       a = Node("a", outputs=["name", "b"]); s = Node("s", outputs=[], x=a.get_output("name"))
       print(copy_graph(Graph([s])).sinks[0].inputs)        # {'x': 'a'}  - a str, not an Output
2. class 'input-named-like-callback-parameter' (found by this harness): the transformer callbacks take the node as a
   named positional parameter and the inputs as **kwargs (`_Copier.node(self, node, **inputs)`, `_Renamer.node(self, n,
   ...)`, `_DedupTransformer.node`, `_FuseTransformer.node`, `Splitter.node`, `_Expander.node(self, n, ...)`,
   `Splicer.processor(self, p, ...)`, `Splicer.sink(self, s, ...)`), so a perfectly constructible input called
   'node' / 'n' / 'p' / 's' makes the transformation raise TypeError.
       from earthkit.workflows.graph import Node, Graph, copy_graph
       a = Node("a"); s = Node("s", outputs=[], node=a)
       copy_graph(Graph([s]))   # TypeError: _Copier.node() got multiple values for argument 'node'
"""
import itertools
import random
import time
from collections import Counter

SEP = "\x1f"  # joins "child input" + "parent input" in the inputs of a node made by our fusion callbacks; never in a name

CL_SINK = ("every sink of the result denotes the same expression over payloads as the corresponding sink of the input, "
           "for any node, input and output names")
CL_DEDUP_EQ = "De-duplication additionally leaves no two nodes with equal payload, outputs and inputs"
CL_DEDUP_IDEM = "De-duplication ... is idempotent"
CL_SPLIT_ONE = "splitting places every node in exactly one part"
CL_SPLIT_JOIN = "the parts re-joined along the reported cut edges give back the original"
CL_EXPAND = "expansion wires each consumer of an expanded node to the sub-graph leaf selected by the output map"

KNOWN_ATTR = "output-named-like-node-attribute"
KNOWN_PARAM = "input-named-like-callback-parameter"


# ------------------------------------------------------------------------------------------------ structures
def enum_structs(n, lone_y=True, connected=False, terminal_kinds="SD", max_terminals=None):
    """All DAGs on nodes 0..n-1 (index order is a topological order).

    node = (kind, inputs); kind 'S' = no outputs (true sink), 'D' = one default output, 'M' = two named outputs;
    inputs = () | ((slot, (parent, out_idx)),) | ((0, a), (1, b)) with parent < node, a and b free (also equal).
    Nodes nobody consumes are the graph's sinks; they are never 'M' (unused named outputs add nothing) and a node with
    neither inputs nor outputs only appears as the 1-node graph."""

    def rec(i, nodes, used):
        if i == n:
            terms = 0
            for j, (k, inp) in enumerate(nodes):
                if j not in used:
                    terms += 1
                    if k not in terminal_kinds:
                        return
                    if k == "S" and not inp and n > 1:
                        return
            if max_terminals is not None and terms > max_terminals:
                return
            if connected and n > 1:
                adj = {j: set() for j in range(n)}
                for j, (k, inp) in enumerate(nodes):
                    for _s, (p, _o) in inp:
                        adj[j].add(p)
                        adj[p].add(j)
                seen, st = {0}, [0]
                while st:
                    v = st.pop()
                    for w in adj[v]:
                        if w not in seen:
                            seen.add(w)
                            st.append(w)
                if len(seen) < n:
                    return
            yield tuple(nodes)
            return
        avail = []
        for j, (k, _inp) in enumerate(nodes):
            if k == "D":
                avail.append((j, 0))
            elif k == "M":
                avail += [(j, 0), (j, 1)]
        ins = [()]
        for a in avail:
            ins.append(((0, a),))
            if lone_y:
                ins.append(((1, a),))
        for a in avail:
            for b in avail:
                ins.append(((0, a), (1, b)))
        for kind in "SDM":
            for inp in ins:
                nodes.append((kind, inp))
                yield from rec(i + 1, nodes, used | {p for _s, (p, _o) in inp})
                nodes.pop()

    yield from rec(0, [], frozenset())


def random_struct(rng, n):
    """A random DAG in the same representation (up to 3 inputs are not needed: 2 slots as in the enumeration)."""
    while True:
        nodes = []
        for i in range(n):
            avail = []
            for j, (k, _inp) in enumerate(nodes):
                if k == "D":
                    avail.append((j, 0))
                elif k == "M":
                    avail += [(j, 0), (j, 1)]
            kind = rng.choice("SDDMM" if i < n - 1 else "SSD")
            r = rng.random()
            if not avail or r < 0.15:
                inp = ()
            elif r < 0.45:
                inp = ((rng.randrange(2), rng.choice(avail)),)
            else:
                inp = ((0, rng.choice(avail)), (1, rng.choice(avail)))
            nodes.append((kind, inp))
        used = {p for _k, inp in nodes for _s, (p, _o) in inp}
        ok = True
        fixed = []
        for j, (k, inp) in enumerate(nodes):
            if j not in used:
                if k == "M":
                    k = "D"
                if k == "S" and not inp and n > 1:
                    ok = False
            fixed.append((k, inp))
        if ok:
            return tuple(fixed)


class Scheme:
    def __init__(self, tag, nodes, ins, outs, sub_nodes, sub_ins):
        self.tag, self.nodes, self.ins, self.outs, self.sub_nodes, self.sub_ins = tag, nodes, ins, outs, sub_nodes, sub_ins


PLAIN = Scheme("plain", ["n%d" % i for i in range(10)], ("x", "y"), [("a", "b")], ["u%d" % i for i in range(6)], ("x", "y"))
# names that are prefixes of / share characters with each other, with the '.' used by the splicer, and with output names
PREFIXY = Scheme("prefix", ["a", "a.a", "aa", "a.", ".a", "a.a.a", "aaa", ".", "a..a", "a.aa"], ("a", "a.a"),
                 [("a", "a.a"), ("0", "1"), ("a.", ".a")], ["a", "aa", "a.a", ".a", "a.", "."], ("a", "a."))
PREFIXY2 = Scheme("prefix2", ["ab", "ba", "b", "ab.b", "a", "b.ab", "abab", "ab.", "bab", "b."], ("b", "ab"),
                  [("ba", "b"), ("ab", "a")], ["ba", "b", "ab", "b.a", "a.b", "bab"], ("ba", "ab.b"))
# output names that are attributes of Node / _Subgraph (known defect) - node and input names of the same flavour
ATTR = Scheme("attr", ["name", "inputs", "outputs", "payload", "copy", "parent", "leaves", "output_map", "get_output", "sinks"],
              ("inputs", "input"), [("name", "payload"), ("inputs", "outputs"), ("copy", "leaves")],
              ["name", "inputs", "outputs", "payload", "copy", "leaves"], ("input", "inputs"))
# input names equal to the parameter names of the transformer callbacks (defect 2) - 'self', 'name', 'outputs', 'payload'
# cannot be built through the Node constructor and are left out
PARAM = Scheme("param", ["node", "n", "s", "p", "self", "g", "graph", "func", "k", "key"], ("node", "n"), [("node", "n")],
               ["s", "p", "n", "node", "self", "g"], ("s", "p"))


class Spec:
    """Pure-data description of a graph; the reference model works on this, the code under test on build(spec)."""
    __slots__ = ("names", "payloads", "outs", "ins", "sinks", "kinds")

    def __init__(self, names, payloads, outs, ins, sinks, kinds):
        self.names, self.payloads, self.outs, self.ins, self.sinks, self.kinds = names, payloads, outs, ins, sinks, kinds

    def n(self):
        return len(self.names)

    def outputs(self, i):
        return ["0"] if self.outs[i] is None else list(self.outs[i])

    def edges(self):
        return [(p, on, i, iname) for i, d in enumerate(self.ins) for iname, (p, on) in d.items()]

    def json(self):
        return {"nodes": [{"name": self.names[i], "payload": self.payloads[i],
                           "outputs": "default" if self.outs[i] is None else list(self.outs[i]),
                           "inputs": {k: [self.names[p], on] for k, (p, on) in self.ins[i].items()}} for i in range(self.n())],
                "sinks": [self.names[i] for i in self.sinks]}


def make_spec(struct, names, in_names, out_pairs, payloads):
    n = len(struct)
    outs, ins, kinds = [], [], []
    for i, (kind, inp) in enumerate(struct):
        kinds.append(kind)
        outs.append([] if kind == "S" else None if kind == "D" else list(out_pairs[i % len(out_pairs)]))
    for i, (kind, inp) in enumerate(struct):
        d = {}
        for slot, (p, oi) in inp:
            d[in_names[slot]] = (p, "0" if outs[p] is None else outs[p][oi])
        ins.append(d)
    used = {p for d in ins for (p, _on) in d.values()}
    sinks = [i for i in range(n) if i not in used]
    return Spec(list(names[:n]), list(payloads[:n]), outs, ins, sinks, kinds)


def scheme_spec(struct, sch, payloads=None):
    n = len(struct)
    return make_spec(struct, sch.nodes, sch.ins, sch.outs, payloads or ["p%d" % i for i in range(n)])


def build(G, spec):
    """spec -> (Graph, [Node]) with the real classes"""
    nodes = []
    for i in range(spec.n()):
        kw = {iname: G.Output(nodes[p], on) for iname, (p, on) in spec.ins[i].items()}
        outs = None if spec.outs[i] is None else list(spec.outs[i])
        nodes.append(G.Node(spec.names[i], outs, spec.payloads[i], **kw))
    return G.Graph([nodes[i] for i in spec.sinks]), nodes


# ------------------------------------------------------------------------------------------------ denotation
class Interner:
    def __init__(self):
        self.d = {}

    def __call__(self, t):
        return self.d.setdefault(t, len(self.d))


class Fused:
    """payload of a node produced by our fusion callbacks: child(.., cin=parent(..).pout, ..)"""
    __slots__ = ("pp", "pout", "cp", "cin")

    def __init__(self, pp, pout, cp, cin):
        self.pp, self.pout, self.cp, self.cin = pp, pout, cp, cin


def mk(it, payload, ins):
    """ins: {input name: (den of parent, output name)}"""
    if isinstance(payload, Fused):
        pre = payload.cin + SEP
        pins = {k[len(pre):]: v for k, v in ins.items() if k.startswith(pre)}
        cins = {k: v for k, v in ins.items() if not k.startswith(pre)}
        cins[payload.cin] = (mk(it, payload.pp, pins), payload.pout)
        return mk(it, payload.cp, cins)
    return it(("A", payload, tuple(sorted(ins.items()))))


def spec_dens(it, spec):
    dens = []
    for i in range(spec.n()):
        dens.append(mk(it, spec.payloads[i], {k: (dens[p], on) for k, (p, on) in spec.ins[i].items()}))
    return dens


def spec_dens_plus(it, spec):
    """denotation that also records the declared outputs of every node (used for de-duplication bookkeeping only)"""
    dens = []
    for i in range(spec.n()):
        dens.append(it(("P", spec.payloads[i], tuple(spec.outputs(i)),
                        tuple(sorted((k, (dens[p], on)) for k, (p, on) in spec.ins[i].items())))))
    return dens


class Malformed(Exception):
    pass


def _fields(node):
    try:
        d = node.__dict__
        return d["inputs"], d["payload"], d["outputs"], d["name"]
    except Exception:
        raise Malformed("not a node: %.60r" % (node,))


def real_den(it, node, memo, plus=False, _stack=None):
    """denotation of a real node of a result graph; raises Malformed if the structure is not a graph of nodes"""
    key = id(node)
    if key in memo:
        return memo[key][0]
    stack = _stack if _stack is not None else set()
    if key in stack:
        raise Malformed("cycle through node %.40r" % (node,))
    stack.add(key)
    inputs, payload, outputs, _name = _fields(node)
    if not isinstance(inputs, dict):
        raise Malformed("inputs of %.40r is %.40r" % (node, inputs))
    ins = {}
    for k, src in inputs.items():
        try:
            par, on = src.__dict__["parent"], src.__dict__["name"]
        except Exception:
            raise Malformed("input %r of node %r is %.60r, not an Output" % (k, _name, src))
        pouts = _fields(par)[2]
        if on not in pouts:
            raise Malformed("input %r of node %r refers to output %r which %r does not have" % (k, _name, on, _fields(par)[3]))
        ins[k] = (real_den(it, par, memo, plus, stack), on)
    stack.discard(key)
    if plus:
        d = it(("P", payload, tuple(outputs), tuple(sorted(ins.items()))))
    else:
        d = mk(it, payload, ins)
    memo[key] = (d, node)  # keep the node alive so that ids stay unique
    return d


def reach(sinks):
    """all nodes reachable from the given nodes (own traversal; never Graph.nodes())"""
    seen, order, todo = set(), [], list(sinks)
    while todo:
        nd = todo.pop()
        if id(nd) in seen:
            continue
        seen.add(id(nd))
        order.append(nd)
        inputs = _fields(nd)[0]
        if not isinstance(inputs, dict):
            raise Malformed("inputs of %.40r is %.40r" % (nd, inputs))
        for k, src in inputs.items():
            try:
                todo.append(src.__dict__["parent"])
            except Exception:
                raise Malformed("input %r of node %r is %.60r, not an Output" % (k, _fields(nd)[3], src))
    return order


def sinks_of(g):
    try:
        s = g.sinks
        return list(s)
    except Exception:
        raise Malformed("result %.60r has no list of sinks" % (g,))


# ------------------------------------------------------------------------------------------------ bookkeeping
class Rec:
    def __init__(self, budget):
        self.t0 = time.time()
        self.deadline = self.t0 + budget
        self.cases = 0
        self.nontrivial = 0
        self.samples = []
        self.fail = {}
        self.fcount = Counter()
        self.truncated = False
        self.calls = 0

    def over(self):
        self.calls += 1
        if self.calls % 8 == 0 and time.time() > self.deadline:
            self.truncated = True
        return self.truncated

    def add(self, obligation, cls, inputs, observed, clause):
        key = (obligation, cls)
        self.fcount[key] += 1
        if key not in self.fail and len(self.fail) < 20:
            self.fail[key] = {"obligation": obligation, "inputs": inputs, "observed": str(observed)[:300], "clause": clause, "class": cls}

    def failures(self):
        res = []
        for key, f in self.fail.items():
            f = dict(f)
            if self.fcount[key] > 1:
                f["observed"] += " [%d cases fail this way]" % self.fcount[key]
            res.append(f)
        return res

    def emit(self, out, name, driver, bound):
        if self.truncated:
            bound += " [TIME GUARD: enumeration stopped early after %d cases]" % self.cases
        out.add_bounded(name, driver, bound, self.cases, self.nontrivial, time.time() - self.t0, self.samples[:3], self.failures())


class Env:
    """the code under test + what is needed to classify failures that are due to the two known naming defects"""

    def __init__(self):
        import earthkit.workflows.graph as G

        self.G = G
        self.node_attrs = set(dir(G.Node("x")))
        try:
            from earthkit.workflows.graph.expand import _Subgraph

            self.sub_attrs = set(dir(_Subgraph("x", {}, {}, [])))
        except Exception:
            self.sub_attrs = {"name", "leaves", "output_map", "inner_sinks", "get_output"}

    PARAMS = {"copy": {"node"}, "rename": {"n"}, "dedup": {"node"}, "fuse": {"node"}, "split": {"node"}, "expand": {"n"}}
    SUB_PARAMS = {"p", "s", "name"}

    def classify(self, what, spec, plan=None):
        """class of a failure of transformation `what` on this case"""
        if what != "split":  # Splitter defines output() and never goes through getattr
            for (p, on, _i, _k) in spec.edges():
                if on in self.node_attrs:
                    return KNOWN_ATTR
                if plan and p in plan and on in self.sub_attrs:
                    return KNOWN_ATTR
            if plan:
                for (sub, _im, _om) in plan.values():
                    for (_p, on, _i, _k) in sub.edges():
                        if on in self.node_attrs:
                            return KNOWN_ATTR
        names = {k for d in spec.ins for k in d}
        if names & self.PARAMS[what]:
            return KNOWN_PARAM
        if plan:
            for (sub, _im, _om) in plan.values():
                if {k for d in sub.ins for k in d} & self.SUB_PARAMS:
                    return KNOWN_PARAM
        return "other"


def guarded(rec, env, what, oblig_prefix, spec, inputs, fn, plan=None):
    """run fn(); any exception or malformed result is a failure of the sink clause"""
    try:
        fn()
        return True
    except Malformed as e:
        rec.add(oblig_prefix + "/malformed-result", env.classify(what, spec, plan), inputs, "result is not a graph of nodes: %s" % e, CL_SINK)
    except Exception as e:  # the transformation (or reading its result) raised on a valid graph
        rec.add(oblig_prefix + "/raised", env.classify(what, spec, plan), inputs, "%s: %s" % (type(e).__name__, e), CL_SINK)
    return False


def ms(xs):
    return Counter(xs)


def fmt_ms(c):
    return sorted(c.items())


# ------------------------------------------------------------------------------------------------ copy
def check_copy(rec, env, spec, tag):
    G = env.G
    rec.cases += 1
    rec.nontrivial += bool(spec.edges())
    inputs = {"transformation": "copy_graph", "names": tag, "graph": spec.json()}

    def body():
        it = Interner()
        want = spec_dens(it, spec)
        g, nodes = build(G, spec)
        r = G.copy_graph(g)
        memo = {}
        got = ms(real_den(it, s, memo) for s in sinks_of(r))
        exp = ms(want[i] for i in spec.sinks)
        if got != exp:
            rec.add("C11/copy/sink-denotation", env.classify("copy", spec), inputs, "sinks of the copy denote %s, input sinks denote %s (interned expression ids)" % (fmt_ms(got), fmt_ms(exp)), CL_SINK)
        memo = {}
        still = [real_den(it, nodes[i], memo) for i in range(spec.n())]
        if still != want:
            rec.add("C11/copy/input-graph-changed", env.classify("copy", spec), inputs, "after copy_graph the nodes of the INPUT graph denote something else", CL_SINK)

    guarded(rec, env, "copy", "C11/copy", spec, inputs, body)


# ------------------------------------------------------------------------------------------------ rename / join
RENAMERS = [
    ("identity", lambda n: n),
    ("prefix 'a.'", lambda n: "a." + n),
    ("constant 'a'", lambda n: "a"),
    ("reverse", lambda n: n[::-1]),
    ("first character", lambda n: n[:1]),
]


def check_rename(rec, env, spec, tag, rname, rfunc):
    G = env.G
    rec.cases += 1
    rec.nontrivial += bool(spec.edges())
    inputs = {"transformation": "rename_nodes", "renamer": rname, "names": tag, "graph": spec.json()}

    def body():
        it = Interner()
        want = spec_dens(it, spec)
        g, _nodes = build(G, spec)
        r = G.rename_nodes(rfunc, g)
        memo = {}
        got = ms(real_den(it, s, memo) for s in sinks_of(r))
        exp = ms(want[i] for i in spec.sinks)
        if got != exp:
            rec.add("C11/rename/sink-denotation", env.classify("rename", spec), inputs, "sinks denote %s, expected %s" % (fmt_ms(got), fmt_ms(exp)), CL_SINK)

    guarded(rec, env, "rename", "C11/rename", spec, inputs, body)


def check_join(rec, env, spec, spec2, tag, namespaces):
    G = env.G
    rec.cases += 1
    rec.nontrivial += bool(spec.edges())
    inputs = {"transformation": "join_namespaced", "namespaces": list(namespaces), "names": tag, "graphs": [spec.json(), spec2.json()]}

    def body():
        it = Interner()
        w1, w2 = spec_dens(it, spec), spec_dens(it, spec2)
        g1, _ = build(G, spec)
        g2, _ = build(G, spec2)
        r = G.join_namespaced(**{namespaces[0]: g1, namespaces[1]: g2})
        memo = {}
        got = ms(real_den(it, s, memo) for s in sinks_of(r))
        exp = ms([w1[i] for i in spec.sinks] + [w2[i] for i in spec2.sinks])
        if got != exp:
            rec.add("C11/join/sink-denotation", env.classify("rename", spec), inputs, "sinks denote %s, expected %s" % (fmt_ms(got), fmt_ms(exp)), CL_SINK)

    guarded(rec, env, "rename", "C11/join", spec, inputs, body)


# ------------------------------------------------------------------------------------------------ deduplicate
def check_dedup(rec, env, spec, tag):
    G = env.G
    rec.cases += 1
    inputs = {"transformation": "deduplicate_nodes", "names": tag, "graph": spec.json()}
    itp = Interner()
    plus = spec_dens_plus(itp, spec)
    if len(set(plus)) < len(plus):
        rec.nontrivial += 1  # at least two nodes are equal in payload, outputs and inputs: something has to be merged

    def body():
        it = Interner()
        want = spec_dens(it, spec)
        g, _nodes = build(G, spec)
        r = G.deduplicate_nodes(g)
        cls = env.classify("dedup", spec)
        memo = {}
        rs = sinks_of(r)
        got = set(real_den(it, s, memo) for s in rs)
        exp = set(want[i] for i in spec.sinks)
        if got != exp:
            rec.add("C11/dedup/sink-denotation", cls, inputs, "sinks denote %s, expected %s" % (sorted(got), sorted(exp)), CL_SINK)
        nodes = reach(rs)
        sigs = Counter()
        for nd in nodes:
            ins_, payload, outputs, _nm = _fields(nd)
            sigs[(payload, tuple(outputs), tuple(sorted((k, id(s.parent), s.name) for k, s in ins_.items())))] += 1
        dup = [k for k, c in sigs.items() if c > 1]
        if dup:
            rec.add("C11/dedup/no-equal-nodes", cls, inputs, "%d nodes of the result share payload %r, outputs %r and identical inputs" % (sigs[dup[0]], dup[0][0], list(dup[0][1])), CL_DEDUP_EQ)
        it2 = Interner()
        m2 = {}
        before = (len(nodes), ms(real_den(it2, nd, m2, plus=True) for nd in nodes), set(real_den(it2, s, m2, plus=True) for s in rs))
        r2 = G.deduplicate_nodes(r)
        rs2 = sinks_of(r2)
        nodes2 = reach(rs2)
        m3 = {}
        after = (len(nodes2), ms(real_den(it2, nd, m3, plus=True) for nd in nodes2), set(real_den(it2, s, m3, plus=True) for s in rs2))
        if before != after:
            rec.add("C11/dedup/idempotent", cls, inputs, "a second de-duplication changes the graph: %d nodes -> %d nodes (or different node/sink structure)" % (before[0], after[0]), CL_DEDUP_IDEM)

    guarded(rec, env, "dedup", "C11/dedup", spec, inputs, body)


# ------------------------------------------------------------------------------------------------ fuse
def fuse_candidates(spec):
    """edges whose parent has exactly one consumer edge: the only ones a correct fuse may offer to the callback"""
    cnt = Counter(p for (p, _on, _i, _k) in spec.edges())
    return [(i, k) for (p, _on, i, k) in spec.edges() if cnt[p] == 1]


def check_fuse(rec, env, spec, tag, accept, accept_desc, inplace=False):
    """accept: set of (child index, child input name) edges on which the callback fuses, or None = every offer.
    inplace: the callback fuses INTO the current node (mutates its payload / inputs / name) and returns that same object - allowed by
    the callback's documented contract ('if it returns a node, use it to replace the current node and its parent')"""
    G = env.G
    rec.cases += 1
    inputs = {"transformation": "fuse_nodes", "callback": ("fuse the parent INTO the current node, returning the same object," if inplace else "fuse child+parent into one node")
              + " (payload records both) on offers " + accept_desc, "names": tag, "graph": spec.json()}
    fused_any = []

    def body():
        it = Interner()
        want = spec_dens(it, spec)
        g, nodes = build(G, spec)
        origin = {id(nd): i for i, nd in enumerate(nodes)}
        keep = list(nodes)

        def cb(parent, pout, cur, cin):
            ci = origin.get(id(cur))
            if accept is not None and (ci, cin) not in accept:
                return None
            new_in = {k: v for k, v in cur.inputs.items() if k != cin}
            for k, v in parent.inputs.items():
                new_in[cin + SEP + k] = v
            if inplace:
                nd = cur
                nd.name = parent.name + "+" + cur.name
                nd.payload = Fused(parent.payload, pout, cur.payload, cin)
            else:
                nd = G.Node(parent.name + "+" + cur.name, list(cur.outputs), Fused(parent.payload, pout, cur.payload, cin))
            nd.inputs = new_in
            origin[id(nd)] = ci
            keep.append(nd)
            fused_any.append(1)
            return nd

        r = G.fuse_nodes(cb, g)
        memo = {}
        got = ms(real_den(it, s, memo) for s in sinks_of(r))
        exp = ms(want[i] for i in spec.sinks)
        if got != exp:
            rec.add("C11/fuse/sink-denotation", env.classify("fuse", spec), inputs, "sinks denote %s, expected %s" % (fmt_ms(got), fmt_ms(exp)), CL_SINK)

    guarded(rec, env, "fuse", "C11/fuse", spec, inputs, body)
    if fused_any:
        rec.nontrivial += 1


# ------------------------------------------------------------------------------------------------ split
def check_split(rec, env, spec, tag, keys):
    """keys[i] = key of node i; the key function hands out a fresh equal tuple on every call"""
    G = env.G
    rec.cases += 1
    inputs = {"transformation": "split_graph", "key of each node": {spec.names[i]: keys[i] for i in range(spec.n())}, "names": tag, "graph": spec.json()}
    if any(keys[p] != keys[i] for (p, _on, i, _k) in spec.edges()):
        rec.nontrivial += 1

    def body():
        g, nodes = build(G, spec)
        by_id = {id(nd): i for i, nd in enumerate(nodes)}
        by_name = {nm: i for i, nm in enumerate(spec.names)}

        def key(node):
            i = by_id.get(id(node))
            if i is None:
                i = by_name[node.name]
            return ("part", keys[i])

        cls = env.classify("split", spec)
        parts, cuts = G.split_graph(key, g)
        orig = set(spec.names)
        where = {}  # part key -> {name: node}
        count = Counter()
        got_sinks = Counter()
        for k, pg in parts.items():
            ps = sinks_of(pg)
            d = where.setdefault(k, {})
            for nd in reach(ps):
                nm = _fields(nd)[3]
                if nm in orig:
                    count[nm] += 1
                    d[nm] = nd
            for s in ps:
                nm = _fields(s)[3]
                if nm in orig:
                    got_sinks[nm] += 1
        bad = [nm for nm in spec.names if count[nm] != 1]
        if bad:
            rec.add("C11/split/exactly-one-part", cls, inputs, "node %r occurs %d times in the parts" % (bad[0], count[bad[0]]), CL_SPLIT_ONE)
            return
        # re-join: structure of every original node, cut references replaced by what the cut edges report
        snap = {}
        for k, d in where.items():
            for nm, nd in d.items():
                ins_, payload, outputs, _ = _fields(nd)
                e = {}
                for iname, src in ins_.items():
                    pn = _fields(src.parent)[3]
                    e[iname] = (pn, src.name) if (pn in orig and pn in d and d[pn] is src.parent) else None
                snap[nm] = [payload, list(outputs), e]
        for c in cuts:
            try:
                src_ok = c.source_node in where[c.source_key]
                dst_ok = c.dest_node in where[c.dest_key]
            except Exception:
                src_ok = dst_ok = False
            if not (src_ok and dst_ok):
                rec.add("C11/split/rejoin", cls, inputs, "cut edge %r names a node that is not in the part it reports" % (c,), CL_SPLIT_JOIN)
                return
            if c.dest_input not in snap[c.dest_node][2]:
                rec.add("C11/split/rejoin", cls, inputs, "cut edge %r names an input the destination node does not have" % (c,), CL_SPLIT_JOIN)
                return
            snap[c.dest_node][2][c.dest_input] = (c.source_node, c.source_output)
        want = {spec.names[i]: [spec.payloads[i], spec.outputs(i), {k: (spec.names[p], on) for k, (p, on) in spec.ins[i].items()}] for i in range(spec.n())}
        if snap != want:
            diff = [nm for nm in spec.names if snap.get(nm) != want[nm]]
            rec.add("C11/split/rejoin", cls, inputs, "re-joined node %r is %r, original was %r" % (diff[0], snap.get(diff[0]), want[diff[0]]), CL_SPLIT_JOIN)
            return
        exp_sinks = Counter(spec.names[i] for i in spec.sinks)
        if set(got_sinks) != set(exp_sinks):
            rec.add("C11/split/rejoin", cls, inputs, "sinks of the parts (cut sinks aside) are %s, original sinks %s" % (sorted(got_sinks), sorted(exp_sinks)), CL_SPLIT_JOIN)

    guarded(rec, env, "split", "C11/split", spec, inputs, body)


def rgs(n, kmax):
    """restricted growth strings: every partition of n nodes into at most kmax parts exactly once"""
    def rec_(i, cur, m):
        if i == n:
            yield tuple(cur)
            return
        for v in range(min(m + 1, kmax - 1) + 1):
            cur.append(v)
            yield from rec_(i + 1, cur, max(m, v))
            cur.pop()
    yield from rec_(0, [], -1)


# ------------------------------------------------------------------------------------------------ expand
def adapt_sub(sub_struct, sch, host, i, variant, mode):
    """Turn a structure into a sub-graph + maps for host node i.

    variant: (src_variant, leaf_variant)  src: 0 = i-th source -> input i mod m, 1 = only the first source is mapped,
                                                2 = every source -> the LAST input
                                          leaf: 0 = k-th output -> leaf k mod L, 1 = every output -> the last leaf
    mode: 'explicit' (input map and output map given), 'implicit' (plain Graph, names do the mapping; only offered
          when the mapping is expressible that way), 'imap-only', 'omap-only' (the other one by names).
    Returns (sub spec, imap | None, omap | None) or None if not applicable."""
    n = len(sub_struct)
    in_names = list(host.ins[i].keys())
    out_names = host.outputs(i)
    sub = make_spec(sub_struct, sch.sub_nodes, sch.sub_ins, sch.outs, ["q%d.%d" % (i, j) for j in range(n)])
    sources = [j for j in range(n) if not sub.ins[j]]
    cands = [j for j in sub.sinks if sub.kinds[j] == "D" or (sub.kinds[j] == "S" and sub.ins[j])]
    sv, lv = variant
    src_map = {}
    if in_names:
        if sv == 0:
            src_map = {j: in_names[t % len(in_names)] for t, j in enumerate(sources)}
        elif sv == 1:
            src_map = {sources[0]: in_names[0]}
        else:
            src_map = {j: in_names[-1] for j in sources}
    elif sv != 0:
        return None
    leaf_map = {}
    if out_names:
        if not cands:
            return None
        if lv == 0:
            leaf_map = {o: cands[t % len(cands)] for t, o in enumerate(out_names)}
        else:
            leaf_map = {o: cands[-1] for o in out_names}
    elif lv != 0:
        return None
    want_i = mode in ("explicit", "imap-only")
    want_o = mode in ("explicit", "omap-only")
    names = list(sub.names)
    if not want_i:  # sources must be called like the input they take, all other sources must not be called like an input
        if len(set(src_map.values())) < len(src_map):
            return None
        for j, nm in src_map.items():
            names[j] = nm
    if not want_o:
        if len(set(leaf_map.values())) < len(leaf_map):
            return None
        for o, j in leaf_map.items():
            if j in src_map and not want_i and names[j] != o:
                return None
            names[j] = o
    sub.names = names
    imap = {names[j]: nm for j, nm in src_map.items()} if want_i else None
    omap = {o: names[j] for o, j in leaf_map.items()} if want_o else None
    if want_o and len(omap) > 1 and lv == 0:
        omap_partial = dict(omap)
        # leave out an entry that maps an output to a leaf of the same name (exercises omap.get(o, o))
        for o in list(omap_partial):
            if omap_partial[o] == o:
                del omap_partial[o]
        omap = omap_partial
    # the model (and the splicer) decide by NAME: re-derive what really gets spliced/selected and reject ambiguous plans
    return sub, imap, omap


def expand_model(it, host, plan):
    """reference semantics of expand_graph: returns (required sink dens, optional sink dens, wiring, valid)

    wiring: {(consumer index, input name): payload of the leaf it must be wired to}"""
    outden = []
    required, optional, wiring = [], [], {}
    for i in range(host.n()):
        ins = {k: outden[p][on] for k, (p, on) in host.ins[i].items()}
        for k, (p, on) in host.ins[i].items():
            if p in plan:
                wiring[(i, k)] = outden[p][("leafpayload", on)]
        if i not in plan:
            d = mk(it, host.payloads[i], ins)
            outden.append({o: (d, o) for o in host.outputs(i)})
            if i in host.sinks:
                required.append(d)
            continue
        sub, imap, omap = plan[i]
        spl_in = ins if imap is None else {s: ins[m] for s, m in imap.items()}
        outs = {o: (o if omap is None else omap.get(o, o)) for o in host.outputs(i)}
        leafnames = set(outs.values())
        sd = []
        for j in range(sub.n()):
            if not sub.ins[j] and sub.names[j] in spl_in:
                sd.append(mk(it, sub.payloads[j], {"input": spl_in[sub.names[j]]}))
            else:
                sd.append(mk(it, sub.payloads[j], {k: (sd[p], on) for k, (p, on) in sub.ins[j].items()}))
        leaves = {}
        for j in sub.sinks:
            if sub.names[j] in leafnames:
                if sub.names[j] in leaves:
                    return None  # two sinks with the name of a selected leaf: which one is meant is not defined
                leaves[sub.names[j]] = j
        od = {}
        for o, ln in outs.items():
            if ln not in leaves:
                return None  # an output without a leaf: not a valid expander for this node
            j = leaves[ln]
            if sub.kinds[j] == "S" and not sub.ins[j]:
                return None  # a leaf without inputs and without outputs cannot provide a value
            od[o] = (sd[j], "0")
            od[("leafpayload", o)] = sub.payloads[j]
        outden.append(od)
        true_sink = i in host.sinks and not host.outputs(i)
        for j in sub.sinks:
            if sub.names[j] in leaves and leaves[sub.names[j]] == j:
                if i in host.sinks:
                    optional.append(sd[j])  # expanded terminal node that declares outputs: the property is silent
                continue
            if true_sink:
                required.append(sd[j])
            else:
                optional.append(sd[j])
    return required, optional, wiring


def check_expand(rec, env, host, tag, plan, desc):
    G = env.G
    it = Interner()
    model = expand_model(it, host, plan)
    if model is None:
        return False
    required, optional, wiring = model
    rec.cases += 1
    inputs = {"transformation": "expand_graph", "names": tag, "graph": host.json(), "expansions": {host.names[i]: {"sub-graph": sub.json(), "input_map": imap, "output_map": omap} for i, (sub, imap, omap) in plan.items()}, "plan": desc}
    nontrivial = any(host.ins[i] or any(p == i for (p, _on, _c, _k) in host.edges()) for i in plan)
    rec.nontrivial += nontrivial
    if len(rec.samples) < 2 and nontrivial and host.n() >= 2 and rec.cases % 997 == 1:
        rec.samples.append(inputs)

    def body():
        g, nodes = build(G, host)
        idx = {id(nd): i for i, nd in enumerate(nodes)}

        def expander(node):
            i = idx.get(id(node))
            if i is None or i not in plan:
                return None
            sub, imap, omap = plan[i]
            sg, _ = build(G, sub)
            if imap is None and omap is None:
                return sg
            return sg, (None if imap is None else dict(imap)), (None if omap is None else dict(omap))

        cls = env.classify("expand", host, plan)
        r = G.expand_graph(expander, g)
        memo = {}
        rs = sinks_of(r)
        got = ms(real_den(it, s, memo) for s in rs)
        req = ms(required)
        allowed = req + ms(optional)
        if any(got[d] < c for d, c in req.items()) or any(c > allowed[d] for d, c in got.items()):
            rec.add("C11/expand/sink-denotation", cls, inputs, "sinks denote %s, required %s, additionally allowed %s" % (fmt_ms(got), fmt_ms(req), fmt_ms(ms(optional))), CL_SINK)
        # explicit wiring check: consumers that were not expanded are found again by their (unique) payload
        bypayload = {}
        for nd in reach(rs):
            bypayload.setdefault(_fields(nd)[1], nd)
        for (ci, k), leafpayload in wiring.items():
            if ci in plan:
                continue
            nd = bypayload.get(host.payloads[ci])
            if nd is None:
                continue  # not reachable: already reported through the sinks
            src = _fields(nd)[0].get(k)
            ok = src is not None and _fields(src.parent)[1] == leafpayload and src.name in _fields(src.parent)[2]
            if not ok:
                rec.add("C11/expand/consumer-wiring", cls, inputs, "input %r of consumer %r is wired to %.80r, expected the leaf with payload %r" % (k, host.names[ci], src, leafpayload), CL_EXPAND)

    guarded(rec, env, "expand", "C11/expand", host, inputs, body, plan)
    return True


# ------------------------------------------------------------------------------------------------ spaces
def structs_upto(n, **kw):
    res = []
    for m in range(1, n + 1):
        res += list(enum_structs(m, **kw))
    return res


def describe_structs():
    return ("node kinds: no outputs / default output / two named outputs; 0, 1 or 2 inputs per node, each bound to any output of any "
            "earlier node (both inputs may use the same output); every node nobody consumes is a sink (with or without a default output)")


def run(out, tier, seed):
    env = Env()
    quick = tier == "quick"
    rng = random.Random(seed)
    # time guards per sub-space (seconds); nominal run times are about half of these, a hit is stated in the bound
    guard = (dict(copy=3, rename=5, dedup=8, fuse=5, split=9, expand=22, random=3) if quick
             else dict(copy=40, rename=80, dedup=100, fuse=100, split=230, expand=250, random=60))

    s3 = structs_upto(3)
    s4full = list(enum_structs(4))
    # 4 nodes, "core": single-input nodes use the first input name only + all sinks are true sinks + at most 2 sinks
    # (NOT restricted to connected graphs: two equal chains side by side are the smallest cascading de-duplication)
    s4core = list(enum_structs(4, lone_y=False, terminal_kinds="S", max_terminals=2))
    if quick:
        main4, main4_desc = s4core, "all 4-node DAGs whose single-input nodes use the first input name, with at most 2 sinks, all without outputs"
        side4, side4_desc = [], ""
    else:
        main4, main4_desc = s4full, "ALL 4-node DAGs"
        side4, side4_desc = s4core, " + the 4-node DAGs with at most 2 output-less sinks whose single-input nodes use the first input name"
    s4one = [st for st in s4core if sum(1 for k, _i in st if k == "S") == 1]
    s5 = []
    if not quick:
        s5 = list(itertools.islice(enum_structs(5, lone_y=False, connected=True, terminal_kinds="S", max_terminals=1), 0, None, 5))
    side_schemes = [PREFIXY, PREFIXY2, ATTR, PARAM]
    s2 = [st for st in s3 if len(st) <= 2]

    def sidestructs(sch):
        # the 'param' names make every transformation raise as soon as an input is called 'node'/'n': a sample is enough there
        return s3 if sch is not PARAM else s2 + [st for st in s3 if len(st) == 3][::10]

    space = "ALL DAGs with 1-3 nodes (%d) + %s (%d)" % (len(s3), main4_desc, len(main4))
    side3 = "; name sets 'prefix', 'prefix2' (names that are prefixes of / share characters with each other and contain '.'), 'attr' (names of Node attributes) on the 1-3 node DAGs, 'param' (names of callback parameters) on the 1-2 node DAGs and every 10th 3-node DAG"
    side = side3 + side4_desc
    if s5:
        space += " + every 5th (in enumeration order) of the connected 5-node DAGs with ONE output-less sink (%d)" % len(s5)

    # ---- copy
    rec = Rec(guard["copy"])
    for sch, structs in [(s_, sidestructs(s_) + side4) for s_ in side_schemes] + [(PLAIN, s3 + main4 + s5)]:
        for st in structs:
            if rec.over():
                break
            spec = scheme_spec(st, sch)
            check_copy(rec, env, spec, sch.tag)
    rec.samples.append({"transformation": "copy_graph", "graph": scheme_spec(s3[-1], PREFIXY).json()})
    rec.emit(out, "copy_graph on all small DAGs", "exhaustive enumeration",
             space + "; " + describe_structs() + "; plain names" + side + ". Non-trivial = the graph has at least one edge.")

    # ---- rename / join
    rec = Rec(guard["rename"])
    for sch, structs in [(s_, sidestructs(s_) + side4) for s_ in side_schemes] + [(PLAIN, s3 + main4 + s5)]:
        rens = RENAMERS if sch in (PLAIN, PREFIXY) else RENAMERS[1:3]
        for st in structs:
            if rec.over():
                break
            spec = scheme_spec(st, sch)
            for rname, rf in rens if (len(st) <= 3 or (not quick and len(st) == 4 and sch is PLAIN)) else RENAMERS[1:3]:
                check_rename(rec, env, spec, sch.tag, rname, rf)
            if len(st) <= 3:
                spec2 = scheme_spec(st, sch, ["r%d" % i for i in range(len(st))])
                check_join(rec, env, spec, spec2, sch.tag, ("a", "a.a") if sch is not PLAIN else ("g1", "g2"))
    rec.samples.append({"transformation": "rename_nodes", "renamer": "constant 'a'", "graph": scheme_spec(s3[-1], PLAIN).json()})
    rec.emit(out, "rename_nodes / join_namespaced on all small DAGs", "exhaustive enumeration",
             space + " x renamers {identity, prefix, constant (all nodes get one name), reverse, first character}" + (" (prefix and constant only on 4 nodes)" if quick else " (prefix and constant only on 5 nodes and on the 4-node DAGs of the other name sets)") + "; the name sets 'prefix2', 'attr', 'param' with prefix and constant only; join_namespaced of every 1-3 node DAG with a twin under namespaces that are prefixes of each other; "
             + describe_structs() + side + ". Non-trivial = the graph has at least one edge.")

    # ---- dedup
    rec = Rec(guard["dedup"])
    core4 = set(s4core)
    for sch, structs in [(s_, sidestructs(s_)) for s_ in side_schemes] + [(PLAIN, s3 + main4 + s5)]:
        for st in structs:
            if rec.over():
                break
            n = len(st)
            every = [["p%d" % b for b in bits] for bits in itertools.product((0, 1), repeat=n) if bits[0] == 0]
            if sch is PLAIN and (n <= 3 or (not quick and n == 4 and st in core4)):
                pays = every
            elif sch is PLAIN and n == 4:
                pays = [["p0"] * 4, ["p0", "p0", "p1", "p1"], ["p0", "p1", "p0", "p1"], ["p0", "p1", "p1", "p0"]]
            else:
                pays = [["p0"] * n, ["p%d" % (i % 2) for i in range(n)]]
            for pi, pay in enumerate(pays):
                spec = scheme_spec(st, sch, pay)
                if n >= 4 and pi > 0 and sch is PLAIN:
                    plus = spec_dens_plus(Interner(), spec)
                    if len(set(plus)) == len(plus):
                        continue  # nothing to merge: the all-equal assignment of this DAG already covers the "no change" behaviour
                check_dedup(rec, env, spec, sch.tag)
    rec.samples.append({"transformation": "deduplicate_nodes", "graph": scheme_spec(s3[-1], PLAIN, ["p0"] * 3).json()})
    rec.emit(out, "deduplicate_nodes on all small DAGs x payload assignments", "exhaustive enumeration",
             space + " x payloads from {p0,p1}: every assignment on 1-3 nodes" + (" and on the 4-node DAGs with at most 2 output-less sinks whose single-input nodes use the first input name" if not quick else "")
             + ", 4 patterns (all equal, aabb, abab, abba) on the " + ("" if quick else "other ") + "4-node DAGs, 2 patterns (all equal, alternating) on " + ("" if quick else "5 nodes and on ") + "the other name sets (on 4 and 5 nodes a pattern other than all-equal is run only if it makes two nodes equal); "
             + describe_structs() + side3 + ". Non-trivial = at least two nodes of the input are equal in payload, outputs and inputs (something must be merged).")

    # ---- fuse
    rec = Rec(guard["fuse"])
    for sch, structs in [(s_, sidestructs(s_)) for s_ in side_schemes] + [(PLAIN, s3 + main4 + s5)]:
        for st in structs:
            if rec.over():
                break
            spec = scheme_spec(st, sch)
            cand = fuse_candidates(spec)
            if sch is PLAIN and (len(cand) <= 3 or (not quick and len(cand) <= 4 and len(st) <= 4)):
                masks = [set(c) for r_ in range(len(cand) + 1) for c in itertools.combinations(cand, r_)]
                for m in masks:
                    check_fuse(rec, env, spec, sch.tag, m, "%r" % sorted(m))
                    if m:
                        check_fuse(rec, env, spec, sch.tag, m, "%r" % sorted(m), inplace=True)
            else:
                check_fuse(rec, env, spec, sch.tag, None, "ALL")
                check_fuse(rec, env, spec, sch.tag, None, "ALL", inplace=True)
                if sch is PLAIN:
                    for c in cand:
                        check_fuse(rec, env, spec, sch.tag, {c}, "%r" % [c])
                        check_fuse(rec, env, spec, sch.tag, set(cand) - {c}, "%r" % sorted(set(cand) - {c}))
    rec.samples.append({"transformation": "fuse_nodes", "callback": "fuse on ALL offers", "graph": scheme_spec(s3[-1], PLAIN).json()})
    rec.emit(out, "fuse_nodes on all small DAGs x fusion callbacks", "exhaustive enumeration",
             space + " x callbacks that fuse (child, parent) into one NEW node, or INTO the current node (same object returned), on a chosen set of offers: EVERY subset of the fusable edges when there are at most 3 (thorough: 4) of them, "
             "otherwise {all, each single edge, all but one}; the other name sets with the fuse-everything callback; " + describe_structs() + side3
             + ". Non-trivial = the callback fused at least once.")

    # ---- split
    rec = Rec(guard["split"])
    for sch, structs in [(s_, sidestructs(s_)) for s_ in side_schemes] + [(PLAIN, s3 + (s4one if quick else main4) + s5[::4])]:
        for st in structs:
            if rec.over():
                break
            n = len(st)
            spec = scheme_spec(st, sch)
            if sch is PLAIN:
                kmax = 3 if (n <= 3 or not quick) else 2
                if n == 5:
                    kmax = 2
            else:
                kmax = 2
            for keys in rgs(n, kmax):
                if quick and n == 4 and max(keys) == 0:
                    continue
                check_split(rec, env, spec, sch.tag, keys)
    rec.samples.append({"transformation": "split_graph", "keys": [0, 1, 0], "graph": scheme_spec(s3[-1], PLAIN).json()})
    rec.emit(out, "split_graph on all small DAGs x key functions", "exhaustive enumeration",
             (space.replace("every 5th", "every 20th").replace("(%d)" % len(s5), "(%d)" % len(s5[::4])) if not quick
              else space.replace("at most 2 sinks", "ONE sink").replace("(%d)" % len(main4), "(%d)" % len(s4one)))
             + (" x EVERY partition of the nodes into at most 3 parts (at most 2 parts on 5 nodes and on the other name sets)" if not quick
                else " x EVERY partition of the nodes into at most 3 parts on 1-3 nodes, into exactly 2 parts on 4 nodes, into at most 2 parts on the other name sets")
             + " as key function; keys are fresh equal-but-not-identical tuples; "
             + describe_structs() + side3 + ". Non-trivial = at least one edge crosses parts.")

    # ---- expand
    run_expand(out, env, quick, guard["expand"], s3, s4core)

    # ---- seeded random
    run_random(out, env, quick, rng, guard["random"])


MODES = ("explicit", "implicit", "imap-only", "omap-only")
VARIANTS = [(0, 0), (1, 0), (2, 1), (0, 1)]
COMBOS16 = [(v, m) for v in VARIANTS for m in MODES]
COMBOS6 = [((0, 0), "explicit"), ((1, 0), "implicit"), ((2, 1), "imap-only"), ((0, 1), "omap-only"), ((0, 0), "implicit"), ((2, 1), "explicit")]
COMBOS3 = [((0, 0), "explicit"), ((0, 0), "implicit"), ((2, 1), "explicit")]


def plans_for(host, sch, targets, sub_struct, variant, mode):
    plan = {}
    for i in targets:
        a = adapt_sub(sub_struct, sch, host, i, variant, mode)
        if a is None:
            return None
        plan[i] = a
    return plan


def shape(st):
    return "".join(k for k, _ in st), tuple(len(i) for _k, i in st)


def pick_shapes(structs, wanted):
    """first structure of every wanted shape that binds two-input nodes to two DIFFERENT outputs where it can"""
    res = []
    for w in wanted:
        best = None
        for st in structs:
            if shape(st) != w:
                continue
            score = sum(len({a for _s, a in i}) for _k, i in st)
            if best is None or score > best[0]:
                best = (score, st)
        if best:
            res.append(best[1])
    return res


def run_expand(out, env, quick, budget, s3, s4core):
    rec = Rec(budget)
    subs2 = structs_upto(2)
    subs3 = structs_upto(3)
    s2 = [st for st in s3 if len(st) <= 2]
    s3only = [st for st in s3 if len(st) == 3]
    # sub-graph shapes used against the 3-node hosts: a single node that is source and leaf; source->leaf; two sources->one leaf;
    # source->mid->leaf; one multi-output source->two leaves; source->leaf + an inner sink; two sources, two leaves crossed
    small = pick_shapes(subs3, [("D", (0,)), ("DS", (0, 1)), ("DDS", (0, 0, 2)), ("DDS", (0, 1, 1)), ("MSS", (0, 1, 1)), ("MDS", (0, 2, 2)), ("DSD", (0, 1, 1))])
    host4 = [st for st in s4core if any(len(i) == 2 for _k, i in st)][::40]
    if quick:  # single-input nodes use the first input name only
        hostsB = list(enum_structs(3, lone_y=False))
        host4 = []
    else:
        hostsB = s3only + host4

    def go(host, sch, t, ss, v, mode):
        plan = plans_for(host, sch, t, ss, v, mode)
        if plan is not None:
            check_expand(rec, env, host, sch.tag, plan, {"expanded": [host.names[i] for i in t], "source/leaf choice": list(v), "map style": mode})

    # (A) every 1-2 node host x every subset of nodes expanded x EVERY 1-2 node sub-graph x all 16 map combinations
    for sch in (PLAIN, PREFIXY, PREFIXY2, ATTR, PARAM):
        for hs in s2:
            if rec.over():
                break
            host = scheme_spec(hs, sch)
            n = host.n()
            for t in [t for r_ in range(1, n + 1) for t in itertools.combinations(range(n), r_)]:
                for ss in subs2:
                    for v, mode in COMBOS16 if sch in (PLAIN, PREFIXY, PREFIXY2) else COMBOS3:
                        go(host, sch, t, ss, v, mode)
    # (B) every 3-node host (+ sampled 4-node hosts) x {each single node, all nodes} (thorough: every subset) x the 7 selected shapes
    for sch in (PLAIN, PREFIXY) if quick else (PLAIN, PREFIXY, PREFIXY2):
        for hi, hs in enumerate(hostsB):
            if rec.over():
                break
            host = scheme_spec(hs, sch)
            n = host.n()
            if quick:
                tsets = [(i,) for i in range(n)] + [tuple(range(n))]
                combos = COMBOS3 if sch is PLAIN else COMBOS3[hi % 2:: 2]
            else:
                tsets = [t for r_ in range(1, n + 1) for t in itertools.combinations(range(n), r_)]
                combos = COMBOS6
            for t in tsets:
                for ss in small:
                    for v, mode in combos:
                        go(host, sch, t, ss, v, mode)
    # (C) EVERY 1-3 node sub-graph against fixed hosts: single sink, single source, chain, multi-output node with two consumers,
    #     node with two inputs from a multi-output parent, two-input sink
    fixed = pick_shapes(s3 + s4core, [("S", (0,)), ("D", (0,)), ("DDS", (0, 1, 1)), ("MMSS", (0, 2, 1, 1)), ("MMS", (0, 2, 2)), ("DS", (0, 2))])
    for k, ss in enumerate(subs3):
        if rec.over():
            break
        for sch in ((PLAIN, PREFIXY, PREFIXY2)[k % 3],) if quick else (PLAIN, PREFIXY, PREFIXY2):
            for hs in fixed:
                host = scheme_spec(hs, sch)
                n = host.n()
                mid = [i for i in range(n) if host.ins[i] and host.outputs(i)] or [n - 1]
                for t in [(mid[-1],), tuple(range(n))]:
                    for v, mode in COMBOS3 if quick else COMBOS16:
                        go(host, sch, t, ss, v, mode)
    rec.samples = rec.samples[:2]
    rec.emit(out, "expand_graph: hosts x expanded nodes x sub-graphs x input/output maps", "exhaustive enumeration",
             "(A) EVERY host DAG with 1-2 nodes (%d) x every non-empty set of expanded nodes x EVERY 1-2 node sub-graph (%d) x source choice {i-th source->i-th input, first source only, "
             "all sources->last input} x leaf choice {k-th output->k-th sub-sink, all outputs->last sub-sink} x map style {input_map+output_map, plain Graph (names do the mapping), "
             "input_map only, output_map only (entries that map a name to itself left out)}, name sets plain/'prefix'/'prefix2' (3 combinations for 'attr'/'param'); "
             "(B) %s 3-node host DAG (%d)%s x expanded set %s x 7 sub-graph shapes (single node; source->leaf; "
             "two sources->leaf; source->mid->leaf; multi-output source->two leaves; with an inner sink; with a default-output leaf) x %d map combinations, name sets %s; "
             "(C) 6 fixed hosts (single sink, single source, chain, multi-output node with two consumers, two-input node behind a multi-output parent, two-input sink) x {middle node, all nodes} "
             "expanded x EVERY 1-3 node sub-graph (%d) x %s. In 'prefix'/'prefix2' the sub-graph node names are prefixes of / share characters with the expanded node's name. "
             "Sub-graph payloads are unique. Only valid expanders are run: every output of an expanded node selects exactly one sub-graph sink that has inputs or a default output. "
             "Non-trivial = an expanded node has an input or a consumer."
             % (len(s2), len(subs2), "every" if not quick else "every (single-input nodes using the first input name)", len(hostsB) - len(host4),
                "" if not host4 else " + a 1-in-40 sample of the 4-node DAGs (at most 2 output-less sinks) with a two-input node (%d)" % len(host4), "{each single node, all nodes}" if quick else "every non-empty subset", 3 if quick else 6,
                "plain (3 combinations) and 'prefix' (alternating 2 of the 3)" if quick else "plain/'prefix'/'prefix2'", len(subs3),
                "3 map combinations, name set rotating plain/'prefix'/'prefix2' per sub-graph" if quick else "all 16 map combinations x 3 name sets"))


def run_random(out, env, quick, rng, budget):
    rec = Rec(budget)
    N = 400 if quick else 8000
    schemes = [PLAIN, PREFIXY, PREFIXY2]
    subs3 = structs_upto(3)
    for t in range(N):
        if rec.over():
            break
        n = rng.randrange(5, 9)
        st = random_struct(rng, n)
        sch = schemes[t % 3]
        spec = scheme_spec(st, sch)
        if t < 2:
            rec.samples.append({"graph": spec.json()})
        check_copy(rec, env, spec, sch.tag)
        check_rename(rec, env, spec, sch.tag, *RENAMERS[rng.randrange(len(RENAMERS))])
        pays = ["p%d" % rng.randrange(2) for _ in range(n)]
        check_dedup(rec, env, scheme_spec(st, sch, pays), sch.tag)
        cand = fuse_candidates(spec)
        acc = {c for c in cand if rng.random() < 0.6}
        check_fuse(rec, env, spec, sch.tag, acc, "%r" % sorted(acc))
        check_fuse(rec, env, spec, sch.tag, None, "ALL")
        keys = tuple(rng.randrange(3) for _ in range(n))
        check_split(rec, env, spec, sch.tag, keys)
        for _ in range(3):
            targets = tuple(i for i in range(n) if rng.random() < 0.4) or (rng.randrange(n),)
            plan = {}
            for i in targets:
                for _try in range(6):
                    a = adapt_sub(rng.choice(subs3), sch, spec, i, (rng.randrange(3), rng.randrange(2)), rng.choice(MODES))
                    if a is not None:
                        plan[i] = a
                        break
            if plan:
                check_expand(rec, env, spec, sch.tag, plan, {"targets": sorted(plan), "random": True})
    rec.emit(out, "seeded random larger DAGs through every transformation", "seeded random",
             "%d random DAGs with 5-8 nodes (same node kinds and input shapes as the enumeration, name sets plain/'prefix'/'prefix2' in turn), each through copy, one random renamer, "
             "de-duplication with random payloads from {p0,p1}, fusion on a random subset of offers and on all offers, a random 3-way split, and 3 random expansions "
             "(random set of expanded nodes, random 1-3 node sub-graphs, random maps). Non-trivial = as defined for the respective transformation." % N)
