"""Bounded stand-in for C19: the real cascade.low.builders.TaskBuilder / JobBuilder driven with every small
combination of callable signatures, bound values and (existing or dangling) edges.

Sub-spaces (each reported with its own out.add_bounded call):
  A  "signatures x bound values"   from_callable + one with_values call + single-node build
  B  "chained with_values"         two successive with_values calls (merge of positions / names, persistence)
  C  "nodes x edges"               two nodes from a menu of task kinds, every edge list up to a length over an alphabet of
                                   existing / dangling source task, source output, sink task, sink parameter or position
  D  "keywords outside the declared parameters"   **kwargs / *args callables, keyword not named in the signature
  R  seeded random extension of C (more nodes, longer edge lists, random signatures up to 4 parameters)

ORACLE (only what the property states)
  * build() never raises; it returns Either.ok(JobInstance) or Either.error(non-empty list of str).
  * an edge is ILL-FORMED when its source task, source output or sink task does not exist, when it is a keyword edge
    naming a parameter the sink callable cannot take by keyword, or when it is a keyword edge whose source return
    annotation and sink parameter annotation are two *different builtin types* (int vs str).
    an edge is WELL-FORMED when all endpoints exist and (positional edge, or sink parameter unannotated, or the two
    annotations are identical).  Unannotated source -> annotated sink is left UNDETERMINED (either verdict accepted).
  * some ill-formed edge            => error list demanded
    every edge well-formed and every keyword-bound value / default of the annotated type => ok(job) demanded
    otherwise (undetermined edge, or a keyword value whose type differs from the annotation) => any verdict, but no raise.
  * ok(job): tasks are exactly the nodes given, edges are (as a multiset, order free) exactly the edges given, every edge
    is well formed w.r.t. the job's own tasks/definitions, every node carries static_input_ps == {str(i): args[i]} and
    static_input_kw == defaults overridden by the keywords given (same keys, same types, equal values).
  * persistence: TaskBuilder.with_values / JobBuilder.with_node / with_edge / build leave the receiver (model_dump
    snapshot) and every previously built job (model_dump snapshot) unchanged, and an unchanged builder still builds
    the same verdict / an equal job.
  * silent, hence not checked: error texts, number of messages, order of edges, two bindings of the same position / name
    in successive with_values calls (either value accepted), validation of positional edges' positions.

FOUND DEFECTS (current /repo tree; both are reported under their own class, not 'other')
  1. class "defect:any-output-into-annotated-kw-param-raises-NameError"
     JobBuilder.build() evaluates issubclass(eval("Any"), eval("int")) for a keyword edge from a callable WITHOUT return
     annotation into an annotated parameter; builders.py does not import Any, so build() raises NameError instead of
     returning ok or a problem list.
         from cascade.low.builders import TaskBuilder, JobBuilder
         def s(x): return 1
         def t(a: int): return a
         b = JobBuilder().with_node("s", TaskBuilder.from_callable(s)).with_node("t", TaskBuilder.from_callable(t))
         b.with_edge("s", "t", "a").build()          # NameError: name 'Any' is not defined
  2. class "defect:keyword-value-outside-input-schema-raises-KeyError"
     A keyword bound with with_values that is not a key of input_schema (any keyword for `def f(a, **kw)`, whose **kw is
     not recorded in input_schema, or a misspelt keyword) makes build() raise KeyError in the static-input type check
     (instance.definition.input_schema[k]) instead of returning ok or a problem list.
         from cascade.low.builders import TaskBuilder, JobBuilder
         def f(a, **kw): return a
         t = TaskBuilder.from_callable(f).with_values(1, zz=2)
         JobBuilder().with_node("n", t).build()      # KeyError: 'zz'
"""
import itertools
import random
import time

CLAUSE_EDGES = ("When the job builder accepts a description, every edge of the resulting job starts at an existing output of an "
                "existing task and ends at an existing task (and, for keyword edges, an existing parameter of compatible declared "
                "type); otherwise it returns the list of problems instead of a job.")
CLAUSE_VALUES = ("Values bound to a task through the builder, positionally or by keyword, appear in the job under exactly those "
                 "positions and names")
CLAUSE_PERSIST = "building never mutates previously built jobs."

DEFECT_ANY = "defect:any-output-into-annotated-kw-param-raises-NameError"
DEFECT_KEY = "defect:keyword-value-outside-input-schema-raises-KeyError"

POK, KWO = "pok", "kwo"
ANNS = (None, "int", "str")
DEFAULTS = {None: None, "int": 0, "str": "d"}  # defaults of the annotated type; None / 0 are deliberately falsy
GHOST = "ghost"
NOPE_OUTPUT = "nope"


# ------------------------------------------------------------------------------------------------ plumbing
class _Failures:
    def __init__(self):
        self.items, self.seen, self.count = [], set(), 0

    def add(self, obligation, inputs, observed, clause, cls="other"):
        self.count += 1
        key = (obligation, cls)
        if key in self.seen or len(self.items) >= 20:
            return
        self.seen.add(key)
        self.items.append({"obligation": obligation, "inputs": _jsonable(inputs), "observed": str(observed)[:400], "clause": clause, "class": cls})


def _jsonable(x):
    if isinstance(x, dict):
        return {str(k): _jsonable(v) for k, v in x.items()}
    if isinstance(x, (list, tuple)):
        return [_jsonable(v) for v in x]
    if x is None or isinstance(x, (bool, int, float, str)):
        return x
    return repr(x)


def _same_value(x, y):
    return type(x) is type(y) and x == y


def _same_dict(got, exp):
    if not isinstance(got, dict) or set(got.keys()) != set(exp.keys()):
        return False
    return all(_same_value(got[k], exp[k]) for k in exp)


def _val_ok(ann, v):
    if ann is None:
        return True
    return type(v) is (int if ann == "int" else str)


def _compat(out_ann, in_ann):
    """'good' must be accepted, 'bad' must be rejected, 'either' is left open by the property"""
    if in_ann is None:
        return "good"
    if out_ann is None:
        return "either"
    return "good" if out_ann == in_ann else "bad"


# ------------------------------------------------------------------------------------------------ signatures
def _valid(params):
    seen_kwo = seen_default_pok = False
    for _name, kind, _ann, has_default in params:
        if kind == POK:
            if seen_kwo:
                return False
            if has_default:
                seen_default_pok = True
            elif seen_default_pok:
                return False
        else:
            seen_kwo = True
    return len({p[0] for p in params}) == len(params)


def _sig_text(params, ret):
    parts, star = [], False
    for name, kind, ann, has_default in params:
        if kind == KWO and not star:
            parts.append("*")
            star = True
        s = name
        if ann:
            s += ": " + ann
        if has_default:
            s += (" = " if ann else "=") + repr(DEFAULTS[ann])
        parts.append(s)
    return "def f(" + ", ".join(parts) + ")" + (" -> " + ret if ret else "") + ":"


def _all_signatures(nparams, names="abc"):
    options = [(k, a, d) for k in (POK, KWO) for a in ANNS for d in (False, True)]
    for combo in itertools.product(options, repeat=nparams):
        params = tuple((names[i],) + combo[i] for i in range(nparams))
        if _valid(params):
            yield params


class _Kind:
    """a task kind = callable signature (+ values bound through with_values); the spec side is computed from the
    parameter tuple, never from the TaskDefinition under test"""

    def __init__(self, TaskBuilder, params, ret, args=(), kwargs=None):
        self.params, self.ret = params, ret
        self.text = _sig_text(params, ret)
        ns = {"__name__": "c19_dynamic"}
        exec(self.text + "\n    return 0\n", ns)
        self.func = ns["f"]
        self.types = {p[0]: p[2] for p in params}  # keyword-capable parameters and their annotation
        self.defaults = {p[0]: DEFAULTS[p[2]] for p in params if p[3]}
        self.base = TaskBuilder.from_callable(self.func)
        self.args, self.kwargs = tuple(args), dict(kwargs or {})
        self.tb = self.base.with_values(*self.args, **self.kwargs) if (self.args or self.kwargs) else self.base
        self.exp_ps = {str(i): v for i, v in enumerate(self.args)}
        self.exp_kw = {**self.defaults, **self.kwargs}
        self.values_typed = all(k in self.types and _val_ok(self.types[k], v) for k, v in self.exp_kw.items())

    def label(self):
        s = self.text
        if self.args or self.kwargs:
            s += " with_values(" + ", ".join([repr(a) for a in self.args] + [f"{k}={v!r}" for k, v in self.kwargs.items()]) + ")"
        return s


# ------------------------------------------------------------------------------------------------ driving build()
def _build(builder, JobInstance):
    """-> (tag, payload): ok/job, err/list, raise/exception, shape/description"""
    try:
        r = builder.build()
    except Exception as e:  # noqa: BLE001 - the property forbids every exception
        return "raise", e
    t, e = getattr(r, "t", None), getattr(r, "e", None)
    if e is None and isinstance(t, JobInstance):
        return "ok", t
    if t is None and isinstance(e, list) and len(e) > 0 and all(isinstance(m, str) for m in e):
        return "err", e
    return "shape", f"t={t!r:.80} e={e!r:.80}"


def _snap_task(tb):
    return tb.model_dump()


def _snap_builder(b):
    return ({k: v.model_dump() for k, v in b.nodes.items()}, [e.model_dump() for e in b.edges])


def _edge_status(nodes, edge, default_output):
    src, frum, sink, into = edge
    out = default_output if frum is None else frum
    ks, kt = nodes.get(src), nodes.get(sink)
    if ks is None or kt is None or out != default_output:
        return "bad"
    if isinstance(into, str):
        if into not in kt.types:
            return "bad"
        return _compat(ks.ret, kt.types[into])
    return "good"


def _describe(nodes, edges):
    return {"nodes": {n: k.label() for n, k in nodes.items()},
            "edges": [{"source": e[0], "frum": "<default>" if e[1] is None else e[1], "sink": e[2], "into": e[3]} for e in edges]}


def _check_case(F, prefix, nodes, edges, tag, payload, default_output):
    """oracle for one (nodes, edges) description and the observed build result; returns the demanded verdict"""
    statuses = [_edge_status(nodes, e, default_output) for e in edges]
    values_typed = all(k.values_typed for k in nodes.values())
    if "bad" in statuses:
        demanded = "err"
    elif values_typed and all(s == "good" for s in statuses):
        demanded = "ok"
    else:
        demanded = "any"
    inputs = _describe(nodes, edges)
    if tag == "raise":
        cls = "other"
        if isinstance(payload, NameError) and "either" in statuses:
            cls = DEFECT_ANY
        elif isinstance(payload, KeyError) and any(kw not in k.types for k in nodes.values() for kw in k.exp_kw):
            cls = DEFECT_KEY
        F.add(prefix + "/build-never-raises", inputs, f"build() raised {type(payload).__name__}: {payload}", CLAUSE_EDGES, cls)
        return demanded
    if tag == "shape":
        F.add(prefix + "/build-returns-job-or-problem-list", inputs, payload, CLAUSE_EDGES)
        return demanded
    if tag == "err":
        if demanded == "ok":
            F.add(prefix + "/well-formed-description-accepted", inputs, f"error {payload[:2]}", CLAUSE_EDGES)
        return demanded
    job = payload
    if demanded == "err":
        bad = [e for e, s in zip(edges, statuses) if s == "bad"]
        F.add(prefix + "/ill-formed-edge-rejected", inputs, f"ok(job) although edge {bad[0]!r} is dangling or type-incompatible", CLAUSE_EDGES)
    # the job's own well-formedness
    tasks = job.tasks
    if set(tasks.keys()) != set(nodes.keys()):
        F.add(prefix + "/job-has-the-tasks-given", inputs, f"tasks {sorted(tasks.keys())}", CLAUSE_EDGES)
    for e in job.edges:
        st = tasks.get(e.source.task)
        kt = tasks.get(e.sink_task)
        if st is None or e.source.output not in st.definition.output_schema:
            F.add(prefix + "/job-edge-starts-at-existing-output", inputs, f"edge {e!r}", CLAUSE_EDGES)
        if kt is None:
            F.add(prefix + "/job-edge-ends-at-existing-task", inputs, f"edge {e!r}", CLAUSE_EDGES)
        elif e.sink_input_kw is not None:
            if e.sink_input_kw not in kt.definition.input_schema or (e.sink_task in nodes and e.sink_input_kw not in nodes[e.sink_task].types):
                F.add(prefix + "/job-kw-edge-ends-at-existing-parameter", inputs, f"edge {e!r}", CLAUSE_EDGES)
    got = sorted(repr((e.source.task, e.source.output, e.sink_task, e.sink_input_kw, e.sink_input_ps)) for e in job.edges)
    exp = sorted(repr((s, default_output if f is None else f, t, i if isinstance(i, str) else None, i if isinstance(i, int) else None)) for s, f, t, i in edges)
    if got != exp:
        F.add(prefix + "/job-has-the-edges-given", inputs, f"job edges {got}", CLAUSE_EDGES)
    for name, k in nodes.items():
        ti = tasks.get(name)
        if ti is None:
            continue
        if not _same_dict(ti.static_input_ps, k.exp_ps):
            F.add(prefix + "/job-carries-positional-values", inputs, f"{name}.static_input_ps={ti.static_input_ps!r} expected {k.exp_ps!r}", CLAUSE_VALUES)
        if not _same_dict(ti.static_input_kw, k.exp_kw):
            F.add(prefix + "/job-carries-keyword-values", inputs, f"{name}.static_input_kw={ti.static_input_kw!r} expected {k.exp_kw!r}", CLAUSE_VALUES)
    return demanded


def _apply_edge(b, edge):
    src, frum, sink, into = edge
    return b.with_edge(src, sink, into) if frum is None else b.with_edge(src, sink, into, frum)


# ------------------------------------------------------------------------------------------------ sub-space A
def _space_a(out, tier, TaskBuilder, JobBuilder, JobInstance, default_output):
    t0 = time.time()
    F = _Failures()
    cases = nontrivial = 0
    samples = []
    thorough = tier != "quick"
    pool = [0, "s", None, [1]] if thorough else [0, "s", None]
    arg_tuples = [a for n in range(4) for a in itertools.product(pool, repeat=n)]
    # keyword options per parameter: unbound, two values of the annotated type (one falsy), one value of another type
    kw_options = {None: [7, None, [1]], "int": [7, 0, "s"], "str": ["v", "", 3]}
    unbound = object()
    sigs = []
    for n in range(0, 4 if thorough else 3):
        for i, params in enumerate(_all_signatures(n)):
            rets = ANNS if n <= (2 if thorough else 1) else (ANNS[i % 3],)
            for ret in rets:
                sigs.append((params, ret))
    for params, ret in sigs:
        try:
            k = _Kind(TaskBuilder, params, ret)
        except Exception as e:  # noqa: BLE001
            F.add("C19/A/task-from-callable", {"signature": _sig_text(params, ret)}, f"from_callable raised {type(e).__name__}: {e}", CLAUSE_EDGES)
            continue
        sigtext = k.text
        base = k.base
        if not (_same_dict(base.static_input_kw, k.defaults) and _same_dict(base.static_input_ps, {})):
            F.add("C19/A/fresh-task-carries-only-defaults", {"signature": sigtext}, f"kw={base.static_input_kw!r} ps={base.static_input_ps!r}", CLAUSE_VALUES)
        if set(base.definition.input_schema.keys()) != set(k.types.keys()) or list(base.definition.output_schema.keys()) != [default_output]:
            F.add("C19/A/task-declares-the-callable-parameters", {"signature": sigtext}, f"input_schema={base.definition.input_schema!r} output_schema={base.definition.output_schema!r}", CLAUSE_EDGES)
        base_snap = _snap_task(base)
        per_param = [[unbound] + (kw_options[p[2]] if len(params) <= 2 else kw_options[p[2]][1:]) for p in params]
        for kwchoice in itertools.product(*per_param):
            kwargs = {p[0]: v for p, v in zip(params, kwchoice) if v is not unbound}
            exp_kw = {**k.defaults, **kwargs}
            typed = all(_val_ok(k.types[n_], v) for n_, v in exp_kw.items())
            for args in arg_tuples:
                cases += 1
                if args or kwargs:
                    nontrivial += 1
                inputs = {"signature": sigtext, "args": list(args), "kwargs": kwargs}
                try:
                    tb = base.with_values(*args, **kwargs)
                except Exception as e:  # noqa: BLE001
                    F.add("C19/A/with-values-never-raises", inputs, f"{type(e).__name__}: {e}", CLAUSE_VALUES)
                    continue
                exp_ps = {str(i): v for i, v in enumerate(args)}
                if not _same_dict(tb.static_input_ps, exp_ps):
                    F.add("C19/A/positional-values-under-their-positions", inputs, f"static_input_ps={tb.static_input_ps!r}", CLAUSE_VALUES)
                if not _same_dict(tb.static_input_kw, exp_kw):
                    F.add("C19/A/keyword-values-under-their-names", inputs, f"static_input_kw={tb.static_input_kw!r}", CLAUSE_VALUES)
                if tb is base or _snap_task(base) != base_snap:
                    F.add("C19/A/with-values-leaves-receiver-unchanged", inputs, f"receiver now kw={base.static_input_kw!r} ps={base.static_input_ps!r}", CLAUSE_PERSIST)
                    base = k.base = TaskBuilder.from_callable(k.func)
                    base_snap = _snap_task(base)
                try:
                    jb = JobBuilder().with_node("n", tb)
                except Exception as e:  # noqa: BLE001
                    F.add("C19/A/with-node-never-raises", inputs, f"{type(e).__name__}: {e}", CLAUSE_EDGES)
                    continue
                tag, payload = _build(jb, JobInstance)
                if tag == "raise":
                    F.add("C19/A/build-never-raises", inputs, f"{type(payload).__name__}: {payload}", CLAUSE_EDGES)
                elif tag == "shape":
                    F.add("C19/A/build-returns-job-or-problem-list", inputs, payload, CLAUSE_EDGES)
                elif tag == "err":
                    if typed:
                        F.add("C19/A/well-formed-description-accepted", inputs, f"error {payload[:2]}", CLAUSE_EDGES)
                else:
                    job = payload
                    ti = job.tasks.get("n") if set(job.tasks.keys()) == {"n"} else None
                    if ti is None or len(job.edges) != 0:
                        F.add("C19/A/job-has-the-tasks-given", inputs, f"tasks={sorted(job.tasks.keys())} edges={len(job.edges)}", CLAUSE_EDGES)
                    else:
                        if not _same_dict(ti.static_input_ps, exp_ps):
                            F.add("C19/A/job-carries-positional-values", inputs, f"static_input_ps={ti.static_input_ps!r}", CLAUSE_VALUES)
                        if not _same_dict(ti.static_input_kw, exp_kw):
                            F.add("C19/A/job-carries-keyword-values", inputs, f"static_input_kw={ti.static_input_kw!r}", CLAUSE_VALUES)
                if len(samples) < 2 and len(args) == 2 and len(kwargs) == len(params) >= 1 and cases % 7 == 0:
                    samples.append(inputs)
    npar = 3 if thorough else 2
    bound = (f"every valid signature with 0..{npar} parameters, each positional-or-keyword or keyword-only, annotated none/int/str, with or without a default "
             f"(None/0/'d'), return annotation none/int/str ({'all three for <=2 parameters, rotating for 3' if thorough else 'all three for <=1 parameter, rotating for 2'}): {len(sigs)} signatures; "
             f"x every positional tuple of length 0..3 over {pool!r}; x every keyword binding where each parameter is unbound or bound to one of "
             f"{'3 (<=2 parameters) or 2 (3 parameters)' if thorough else '3'} values (of the annotated type incl. a falsy one, or of another type); one with_values call then a single-node build. "
             f"non-trivial = at least one value bound")
    out.add_bounded("C19-A signatures x bound values", "exhaustive enumeration", bound, cases, nontrivial, time.time() - t0, samples, F.items)


# ------------------------------------------------------------------------------------------------ sub-space B
def _space_b(out, tier, TaskBuilder, JobBuilder, JobInstance):
    t0 = time.time()
    F = _Failures()
    cases = nontrivial = 0
    samples = []
    thorough = tier != "quick"
    sig_list = [
        (),
        (("a", POK, None, False),),
        (("a", POK, "str", True),),
        (("a", POK, None, False), ("b", POK, "str", True)),
        (("a", POK, "str", False), ("b", KWO, None, True)),
        (("a", KWO, "str", True), ("b", KWO, "int", False)),
    ]
    maxlen = 3 if thorough else 2
    unbound = object()

    def steps(marker, params):
        vals = [marker, None] if thorough else [marker]
        tuples = [a for n in range(maxlen + 1) for a in itertools.product(vals, repeat=n)]
        kws = []
        for choice in itertools.product(*[[unbound, marker + "k"] for _ in params]):
            kws.append({p[0]: v for p, v in zip(params, choice) if v is not unbound})
        return [(a, kw) for a in tuples for kw in kws]

    for params in sig_list:
        k = _Kind(TaskBuilder, params, None)
        base = k.base
        base_snap = _snap_task(base)
        for args1, kw1 in steps("x1", params):
            t1 = base.with_values(*args1, **kw1)
            t1_snap = _snap_task(t1)
            for args2, kw2 in steps("x2", params):
                cases += 1
                overlap = (min(len(args1), len(args2)) > 0) or bool(set(kw1) & set(kw2))
                if (args1 or kw1) and (args2 or kw2):
                    nontrivial += 1
                inputs = {"signature": k.text, "first": {"args": list(args1), "kwargs": kw1}, "second": {"args": list(args2), "kwargs": kw2}}
                try:
                    t2 = t1.with_values(*args2, **kw2)
                except Exception as e:  # noqa: BLE001
                    F.add("C19/B/with-values-never-raises", inputs, f"{type(e).__name__}: {e}", CLAUSE_VALUES)
                    continue
                # allowed values per position / name: a key bound in both calls may carry either value (property silent)
                allowed_ps = {}
                for i, v in enumerate(args1):
                    allowed_ps.setdefault(str(i), []).append(v)
                for i, v in enumerate(args2):
                    allowed_ps.setdefault(str(i), []).append(v)
                allowed_kw = {n_: [v] for n_, v in k.defaults.items()}
                bound_kw = {}
                for n_, v in list(kw1.items()) + list(kw2.items()):
                    bound_kw.setdefault(n_, []).append(v)
                allowed_kw.update(bound_kw)

                def fits(got, allowed):
                    return isinstance(got, dict) and set(got) == set(allowed) and all(any(_same_value(got[x], v) for v in allowed[x]) for x in allowed)
                ok_ps, ok_kw = fits(t2.static_input_ps, allowed_ps), fits(t2.static_input_kw, allowed_kw)
                tag, payload = _build(JobBuilder().with_node("n", t2), JobInstance)
                if tag == "ok" and "n" in payload.tasks:
                    ok_ps = ok_ps and fits(payload.tasks["n"].static_input_ps, allowed_ps)
                    ok_kw = ok_kw and fits(payload.tasks["n"].static_input_kw, allowed_kw)
                elif tag in ("raise", "shape"):
                    F.add("C19/B/build-never-raises", inputs, f"{tag}: {payload!r:.200}", CLAUSE_EDGES)
                elif all(_val_ok(k.types[x], v) for x, vs in allowed_kw.items() for v in vs):
                    # an error list is only unexpected when every keyword value has the annotated type
                    F.add("C19/B/well-formed-description-accepted", inputs, f"{tag}: {payload!r:.200}", CLAUSE_EDGES)
                if not ok_ps:
                    F.add("C19/B/positional-values-under-their-positions", inputs, f"static_input_ps={t2.static_input_ps!r}", CLAUSE_VALUES)
                if not ok_kw:
                    F.add("C19/B/keyword-values-under-their-names", inputs, f"static_input_kw={t2.static_input_kw!r}", CLAUSE_VALUES)
                if t2 is t1 or _snap_task(t1) != t1_snap or _snap_task(base) != base_snap:
                    F.add("C19/B/with-values-leaves-receiver-unchanged", inputs, f"first-step task now kw={t1.static_input_kw!r} ps={t1.static_input_ps!r}", CLAUSE_PERSIST)
                    base = TaskBuilder.from_callable(k.func)
                    base_snap = _snap_task(base)
                    t1 = base.with_values(*args1, **kw1)
                    t1_snap = _snap_task(t1)
                if len(samples) < 2 and overlap and len(args1) != len(args2) and kw2 and cases % 5 == 0:
                    samples.append(inputs)
    bound = (f"{len(sig_list)} signatures (0..2 parameters, both kinds, defaults, annotations); two successive with_values calls, each with every positional tuple of "
             f"length 0..{maxlen} over {'2 values' if thorough else '1 value'} and every subset of parameters bound by keyword; values of the two calls are distinguishable; "
             f"a position / name bound in both calls may carry either value; non-trivial = both calls bind something")
    out.add_bounded("C19-B chained with_values", "exhaustive enumeration", bound, cases, nontrivial, time.time() - t0, samples, F.items)


# ------------------------------------------------------------------------------------------------ sub-space C (+ R)
def _menu(TaskBuilder, thorough):
    K = lambda params, ret, args=(), kwargs=None: _Kind(TaskBuilder, params, ret, args, kwargs)  # noqa: E731
    menu = [
        K((("a", POK, None, False), ("b", POK, None, True)), None),                                   # f(a, b=None)               -> Any
        K((("a", POK, "int", False), ("k", KWO, "str", False)), "int", (7,)),                            # f(a: int, *, k: str) -> int, 7 bound at position 0
        K((("a", POK, "str", True), ("k", POK, "int", True)), "str", (), {"k": 5}),                     # f(a: str='d', k: int=0) -> str, k=5
        K((("a", POK, "int", False), ("b", POK, "str", False)), "int", (None, "s", 0), {"b": ""}),      # f(a: int, b: str) -> int, 3 positionals + falsy kw
    ]
    if thorough:
        menu += [
            K((("k", KWO, "int", True), ("a", KWO, None, True)), "str", (), {"a": [1]}),               # f(*, k: int=0, a=None) -> str
            K((("a", POK, "str", False), ("b", POK, "int", True)), None, ("p",)),                        # f(a: str, b: int=0)      -> Any
        ]
    return menu


def _explore(F, prefix, JobInstance, default_output, nodes, b, edges, depth, alphabet, stats):
    tag, payload = _build(b, JobInstance)
    demanded = _check_case(F, prefix, nodes, edges, tag, payload, default_output)
    stats["cases"] += 1
    if edges and demanded != "any" and stats["distinct"](edges):
        stats["nontrivial"] += 1
    stats["verdicts"][tag] = stats["verdicts"].get(tag, 0) + 1
    if depth == 0 or stats["abort"]:
        return
    snap = _snap_builder(b)
    jobsnap = payload.model_dump() if tag == "ok" else None
    inputs = _describe(nodes, edges)
    inputs["then"] = f"one-edge extensions (and their extensions, to depth {depth}) derived from this builder and built"
    for e in alphabet:
        try:
            b2 = _apply_edge(b, e)
        except Exception as ex:  # noqa: BLE001
            F.add(prefix + "/with-edge-never-raises", _describe(nodes, edges + [e]), f"{type(ex).__name__}: {ex}", CLAUSE_EDGES)
            continue
        # a receiver changed by with_edge invalidates the rest of this trie (its builders no longer are what `edges` says):
        # report and stop exploring this pair of nodes (also keeps the run time bounded on such code)
        if b2 is b or (depth >= 2 and _snap_builder(b) != snap):
            F.add(prefix + "/earlier-builder-unchanged", inputs, f"with_edge{e!r} changed / returned the builder it was called on", CLAUSE_PERSIST)
            stats["abort"] = True
            return
        _explore(F, prefix, JobInstance, default_output, nodes, b2, edges + [e], depth - 1, alphabet, stats)
        if stats["abort"]:
            return
    if _snap_builder(b) != snap:
        F.add(prefix + "/earlier-builder-unchanged", inputs, "nodes/edges of the earlier builder object differ from the snapshot", CLAUSE_PERSIST)
        stats["abort"] = True
    if jobsnap is not None and payload.model_dump() != jobsnap:
        F.add(prefix + "/earlier-job-unchanged", inputs, "model_dump of the previously built job changed", CLAUSE_PERSIST)
    if stats["abort"]:
        return
    tag2, payload2 = _build(b, JobInstance)
    if tag2 != tag or (tag == "ok" and payload2.model_dump() != jobsnap):
        F.add(prefix + "/earlier-builder-unchanged", inputs, f"rebuilding the earlier builder gives {tag2} / a different job (was {tag})", CLAUSE_PERSIST)


def _space_c(out, tier, TaskBuilder, JobBuilder, JobInstance, default_output, deadline):
    t0 = time.time()
    F = _Failures()
    thorough = tier != "quick"
    menu = _menu(TaskBuilder, thorough)
    names = ["n0", "n1"]
    alphabet = [(s, f, t, i) for s in names + [GHOST] for f in (None, NOPE_OUTPUT) for t in names + [GHOST] for i in ("a", "k", "b", "zz", 0, 2)]
    small = [(s, f, t, i) for s in names + [GHOST] for f in (None, NOPE_OUTPUT) for t in names + [GHOST] for i in ("a", "k", "zz", 1)]
    stats = {"cases": 0, "nontrivial": 0, "verdicts": {}, "distinct": None, "abort": False}
    samples = []

    def drive(k0, k1, depth, alpha, distinct):
        stats["abort"] = False
        stats["distinct"] = distinct  # the secondary runs revisit short edge lists of the main run: those are not counted twice as non-trivial
        nodes = {"n0": k0, "n1": k1}
        snaps = (_snap_task(k0.tb), _snap_task(k1.tb))
        b0 = JobBuilder()
        b1 = b0.with_node("n0", k0.tb)
        snap0, snap1 = _snap_builder(b0), _snap_builder(b1)
        tag1, job1 = _build(b1, JobInstance)
        _check_case(F, "C19/C", {"n0": k0}, [], tag1, job1, default_output)
        jobsnap1 = job1.model_dump() if tag1 == "ok" else None
        b = b1.with_node("n1", k1.tb)
        _explore(F, "C19/C", JobInstance, default_output, nodes, b, [], depth, alpha, stats)
        inputs = {"nodes": {n: k.label() for n, k in nodes.items()}, "then": "builder with n0 only built, then extended by n1 and edges"}
        if b is b1 or b1 is b0 or _snap_builder(b0) != snap0 or _snap_builder(b1) != snap1:
            F.add("C19/C/earlier-builder-unchanged", inputs, "with_node changed / returned the builder it was called on", CLAUSE_PERSIST)
        if jobsnap1 is not None and job1.model_dump() != jobsnap1:
            F.add("C19/C/earlier-job-unchanged", inputs, "model_dump of the job built from the one-node builder changed", CLAUSE_PERSIST)
        if (_snap_task(k0.tb), _snap_task(k1.tb)) != snaps:
            F.add("C19/C/tasks-unchanged-by-building", {"nodes": {n: k.label() for n, k in nodes.items()}}, "a TaskBuilder handed to with_node was mutated", CLAUSE_PERSIST)

    dense = [(s, None, t, i) for s in names for t in names for i in ("a", "k", "b", "zz", 0, 2)]
    dense_set = set(dense)
    dense_pairs = 0
    for k0 in menu:
        for k1 in menu:
            drive(k0, k1, 2, alphabet, lambda edges: True)
            if time.time() < deadline:  # wall-clock guard for a heavily loaded machine; the number of pairs actually done is reported
                drive(k0, k1, 3, dense, lambda edges: len(edges) == 3)
                dense_pairs += 1
    deep_pairs = []
    if thorough:
        deep_pairs = [(menu[0], menu[1]), (menu[1], menu[2]), (menu[3], menu[0]), (menu[4], menu[5])]
        for k0, k1 in deep_pairs:
            drive(k0, k1, 3, small, lambda edges: len(edges) == 3 and any(e not in dense_set for e in edges))
    samples.append(_describe({"n0": menu[0], "n1": menu[1]}, [("n0", None, "n1", "a"), ("n1", None, "n0", 0)]))
    samples.append(_describe({"n0": menu[1], "n1": menu[2]}, [("n0", None, "n1", "k"), (GHOST, NOPE_OUTPUT, "n1", "zz")]))
    bound = (f"two nodes n0,n1, every ordered pair of {len(menu)} task kinds (unannotated / int / str returns; positional-or-keyword and keyword-only parameters, defaults, "
             f"values bound positionally (0..3) and by keyword incl. falsy ones); every edge list of length 0..2 over {len(alphabet)} edges = "
             f"source in {{n0,n1,ghost}} x output in {{default,'nope'}} x sink in {{n0,n1,ghost}} x into in {{'a','k','b','zz',0,2}} (self loops and duplicates included)"
             + f"; plus, for {dense_pairs} of the {len(menu) ** 2} pairs (wall-clock guard), every edge list of length 0..3 over the {len(dense)} edges with existing tasks and the default output"
            + (f"; plus every edge list of length 3 over {len(small)} edges (into in {{'a','k','zz',1}}) for {len(deep_pairs)} pairs" if thorough else "")
             + "; builders are derived as a trie (each prefix builder is extended by every edge, then compared with its snapshot and rebuilt). "
             "non-trivial = at least one edge and the verdict is determined by the property (no unannotated-output -> annotated-parameter keyword edge deciding it). "
             f"observed verdicts {stats['verdicts']}")
    out.add_bounded("C19-C nodes x edges", "exhaustive enumeration", bound, stats["cases"], stats["nontrivial"], time.time() - t0, samples, F.items)


def _space_r(out, tier, seed, TaskBuilder, JobBuilder, JobInstance, default_output, deadline):
    t0 = time.time()
    F = _Failures()
    rng = random.Random(seed)
    thorough = tier != "quick"
    n_cases = 150000 if thorough else 15000
    pnames = "abcd"
    kinds = []
    typed_vals = {None: [0, None, "s", [1], 2.5], "int": [0, 7, -1], "str": ["", "v"]}
    while len(kinds) < (60 if thorough else 30):
        n = rng.randint(0, 4)
        params = tuple((pnames[i], rng.choice((POK, KWO)), rng.choice(ANNS), rng.random() < 0.4) for i in range(n))
        if not _valid(params):
            continue
        args = tuple(rng.choice(typed_vals[None]) for _ in range(rng.randint(0, 3)))
        kwargs = {p[0]: rng.choice(typed_vals[p[2]]) for p in params if rng.random() < 0.4}
        kinds.append(_Kind(TaskBuilder, params, rng.choice(ANNS), args, kwargs))
    all_names = ["n0", "n1", "n2", "n3"]
    seen = set()
    cases = nontrivial = 0
    samples = []
    for _ in range(n_cases):
        if cases % 256 == 0 and time.time() > deadline:
            break
        present = all_names[: rng.randint(1, 4)]
        nodes = {n: rng.choice(kinds) for n in present}
        friendly = rng.random() < 0.6
        edges = []
        for _e in range(rng.randint(0, 5)):
            if friendly:
                sink = rng.choice(present)
                pn = list(nodes[sink].types) or ["a"]
                edges.append((rng.choice(present), rng.choice((None, None, default_output)), sink, rng.choice(pn + [0, 1, 3])))
            else:
                edges.append((rng.choice(present + [GHOST]), rng.choice((None, None, default_output, NOPE_OUTPUT, "1", "")), rng.choice(present + [GHOST]),
                              rng.choice(["a", "b", "c", "d", "zz", "", 0, 1, 3])))
        cut = rng.randint(0, len(edges))
        b = first = JobBuilder().with_node(present[0], nodes[present[0]].tb)
        snap_first = _snap_builder(first)
        tagf, jobf = _build(first, JobInstance)
        snap_jf = jobf.model_dump() if tagf == "ok" else None
        for n in present[1:]:
            b = b.with_node(n, nodes[n].tb)
        for e in edges[:cut]:
            b = _apply_edge(b, e)
        tag1, job1 = _build(b, JobInstance)
        snap_b = _snap_builder(b)
        snap_j = job1.model_dump() if tag1 == "ok" else None
        b2 = b
        for e in edges[cut:]:
            b2 = _apply_edge(b2, e)
        tag, payload = _build(b2, JobInstance)
        demanded = _check_case(F, "C19/R", nodes, edges, tag, payload, default_output)
        inputs = _describe(nodes, edges)
        inputs["prefix_built_first"] = cut
        if _snap_builder(b) != snap_b:
            F.add("C19/R/earlier-builder-unchanged", inputs, "prefix builder differs from its snapshot", CLAUSE_PERSIST)
        if snap_j is not None and job1.model_dump() != snap_j:
            F.add("C19/R/earlier-job-unchanged", inputs, "job built from the prefix changed", CLAUSE_PERSIST)
        if _snap_builder(first) != snap_first or (len(present) > 1 and b is first):
            F.add("C19/R/earlier-builder-unchanged", inputs, "the builder holding only the first node differs from its snapshot after more nodes / edges were added", CLAUSE_PERSIST)
        if snap_jf is not None and jobf.model_dump() != snap_jf:
            F.add("C19/R/earlier-job-unchanged", inputs, "job built from the one-node builder changed", CLAUSE_PERSIST)
        cases += 1
        key = hash(repr((sorted((n, id(k)) for n, k in nodes.items()), edges)))  # hashes keep the memory small
        if key not in seen:
            seen.add(key)
            if edges and demanded != "any":
                nontrivial += 1
        if len(samples) < 2 and tag == "ok" and len(edges) >= 3:
            samples.append(inputs)
    bound = (f"seeded random (seed {seed}): {cases} descriptions with 1..4 nodes drawn from {len(kinds)} random task kinds (0..4 parameters of both kinds, random annotations / "
             "defaults / return annotation, 0..3 positional and random keyword values of the annotated type), 0..5 edges (60% drawn among existing endpoints, 40% over "
             "existing/ghost tasks, outputs default/'0'/'nope'/'1'/'', parameters a-d/'zz'/'' and positions 0,1,3); a random prefix is built first and compared afterwards. "
             "non-trivial = distinct description with at least one edge and a verdict determined by the property")
    out.add_bounded("C19-R random descriptions", "seeded random", bound, cases, nontrivial, time.time() - t0, samples, F.items)


# ------------------------------------------------------------------------------------------------ sub-space D
def _space_t(out, tier, TaskBuilder, JobBuilder, JobInstance):
    """declared types in a subtype relation: a keyword edge from a source declared `-> T1` into a parameter declared `x: T2`, both builtin classes.
    Compatible = a value of the declared output type is a value of the declared parameter type (T1 is T2 or a subclass of it): must be accepted;
    anything else (unrelated types, or the parameter's type NARROWER than the output's) must be answered with the problem list.  No raise either way."""
    import builtins
    t0 = time.time()
    F = _Failures()
    cases = 0
    tys = ["bool", "int", "float", "complex", "str", "bytes", "object", "list", "dict", "BaseException", "ValueError"]
    for t1, t2 in itertools.product(tys, repeat=2):
        for kwo in (False, True):
            cases += 1
            ns1, ns2 = {"__name__": "c19_dynamic"}, {"__name__": "c19_dynamic"}
            exec(f"def f() -> {t1}:\n    return None\n", ns1)
            exec(f"def f({'*, ' if kwo else ''}x: {t2}):\n    return None\n", ns2)
            inputs = {"source": f"def f() -> {t1}", "sink": f"def f({'*, ' if kwo else ''}x: {t2})", "edge": "n0 -> n1.x (keyword)"}
            try:
                b = JobBuilder().with_node("n0", TaskBuilder.from_callable(ns1["f"])).with_node("n1", TaskBuilder.from_callable(ns2["f"]))
                b = b.with_edge("n0", "n1", "x")
            except Exception as e:  # noqa: BLE001
                F.add("C19/T/never-raises", inputs, f"describing the job raised {type(e).__name__}: {e}", CLAUSE_EDGES)
                continue
            tag, payload = _build(b, JobInstance)
            compatible = issubclass(getattr(builtins, t1), getattr(builtins, t2))
            if tag in ("raise", "shape"):
                F.add("C19/T/never-raises", inputs, f"build(): {tag} {payload!r:.200}", CLAUSE_EDGES)
            elif compatible and tag != "ok":
                F.add("C19/T/compatible-edge-accepted", inputs, f"{t1} is {'' if t1 == t2 else 'a subclass of '}{t2}, yet build() answered {payload!r:.200}", CLAUSE_EDGES)
            elif not compatible and tag == "ok":
                F.add("C19/T/ill-formed-edge-rejected", inputs, f"ok(job) although the parameter is declared {t2} and the source is declared to produce {t1}, which is not a {t2}", CLAUSE_EDGES)
    out.add_bounded("C19-T declared types of keyword edges", "exhaustive enumeration",
                    f"every ordered pair of {len(tys)} builtin classes ({', '.join(tys)}) as declared return type of the source and declared type of the sink's parameter, "
                    "positional-or-keyword and keyword-only parameter, one keyword edge, real from_callable / with_node / with_edge / build", cases, cases, time.time() - t0,
                    [{"source": "def f() -> bool", "sink": "def f(x: int)", "verdict expected": "ok"}], F.items)


def _space_d(out, tier, TaskBuilder, JobBuilder, JobInstance):
    t0 = time.time()
    F = _Failures()
    cases = nontrivial = 0
    samples = []
    sources = [
        ("def f(a, **kw):", {"a"}, True),
        ("def f(**kw):", set(), True),
        ("def f(*args, **kw):", set(), True),
        ("def f(*args):", set(), False),
        ("def f(a):", {"a"}, False),
        ("def f(a: int = 0, *, k: str = 'd'):", {"a", "k"}, False),
    ]
    pool = [0, "s", None]
    for text, pnames, has_varkw in sources:
        ns = {"__name__": "c19_dynamic"}
        exec(text + "\n    return 0\n", ns)
        try:
            base = TaskBuilder.from_callable(ns["f"])
        except Exception as e:  # noqa: BLE001
            F.add("C19/D/task-from-callable", {"signature": text}, f"{type(e).__name__}: {e}", CLAUSE_EDGES)
            continue
        defaults = dict(base.static_input_kw)
        for args in [a for n in range(4) for a in itertools.product(pool, repeat=n)]:
            for kwargs in ({}, {"zz": 1}, {"zz": None, "yy": "s"}):
                cases += 1
                if kwargs:
                    nontrivial += 1
                inputs = {"signature": text, "args": list(args), "kwargs": kwargs}
                try:
                    tb = base.with_values(*args, **kwargs)
                except Exception as e:  # noqa: BLE001
                    F.add("C19/D/with-values-never-raises", inputs, f"{type(e).__name__}: {e}", CLAUSE_VALUES)
                    continue
                exp_ps = {str(i): v for i, v in enumerate(args)}
                exp_kw = {**defaults, **kwargs}
                if not _same_dict(tb.static_input_ps, exp_ps):
                    F.add("C19/D/positional-values-under-their-positions", inputs, f"static_input_ps={tb.static_input_ps!r}", CLAUSE_VALUES)
                if not _same_dict(tb.static_input_kw, exp_kw):
                    F.add("C19/D/keyword-values-under-their-names", inputs, f"static_input_kw={tb.static_input_kw!r}", CLAUSE_VALUES)
                tag, payload = _build(JobBuilder().with_node("n", tb), JobInstance)
                if tag == "raise":
                    cls = DEFECT_KEY if (isinstance(payload, KeyError) and kwargs) else "other"
                    F.add("C19/D/build-never-raises", inputs, f"build() raised {type(payload).__name__}: {payload}", CLAUSE_EDGES, cls)
                elif tag == "shape":
                    F.add("C19/D/build-returns-job-or-problem-list", inputs, payload, CLAUSE_EDGES)
                elif tag == "err":
                    # a keyword the callable accepts (through **kw) or no keyword at all: nothing is wrong with the description
                    if not kwargs or has_varkw:
                        F.add("C19/D/well-formed-description-accepted", inputs, f"error {payload[:2]}", CLAUSE_EDGES)
                else:
                    ti = payload.tasks.get("n")
                    if ti is None or not _same_dict(ti.static_input_ps, exp_ps):
                        F.add("C19/D/job-carries-positional-values", inputs, "positional values differ in the job", CLAUSE_VALUES)
                    if ti is None or not _same_dict(ti.static_input_kw, exp_kw):
                        F.add("C19/D/job-carries-keyword-values", inputs, "keyword values differ in the job", CLAUSE_VALUES)
                if len(samples) < 2 and kwargs and len(args) == 1:
                    samples.append(inputs)
    bound = (f"{len(sources)} callables with *args / **kwargs / plain parameters; every positional tuple of length 0..3 over {pool!r}; keyword bindings none, {{zz}}, {{zz,yy}} "
             "(names outside the declared parameters); with_values then single-node build; a keyword the callable cannot take may be rejected or accepted but build must not raise; "
             "non-trivial = some keyword outside the declared parameters is bound")
    out.add_bounded("C19-D keywords outside the declared parameters", "exhaustive enumeration", bound, cases, nontrivial, time.time() - t0, samples, F.items)


# ------------------------------------------------------------------------------------------------ entry point
def run(out, tier, seed):
    from cascade.low.builders import JobBuilder, TaskBuilder
    from cascade.low.core import JobInstance
    from earthkit.workflows.graph import Node

    default_output = Node.DEFAULT_OUTPUT
    start = time.time()
    quick = tier == "quick"
    _space_a(out, tier, TaskBuilder, JobBuilder, JobInstance, default_output)
    _space_b(out, tier, TaskBuilder, JobBuilder, JobInstance)
    _space_d(out, tier, TaskBuilder, JobBuilder, JobInstance)
    _space_t(out, tier, TaskBuilder, JobBuilder, JobInstance)
    _space_c(out, tier, TaskBuilder, JobBuilder, JobInstance, default_output, start + (40 if quick else 600))
    _space_r(out, tier, seed, TaskBuilder, JobBuilder, JobInstance, default_output, start + (52 if quick else 780))
