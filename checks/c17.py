"""C17 - every wire and file encoding round-trips over its whole value domain."""
import time

from checks import common, c17_gen
from pyvc.frontend import Frontend


# pickle-based encodings: the dependency's round trip is ASSUMED (codec_pair), the repository's composition of it is proved
CODEC_TARGETS = ["harness:serde-message-roundtrip", "harness:report-roundtrip", "harness:report-rejects-non-report",
                 "harness:framing-reliable-send", "harness:framing-send-data", "harness:framing-local-callback"]


def generated_sources(fe):
    return [("checks/c17_gen.py:generated", c17_gen.harness_source(fe))]


def run(tier, seed):
    out = common.Outcome("C17", tier, seed)
    fe = Frontend()
    gen = generated_sources(fe)
    classes = [ci.name for ci in c17_gen.message_classes(fe)]
    targets = [f"harness:roundtrip-{n}" for n in classes] + CODEC_TARGETS
    reports = common.pyvc_run(targets, gen_sources=gen, timeout_ms=10000 if tier == "quick" else 60000)
    out.add_pyvc(reports)
    out.extra["message_classes_found_in_source"] = classes
    out.assumptions += [
        "int.to_bytes/from_bytes, str.encode/decode('ascii') and slice clamping as axiomatised in pyvc/bytesalg.py",
        "pickle.loads(pickle.dumps(v)) == v (codec_pair, assumed): with it, serde.ser_message/des_message, report.serialize/deserialize and the framing "
        "send / send_data / callback -> Listener._recv_one are PROVED to return the original message for every message",
        "cloudpickle / orjson / pydantic round-trip plain data (gateway JSON, JobInstance): assumed, exercised only by the bounded stand-in",
    ]
    # premise of the assumed pickle law, scanned on the source of every run: the law is only claimed for classes that leave pickling to the default protocol
    import ast, os
    custom = []
    for rel in ("cascade/executor/msg.py", "cascade/low/core.py", "cascade/controller/report.py"):
        path = os.path.join(common.REPO_SRC, rel)
        for node in ast.walk(ast.parse(open(path).read())):
            if isinstance(node, ast.ClassDef):
                for b in node.body:
                    if isinstance(b, (ast.FunctionDef, ast.Assign)) and any(n in ("__reduce__", "__reduce_ex__", "__getstate__", "__setstate__", "__getnewargs__", "__getnewargs_ex__")
                                                                         for n in ([b.name] if isinstance(b, ast.FunctionDef) else [getattr(t, "id", "") for t in b.targets])):
                        custom.append(f"{rel}:{node.name}")
    out.extra["pickle_law_premise"] = {"scanned": "class bodies of executor/msg.py, low/core.py, controller/report.py for __reduce__/__reduce_ex__/__getstate__/__setstate__/__getnewargs__",
                                       "classes_customising_pickling": custom}
    if custom:
        out.assumptions.append(f"PREMISE OF THE ASSUMED PICKLE LAW NOT MET on this tree: {custom} customise their own pickling - the serde/framing proofs say nothing about them; "
                               "only the bounded stand-in (real pickle, enumerated instances) speaks for these classes")
    from checks import c17_bounded
    c17_bounded.run(out, tier, seed)
    return out.finish("proof", rule="one proof harness per message class found in cascade/shm/api.py (read from the source on every run); an obligation is one "
                      "(clause, path) verification condition; bounded stand-in: enumerated instances of the pickle/JSON based encodings",
                      explanation="for EVERY field valuation: api.ser(m) raises only outside the admitted domain, and api.deser(api.ser(m)) == m")
