"""C18 - the gateway attributes progress/results to the right job and keeps the newest."""
from checks import common

TARGETS = [
    "cascade.gateway.router:JobRouter.__init__",
    "cascade.gateway.router:JobRouter.spawn_job",
    "cascade.gateway.router:JobRouter.maybe_update",
    "cascade.gateway.router:JobRouter.put_result",
    "cascade.gateway.router:JobRouter.get_result",
    "cascade.gateway.server:handle_controller",
    "cascade.gateway.router:JobRouter.progress_of",
    "cascade.gateway.server:handle_fe",
    "cascade.low.func:next_uuid",
]
# server.handle_controller (the loop that stores every result a report carries) is under contract too since the engine knows that a
# list and a dict are different objects (container kinds): its invariant-preservation VC needed exactly that fact.


def run(tier, seed):
    out = common.Outcome("C18", tier, seed)
    reports = common.pyvc_run(TARGETS, timeout_ms=10000 if tier == "quick" else 60000)
    out.add_pyvc(reports)
    from checks import c18_bounded
    c18_bounded.run(out, tier, seed)
    out.assumptions += ["the history claim (for every report sequence the shown progress is the greatest-timestamp one) follows from the per-call contract of "
                        "maybe_update by induction on the sequence; the induction step is the conjunction of the three top clauses - stated, and exercised by the bounded stand-in",
                        "zmq sockets / poller and subprocess spawning are outside the property (assumed contracts get_context, _spawn_subprocess)"]
    return out.finish("proof", rule="obligations = (clause, path) VCs of the JobRouter operations; bounded stand-in = all report sequences up to the stated length",
                      explanation="newest-timestamp-wins, shutdown keeps progress, results stored per (job, dataset), ids fresh, whole-view frames, ownership invariant of JobRouter")
