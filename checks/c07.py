"""C07 - a transfer stores the dataset once, byte-identical, and announces it once."""
from checks._simple import run_simple

PROVED_TARGETS = ["cascade.executor.data_server:DataServer.store_payload", "cascade.executor.data_server:DataServer.send_payload", "cascade.executor.data_server:DataServer.maybe_clean"]


def run(tier, seed):
    return run_simple("C07", tier, seed, "checks.c07_bounded", PROVED_TARGETS,
                      explanation="real DataServer.recv_loop/send_payload/store_payload/maybe_clean + real Listener/send_data over the adversarial network; thread-pool jobs scheduled by the adversary",
                      assumptions=["thread-pool timing is replaced by adversary-chosen job order; the 4 s timers by a manual clock", "byte identity across hosts relies on C17's framing obligations and on pickle for the header"])
