"""C14 - bounded stand-in (see checks/c14_bounded.py)."""
from checks._simple import run_simple


def run(tier, seed):
    return run_simple("C14", tier, seed, "checks.c14_bounded", [],
                      explanation="real library code on exhaustively enumerated programs / builder inputs",
                      assumptions=["pydantic model_copy / pyrsistent persistent structures behave as documented", "sha256 is collision free on the names compared"])
