"""helper: a check made of a bounded stand-in (+ optional proved targets)"""
import importlib

from checks import common


def run_simple(prop, tier, seed, bounded_module, proved_targets=(), gen_sources=None, level="exploration", explanation="", assumptions=(), extra=()):
    out = common.Outcome(prop, tier, seed)
    if proved_targets:
        out.add_pyvc(common.pyvc_run(list(proved_targets), gen_sources=gen_sources, timeout_ms=10000 if tier == "quick" else 60000))
    try:
        m = importlib.import_module(bounded_module)
        m.run(out, tier, seed)
    except Exception as e:  # noqa - a stand-in that dies is a checker problem (exit 3), never an alarm by itself; proved obligations are still reported
        import traceback
        out.crashes.append(f"stand-in {bounded_module} crashed: {type(e).__name__}: {e} | {' / '.join(traceback.format_exc().splitlines()[-4:])}")
    for fn in extra:
        try:
            fn(out, tier, seed)
        except Exception as e:  # noqa
            import traceback
            out.crashes.append(f"extra stand-in {fn.__name__} crashed: {type(e).__name__}: {e} | {' / '.join(traceback.format_exc().splitlines()[-3:])}")
    out.assumptions += list(assumptions)
    return out.finish(level, rule="see bounded_standins[].bound; obligations are (clause, path) verification conditions of the functions under contract", explanation=explanation)
