"""helper: a check made of a bounded stand-in (+ optional proved targets)"""
import importlib

from checks import common


def run_simple(prop, tier, seed, bounded_module, proved_targets=(), gen_sources=None, level="exploration", explanation="", assumptions=()):
    out = common.Outcome(prop, tier, seed)
    if proved_targets:
        out.add_pyvc(common.pyvc_run(list(proved_targets), gen_sources=gen_sources, timeout_ms=10000 if tier == "quick" else 60000))
    m = importlib.import_module(bounded_module)
    m.run(out, tier, seed)
    out.assumptions += list(assumptions)
    return out.finish(level, rule="see bounded_standins[].bound; obligations are (clause, path) verification conditions of the functions under contract", explanation=explanation)
