"""Small targeted sub-spaces added after a seeded change was missed (each states which clause of which property it exercises)."""
import itertools
import time


def c10_shared_instances(out, tier, seed):
    """C10: 'its callable receives exactly the declared static arguments and upstream values' - also when ONE TaskInstance object
    backs several task ids (JobBuilder re-use) that differ in their keyword edges, in every run order on one worker"""
    from checks import ctrlx
    t0 = time.time()
    cases, failures = 0, []
    for spec in ctrlx.shared_instance_jobs():
        for (h, w) in [(1, 1), (1, 2), (2, 1)]:
            for sd in range(6 if tier == "quick" else 40):
                ok, info = ctrlx.run_one(spec, h, w, set(), seed * 100 + sd)
                cases += 1
                for v in info["all"]:
                    if v["obligation"] == "C01/value-equals-sequential" and not failures:
                        failures.append({"obligation": "C10/run/shared-task-instance-arguments", "inputs": {"job": v["job"], "env": [h, w], "seed": sd}, "observed": v["observed"][:400],
                                         "clause": "the callable receives exactly the declared static arguments and upstream values", "class": "other"})
    out.add_bounded("shared TaskInstance objects", "enumeration + seeded schedules", "2 jobs in which two task ids share one TaskInstance and differ in one keyword edge x 3 environments x "
                    f"{6 if tier == 'quick' else 40} schedules, run through the real controller and runner", cases, cases, time.time() - t0, [{"job": ctrlx.shared_instance_jobs()[0].describe()}], failures)


def c11_input_maps(out, tier, seed):
    """C11: 'expansion wires each consumer ... for every expander/sub-graph/input-map': explicit EMPTY input map (nothing spliced) vs None
    (splice by name) vs explicit / crossed maps, with sub-graph sources named like the expanded node's inputs"""
    from earthkit.workflows.graph import Graph, Node, expand_graph
    t0 = time.time()
    cases, failures = 0, []

    def den(node, out_name, memo):
        key = (id(node), out_name)
        if key not in memo:
            memo[key] = (node.payload, out_name, tuple(sorted((k, den(v.parent, v.name, memo)) for k, v in node.inputs.items())))
        return memo[key]

    def host():
        x, y = Node("x", payload="X"), Node("y", payload="Y")
        h = Node("h", payload="H", a=x, b=y)
        s = Node("s", outputs=[], payload="S", inp=h)
        return Graph([s]), x, y

    def sub():
        a, b = Node("a", payload="SA"), Node("b", payload="SB")
        m = Node("m", payload="M", l=a, r=b)
        o = Node("0", outputs=[], payload="O", v=m)   # leaf named like the default output of the expanded node
        return Graph([o])
    X, Y = ("X", "0", ()), ("Y", "0", ())
    for imap_name, imap in [("none", None), ("empty", {}), ("identity", {"a": "a", "b": "b"}), ("crossed", {"a": "b", "b": "a"}), ("partial", {"a": "a"})]:
        cases += 1
        g, x, y = host()

        def expander(n, imap=imap):
            if n.name != "h":
                return None
            return (sub(), imap, None)
        try:
            res = expand_graph(expander, g)
        except Exception as e:  # noqa
            failures.append({"obligation": "C11/expand/input-map", "inputs": {"input_map": imap_name}, "observed": f"raised {e!r}", "class": "other", "clause": "expand with every input map"})
            continue
        # reference: a source of the sub-graph named k is replaced by a node with the source's payload fed by the host input imap[k] (None: same name) ; unmapped sources stay sources
        eff = {"a": "a", "b": "b"} if imap is None else imap
        hostin = {"a": X, "b": Y}
        def src(k, payload):
            if k in eff:
                return (payload, "0", (("input", hostin[eff[k]]),))
            return (payload, "0", ())
        m = ("M", "0", (("l", src("a", "SA")), ("r", src("b", "SB"))))
        leaf = ("O", "0", (("v", m),))
        expect = ("S", "0", (("inp", leaf),))
        sinks = [s for s in res.sinks if s.payload == "S"]
        got = den(sinks[0], "0", {}) if sinks else None
        if got != expect:
            failures.append({"obligation": "C11/expand/input-map", "inputs": {"input_map": imap_name}, "observed": f"sink denotes {got!r}, expected {expect!r}", "class": "other",
                             "clause": "expansion preserves the denotation for every input map"})
    out.add_bounded("expand: input maps vs same-named sub-graph sources", "enumeration", "5 input maps (None, {}, identity, crossed, partial) on a 2-input host node and a sub-graph whose sources carry the host's input names",
                    cases, cases, time.time() - t0, [{"input_maps": ["none", "empty", "identity", "crossed", "partial"]}], failures)
