"""C12 - serialising a graph and reading it back gives an equal graph."""
from checks._simple import run_simple

PROVED_TARGETS = ["earthkit.workflows.graph.nodes:Output.serialise", "earthkit.workflows.graph.nodes:Node.get_output", "earthkit.workflows.graph.nodes:Node.serialise"]


def run(tier, seed):
    return run_simple("C12", tier, seed, "checks.c12_bounded", PROVED_TARGETS,
                      explanation="real serialise/deserialise/to_json/from_json/Cascade.serialise on enumerated DAGs, compared node by node with a snapshot taken before serialising",
                      assumptions=["json / dill round-trip plain data", "graphlib.TopologicalSorter yields every key once, parents first"])
