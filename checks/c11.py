"""C11 - bounded stand-in (see checks/c11_bounded.py)."""
from checks._simple import run_simple


def run(tier, seed):
    return run_simple("C11", tier, seed, "checks.c11_bounded", [],
                      explanation="real library code on exhaustively enumerated DAGs compared with an independent reference",
                      assumptions=["networkx / the harness's own reference model are trusted as the specification's executable form"])
