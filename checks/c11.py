"""C11 - bounded stand-in (see checks/c11_bounded.py)."""
from checks._simple import run_simple


def run(tier, seed):
    from checks import extra_bounded
    return run_simple("C11", tier, seed, "checks.c11_bounded", [], extra=[extra_bounded.c11_input_maps],
                      explanation="real library code on exhaustively enumerated DAGs compared with an independent reference",
                      assumptions=["networkx / the harness's own reference model are trusted as the specification's executable form"])
