"""Bounded stand-in for C08 / C09: the REAL cascade.shm.dataset.Manager and the REAL Disk._page_out/_page_in code driven through
operation sequences, with /dev/shm replaced by an in-process segment table, the disk thread pools replaced by a list of pending
jobs that the enumerator completes (successfully or not) in any order, and a controllable clock.

Ground truth is kept by the harness (segment table, bytes written by the 'clients'), never read from Manager's bookkeeping.
"""
from __future__ import annotations

import itertools
import random
import time


class Segs:
    """the fake /dev/shm"""

    def __init__(self):
        self.t = {}


class FakeSharedMemory:
    table: Segs = None

    def __init__(self, name, create=False, size=0):
        self._name = name
        if create:
            if name in self.table.t:
                raise FileExistsError(name)
            self.table.t[name] = bytearray(size)
        elif name not in self.table.t:
            raise FileNotFoundError(name)
        self._closed = False

    @property
    def buf(self):
        return memoryview(self.table.t[self._name])

    @property
    def size(self):
        return len(self.table.t[self._name])

    @property
    def name(self):
        return self._name

    def unlink(self):
        if self._name not in self.table.t:
            raise FileNotFoundError(self._name)
        del self.table.t[self._name]

    def close(self):
        self._closed = True


class World:
    def __init__(self, capacity, available=1 << 40):
        import cascade.shm.dataset as dataset
        import cascade.shm.disk as disk
        import multiprocessing.resource_tracker as rt
        self.dataset, self.disk_mod = dataset, disk
        self.segs = Segs()
        FakeSharedMemory.table = self.segs
        dataset.SharedMemory = FakeSharedMemory
        disk.SharedMemory = FakeSharedMemory
        rt.unregister = lambda *a, **k: None
        dataset.get_capacity = lambda: available  # what /dev/shm offers: a configured capacity above it is trimmed
        self.now = 10 ** 9
        dataset.time.time_ns = lambda: self.now
        self.pending = []  # (kind, shmid, size, callback)
        world = self

        class FakeDisk(disk.Disk):
            def __init__(self):
                import tempfile
                self.root = tempfile.TemporaryDirectory(ignore_cleanup_errors=True)

            def page_out(self, shmid, callback):
                world.pending.append(("out", shmid, None, callback))

            def page_in(self, shmid, size, callback):
                world.pending.append(("in", shmid, size, callback))

            def atexit(self):
                self.root.cleanup()
        dataset.disk.Disk = FakeDisk
        self.m = dataset.Manager("p", capacity)
        self.capacity = min(capacity, available) if capacity else available  # ground truth: the store can never hold more than /dev/shm offers
        # ground truth
        self.written = {}  # key -> bytes the writer put (only once finished)
        self.granted = {}  # key -> (shmid, size) handed out by add
        self.readers = {}  # key -> {rdid: start time}
        self.purge_requested = set()
        self.reserved_in = {}  # shmid -> size of page-ins in progress
        self.counter = 0
        self.stale_out = set()  # shmids whose dataset was purged while its page-out job was still pending
        self.stale_completed = False
        self.evicted_unwritten = set()  # keys whose page-out completed while their writer had not finished (stale writer)
        self.failed_out_with_reader = set()  # keys whose page-out FAILED while a reader was still registered
        self.leak = 0  # bytes reserved by page-ins that failed before creating their segment (known finding, see below)

    # ---- ground truth -------------------------------------------------------------------------------------
    def resident(self):
        total = sum(len(b) for b in self.segs.t.values())
        total += sum(self.reserved_in.values())
        return total

    def close(self):
        try:
            self.m.disk.atexit()
        except Exception:
            pass


STALE = int(15 * 60 * 1e9)


class _JobStuck(Exception):
    """a page job (the real Disk code plus the manager's callback) did not return: it waits for a lock it can never get"""


def _run_job(fn, *args, seconds=6.0):
    """the pool thread's work, run under a deadline: a job that never returns holds the manager's locks for ever (every later request answers 'wait')"""
    import threading
    box = {}

    def body():
        try:
            fn(*args)
        except BaseException as e:  # noqa
            box["exc"] = e
    t = threading.Thread(target=body, daemon=True)
    t.start()
    t.join(seconds)
    if t.is_alive():
        raise _JobStuck(f"{getattr(fn, '__name__', fn)}{tuple(a for a in args if isinstance(a, (str, int)))} did not return within {seconds} s")
    if "exc" in box:
        raise box["exc"]


def check_invariants(w: World, trace, failures, after):
    m = w.m
    res = w.resident()
    if res > w.capacity:
        failures.append(("C08", "C08/resident-within-capacity", f"after {after}: {res} bytes resident in shared memory > capacity {w.capacity}",
                         "stale-pageout-after-purge" if w.stale_completed else "other"))
    if m.free_space != w.capacity - res:
        # a failed page-in never returns its reservation (Manager.page_in's callback calls purge, whose unlink of the segment
        # that was never created raises and is swallowed): classified separately so that any OTHER discrepancy is still reported
        cls = "failed-page-in-leaks-reservation" if w.leak and m.free_space == w.capacity - res - w.leak else "other"
        if w.stale_completed:
            cls = "stale-pageout-after-purge"
        failures.append(("C08", "C08/free-space-equals-capacity-minus-resident", f"after {after}: store reports free_space={m.free_space}, capacity - resident = {w.capacity - res}", cls))
    # C09: a dataset with a fresh reader is neither paged out nor unlinked
    for key, rs in w.readers.items():
        fresh = [r for r, t0 in rs.items() if w.now - t0 <= STALE]
        if fresh and key in w.granted and w.granted[key][0] not in w.segs.t:
            failures.append(("C09", "C09/protected-while-read", f"after {after}: {key} has a fresh reader but its segment is gone", "stale-pageout-after-purge" if w.stale_completed else "other"))
    # C09 lock invariant: eviction must not be disabled for ever (lock held with no page-out pending)
    n_out = sum(1 for p in w.pending if p[0] == "out")
    if m.pageout_all.locked() and n_out == 0:
        failures.append(("C09", "C09/eviction-not-disabled", f"after {after}: page-out lock held although no page-out job is pending (every later eviction attempt returns immediately)", "other"))


def step(w: World, op, failures):
    """apply one operation; returns a JSON-able description, or None if the op is not enabled"""
    m = w.m
    kind = op[0]
    if kind == "add":
        _, key, size = op
        res_before = w.resident()
        shmid, err = m.add(key, size, "des")
        if err == "":
            if key in w.granted:
                failures.append(("C08", "C08/no-double-grant", f"add({key}) granted although the key already exists", "other"))
            if size > w.capacity - res_before:
                # (after a stale page-out job has credited a purged dataset's size a second time - known finding - free_space is too
                #  large, so a later grant comes early: same witness class)
                failures.append(("C08", "C08/never-granted-early", f"add({key},{size}) granted with only {w.capacity - res_before} bytes free",
                                 "stale-pageout-after-purge" if w.stale_completed else "other"))
            w.granted[key] = (shmid, size)
            FakeSharedMemory(shmid, create=True, size=size)  # the client allocates the segment it was granted
            w.counter += 1
            payload = bytes(((w.counter * 7 + i) % 251 for i in range(size)))
            w.segs.t[shmid][:] = payload
            w._pending_write = getattr(w, "_pending_write", {})
            w._pending_write[key] = payload
        else:
            if err == "capacity exceeded" and size <= w.capacity:
                failures.append(("C08", "C08/refusal-only-above-capacity", f"add({key},{size}) refused outright although capacity is {w.capacity}", "other"))
            if err == "wait" and size <= w.capacity - res_before and key not in w.granted:
                pass  # answering wait although it fits is not forbidden by the property
        return ["add", key, size, err or "granted"]
    if kind == "fin_write":
        _, key = op
        if key not in w.granted or key in w.written:
            return None
        try:
            m.close_callback(key, "")
            w.written[key] = w._pending_write[key]
        except Exception as e:  # noqa
            return ["fin_write", key, repr(e)]
        return ["fin_write", key]
    if kind == "get":
        _, key = op
        if key not in w.granted:
            return None
        shmid, size, rdid, des, err = m.get(key)
        if err == "":
            if key not in w.written:
                # known finding: a dataset whose writer stalled past the staleness window is paged out like any other; a later get()
                # pages it back in and hands it out although the writer never finished
                failures.append(("C09", "C09/not-readable-before-written", f"get({key}) succeeded before the writer finished",
                                 "unwritten-dataset-evicted-then-read" if key in w.evicted_unwritten else "other"))
            elif shmid not in w.segs.t or bytes(w.segs.t[shmid][:size]) != w.written[key]:
                failures.append(("C09", "C09/bytes-read-equal-bytes-written", f"get({key}) returned bytes that differ from what was written (or a missing segment)",
                                 "stale-pageout-after-purge" if w.stale_completed else "other"))
            w.readers.setdefault(key, {})[rdid] = w.now
        return ["get", key, err or "ok"]
    if kind == "fin_read":
        _, key = op
        rs = w.readers.get(key, {})
        if not rs:
            return None
        rdid = sorted(rs)[0]
        try:
            m.close_callback(key, rdid)
        except Exception as e:  # noqa
            rs.pop(rdid)
            return ["fin_read", key, repr(e)]
        rs.pop(rdid)
        if not rs and key in w.purge_requested:
            shmid = w.granted[key][0]
            if shmid in w.segs.t or key in m.datasets:
                # purge deferred during the read must take effect when the last reader closes (unless it went to disk meanwhile)
                if key in m.datasets and m.datasets[key].status.name == "in_memory":
                    failures.append(("C09", "C09/delayed-purge-takes-effect", f"{key}: purge requested during a read did not take effect when the last reader closed", "other"))
            _forget(w, key)
        return ["fin_read", key]
    if kind == "purge":
        _, key = op
        if key not in w.granted:
            return None
        had_readers = bool(w.readers.get(key))
        shmid = w.granted[key][0]
        if any(p[0] == "out" and p[1] == shmid for p in w.pending) and not had_readers:
            w.stale_out.add(shmid)
        m.purge(key)
        if had_readers:
            if shmid not in w.segs.t and any(w.now - t0 <= STALE for t0 in w.readers[key].values()):
                failures.append(("C09", "C09/purge-waits-for-readers", f"purge({key}) unlinked the segment while a reader holds it", "other"))
            w.purge_requested.add(key)
        elif key not in m.datasets:
            _forget(w, key)
        return ["purge", key]
    if kind == "complete":
        _, idx, ok = op
        if idx >= len(w.pending):
            return None
        k, shmid, size, cb = w.pending.pop(idx)
        if k == "out":
            key_of = next((kk for kk, g in w.granted.items() if g[0] == shmid), None)
            if key_of is not None and ok is True and key_of not in w.written:
                w.evicted_unwritten.add(key_of)
            # "a reader is still registered" is the MANAGER's view (Dataset.ongoing_reads): a reader whose close was rejected because the dataset was already
            # being paged out has given up on the client side (w.readers) but stays registered there - the same history, close before the failure instead of after
            if key_of is not None and ok is not True and (w.readers.get(key_of) or (key_of in w.m.datasets and w.m.datasets[key_of].ongoing_reads)):
                w.failed_out_with_reader.add(key_of)
            if shmid in w.stale_out:
                w.stale_out.discard(shmid)
                w.stale_completed = True  # known finding: the job's callback acts on a dataset that was purged (and maybe re-added)
            if ok:
                _run_job(w.m.disk._page_out, shmid, cb)  # REAL disk code: segment -> file, unlink, callback
            elif ok is None:
                # the write itself fails (spill directory gone): the REAL _page_out runs into the error and reports it
                import types
                real_root = w.m.disk.root
                w.m.disk.root = types.SimpleNamespace(name=real_root.name + "/gone", cleanup=real_root.cleanup)
                try:
                    _run_job(w.m.disk._page_out, shmid, cb)
                finally:
                    w.m.disk.root = real_root
            else:
                _run_job(cb, False)
        else:
            w.reserved_in.pop(shmid, None)
            if ok == "nofile":
                # the spill file has vanished: the REAL _page_in creates the segment, fails to open the file and reports the failure
                import os
                try:
                    os.remove(f"{w.m.disk.root.name}/{shmid}")
                except OSError:
                    pass
                _run_job(w.m.disk._page_in, shmid, size, cb)
            elif ok:
                _run_job(w.m.disk._page_in, shmid, size, cb)  # REAL disk code: file -> new segment, callback
            else:
                before = w.m.free_space
                _run_job(cb, False)
                if w.m.free_space == before and shmid not in w.segs.t:
                    w.leak += size
        _sync_forgotten(w)
        return ["complete", k, shmid[-4:], ok]
    if kind == "tick":
        w.now += STALE + 1
        return ["tick"]
    raise ValueError(op)


def _forget(w, key):
    w.granted.pop(key, None)
    w.written.pop(key, None)
    w.readers.pop(key, None)
    w.purge_requested.discard(key)


def _sync_forgotten(w):
    # datasets dropped by the manager after a failed job are gone for the clients too
    for key in list(w.granted):
        if key not in w.m.datasets and not w.readers.get(key):
            _forget(w, key)


def track_page_in(w: World):
    # a page-in in progress reserves memory: mirror it in the ground truth when the job is registered
    for k, shmid, size, cb in w.pending:
        if k == "in" and shmid not in w.reserved_in and shmid not in w.segs.t:
            w.reserved_in[shmid] = size


def enabled_ops(w: World, keys, sizes):
    ops = []
    for k in keys:
        if k not in w.granted:
            for s in sizes:
                ops.append(("add", k, s))
        else:
            if k not in w.written:
                ops.append(("fin_write", k))
            ops.append(("get", k))
            if w.readers.get(k):
                ops.append(("fin_read", k))
            ops.append(("purge", k))
    for i in range(len(w.pending)):
        ops.append(("complete", i, True))
        ops.append(("complete", i, False))
        if w.pending[i][0] == "out":
            ops.append(("complete", i, None))  # page-out whose write to the spill file fails inside the real Disk code
    ops.append(("tick",))
    return ops


def run_sequence(capacity, choose, length, keys, sizes):
    """choose(ops) -> index.  returns (trace, failures)"""
    w = World(capacity)
    failures, trace = [], []
    try:
        for _ in range(length):
            ops = enabled_ops(w, keys, sizes)
            op = ops[choose(len(ops))]
            try:
                d = step(w, op, failures)
            except _JobStuck as e:
                failures.append(("C09", "C09/evictable-request-eventually-granted", f"{op}: {e} - the job holds the manager's locks for ever: every later request that needs eviction is answered 'wait'", "other"))
                failures.append(("C08", "C08/manager-operation-raised", f"{op}: {e}", "other"))
                w.stuck = True
                break
            except Exception as e:  # noqa
                import traceback
                failures.append(("C08", "C08/manager-operation-raised", f"{op}: {type(e).__name__}: {e} | {traceback.format_exc().splitlines()[-3:]}", "other"))
                trace.append([str(x) for x in op] + ["RAISED"])
                break
            if d is None:
                continue
            track_page_in(w)
            trace.append(d)
            check_invariants(w, trace, failures, d)
            if any(f[3] == "other" for f in failures) or len(failures) > 3:
                break
        _stuck(w, failures)
        if not failures and not getattr(w, "stuck", False):
            liveness(w, failures, trace)
    finally:
        w.close()
    return trace, failures


def _stuck(w, failures):
    if getattr(w, "stuck", False):
        return
    """C09 last sentence (safety core): a dataset left in 'paging_out' with no page-out job pending can never be evicted, read or
    reclaimed - every request that needs its memory is answered 'wait' for ever"""
    if w.stale_completed:
        return
    stuck = [k for k, dsx in w.m.datasets.items() if dsx.status.name == "paging_out" and not any(p[0] == "out" and p[1] == dsx.shmid for p in w.pending)]
    if stuck:
        # known finding: a FAILED page-out of a dataset that still has a (stale) reader registered - the callback's purge is deferred
        # because of the reader, and the reader's close is rejected because the status is no longer in_memory
        cls = "failed-pageout-with-stale-reader" if all(w.readers.get(k) or k in w.failed_out_with_reader for k in stuck) else "other"
        failures.append(("C09", "C09/evictable-request-eventually-granted", f"datasets {stuck} are left in 'paging_out' with no page-out job pending: their memory can never be reclaimed", cls))


def liveness(w: World, failures, trace):
    """C09 last sentence, bounded: a request that fits after evicting idle datasets is granted once the page-outs it triggered
    have completed and it is retried"""
    m = w.m
    # only when every present dataset is idle and written (evictable after the staleness tick), and nothing is pending
    if w.pending or any(w.readers.get(k) for k in w.granted) or any(k not in w.written for k in w.granted):
        return
    if any(m.datasets[k].status.name != "in_memory" for k in m.datasets):
        return
    key = "zz"
    size = w.capacity
    for attempt in range(4):
        shmid, err = m.add(key, size, "des")
        if err == "":
            FakeSharedMemory(shmid, create=True, size=size)
            return
        if err != "wait":
            return
        track_page_in(w)
        try:
            while w.pending:
                k, s_id, sz, cb = w.pending.pop(0)
                if k == "out":
                    _run_job(m.disk._page_out, s_id, cb)
                else:
                    w.reserved_in.pop(s_id, None)
                    _run_job(m.disk._page_in, s_id, sz, cb)
        except _JobStuck as e:
            failures.append(("C09", "C09/evictable-request-eventually-granted", f"liveness probe: {e} - the job holds the manager's locks for ever", "other"))
            w.stuck = True
            return
        check_invariants(w, trace, failures, ["liveness-retry", attempt])
        if failures:
            return
    failures.append(("C09", "C09/evictable-request-eventually-granted", f"a request of {size} bytes that fits after evicting the idle datasets was answered 'wait' 4 times although every page-out completed in between", "other"))


SCRIPTS = [
    # two overlapping readers, one stale one fresh, then an allocation that needs eviction (C09 protection)
    (4, [("add", "a", 3), ("fin_write", "a"), ("get", "a"), ("tick",), ("get", "a"), ("add", "b", 3), ("complete", 0, True), ("get", "a"), ("fin_read", "a"), ("fin_read", "a")]),
    (4, [("add", "a", 2), ("fin_write", "a"), ("get", "a"), ("get", "a"), ("tick",), ("get", "a"), ("add", "b", 3), ("complete", 0, True), ("add", "b", 3)]),
    # page out and back in, then read (bytes identical), twice
    (4, [("add", "a", 3), ("fin_write", "a"), ("add", "b", 3), ("complete", 0, True), ("add", "b", 3), ("fin_write", "b"), ("get", "a"), ("complete", 0, True),
         ("get", "a"), ("complete", 0, True), ("get", "a"), ("fin_read", "a")]),
    # purge during a read takes effect at the last close
    (4, [("add", "a", 2), ("fin_write", "a"), ("get", "a"), ("get", "a"), ("purge", "a"), ("fin_read", "a"), ("fin_read", "a"), ("add", "a", 4)]),
    # failed page-out, failed page-in
    (4, [("add", "a", 3), ("fin_write", "a"), ("add", "b", 2), ("complete", 0, False), ("add", "b", 2)]),
    # the same key lives twice: paged out and in, purged while in memory, allocated again with the SAME size and NEW bytes, paged out and in
    # again, read - the second incarnation's bytes must come back (the spill file of the first one is still lying around)
    (4, [("add", "a", 3), ("fin_write", "a"), ("add", "b", 3), ("complete", 0, True), ("add", "b", 3), ("fin_write", "b"), ("get", "a"), ("complete", 0, True),
         ("get", "a"), ("complete", 0, True), ("get", "a"), ("fin_read", "a"), ("purge", "a"), ("add", "a", 3), ("fin_write", "a"), ("get", "b"), ("complete", 0, True),
         ("get", "b"), ("complete", 0, True), ("get", "b"), ("fin_read", "b"), ("get", "a"), ("complete", 0, True), ("get", "a"), ("complete", 0, True), ("get", "a")]),
    # a page-in that fails AFTER its segment was created (the spill file has vanished): the reservation is given back exactly once
    (4, [("add", "a", 3), ("fin_write", "a"), ("add", "b", 3), ("complete", 0, True), ("add", "b", 3), ("fin_write", "b"), ("get", "a"), ("complete", 0, True),
         ("get", "a"), ("complete", 0, "nofile"), ("add", "c", 4), ("add", "d", 1), ("get", "b")]),
    # the only idle dataset was read twice at different times (a multiply-consumed eviction candidate); a request that fits once it is evicted follows
    (4, [("add", "a", 3), ("fin_write", "a"), ("get", "a"), ("fin_read", "a"), ("tick",), ("get", "a"), ("fin_read", "a"), ("tick",), ("add", "b", 3), ("complete", 0, True), ("add", "b", 3)]),
    # one dataset of each kind (never read, read once, read at two different times), then the probe asks for the whole capacity
    (6, [("add", "a", 2), ("fin_write", "a"), ("add", "b", 2), ("fin_write", "b"), ("add", "c", 2), ("fin_write", "c"), ("get", "b"), ("fin_read", "b"),
         ("get", "c"), ("fin_read", "c"), ("tick",), ("get", "c"), ("fin_read", "c"), ("tick",)]),
    # the known finding (known_findings.json, failed-pageout-with-stale-reader), reproduced deterministically so that its KNOWN-FINDING line does not depend on
    # how far the time-budgeted random walks get: a dataset with a stale reader is evicted, the page-out fails
    (4, [("add", "a", 3), ("fin_write", "a"), ("get", "a"), ("tick",), ("add", "b", 3), ("complete", 0, False)]),
    # eviction attempt that finds nothing evictable, later one that does
    (4, [("add", "a", 3), ("add", "b", 3), ("fin_write", "a"), ("get", "a"), ("add", "b", 3), ("fin_read", "a"), ("add", "b", 3), ("complete", 0, True), ("add", "b", 3)]),
]


def run_script(cap, script, available=1 << 40):
    w = World(cap, available)
    failures, trace = [], []
    try:
        for op in script:
            if op[0] == "complete" and op[1] >= len(w.pending):
                continue
            try:
                d = step(w, op, failures)
            except _JobStuck as e:
                failures.append(("C09", "C09/evictable-request-eventually-granted", f"{op}: {e} - the job holds the manager's locks for ever: every later request that needs eviction is answered 'wait'", "other"))
                failures.append(("C08", "C08/manager-operation-raised", f"{op}: {e}", "other"))
                w.stuck = True
                break
            except Exception as e:  # noqa
                failures.append(("C08", "C08/manager-operation-raised", f"{op}: {type(e).__name__}: {e}", "other"))
                break
            if d is None:
                continue
            track_page_in(w)
            trace.append(d)
            check_invariants(w, trace, failures, d)
        _stuck(w, failures)
        if not failures:
            liveness(w, failures, trace)
    finally:
        w.close()
    return trace, failures


def explore(out, prop, tier, seed):
    t0 = time.time()
    budget = 35 if tier == "quick" else 420
    keys = ["a", "b", "c"]
    sizes = [1, 2, 3, 5]
    cases, nontrivial, failures_all, samples, seen = 0, 0, [], [], set()
    distinct = set()
    for cap, script in SCRIPTS:
        trace, fails = run_script(cap, script)
        cases += 1
        _record(trace, fails, prop, failures_all, seen, distinct, cap)
    # a configured capacity above what /dev/shm offers is trimmed: the trimmed value is THE capacity
    for cap, avail in ((8, 4), (5, 4), (4, 8), (0, 4)):
        trace, fails = run_script(cap, [("add", "a", 3), ("add", "b", 3), ("fin_write", "a"), ("add", "b", 1), ("add", "c", 4), ("get", "a")], available=avail)
        cases += 1
        _record(trace, fails, prop, failures_all, seen, distinct, (cap, avail))
    # a page-out whose write fails must give the memory back (liveness probe follows every script)
    for script in ([("add", "a", 3), ("fin_write", "a"), ("add", "b", 3), ("complete", 0, None), ("add", "b", 3), ("add", "b", 3)],
                   [("add", "a", 2), ("fin_write", "a"), ("add", "b", 2), ("fin_write", "b"), ("add", "c", 4), ("complete", 0, None), ("complete", 0, True), ("add", "c", 4)]):
        w = None
        trace, fails = run_script(4, script)
        cases += 1
        _record(trace, fails, prop, failures_all, seen, distinct, 4)
    # exhaustive to depth D over enabled operations (depth-first on choice prefixes)
    depth = 4 if tier == "quick" else 5
    for cap in ((4,) if tier == "quick" else (4, 1)):
        stack = [[]]
        while stack and time.time() - t0 < budget * 0.6:
            prefix = stack.pop()
            it = iter(prefix)
            widths = []

            def choose(n):
                widths.append(n)
                try:
                    return next(it) % n
                except StopIteration:
                    return 0
            trace, fails = run_sequence(cap, choose, depth, keys[:2], sizes[:3])
            cases += 1
            _record(trace, fails, prop, failures_all, seen, distinct, cap)
            # expand: children differ at the first position after the prefix
            if len(prefix) < len(widths):
                pos = len(prefix)
                for c in range(1, widths[pos]):
                    stack.append(prefix + [c])
                stack.append(prefix + [0]) if len(prefix) + 1 < len(widths) else None
    # seeded random walks, longer, 3 keys
    rng = random.Random(seed)
    while time.time() - t0 < budget:
        cap = rng.choice([4, 4, 6, 1])
        trace, fails = run_sequence(cap, lambda n: rng.randrange(n), rng.randint(6, 14 if tier == "quick" else 24), keys, sizes)
        cases += 1
        _record(trace, fails, prop, failures_all, seen, distinct, cap)
        if len(samples) < 2 and len(trace) > 8:
            samples.append({"capacity": cap, "operations": trace[:14]})
    out.add_bounded("shm Manager operation sequences", "exhaustive (DFS over enabled operations) + seeded random walks",
                    f"real Manager + real Disk._page_out/_page_in over a fake /dev/shm: every sequence of {depth} enabled operations (allocate 3 sizes / finish-write / get / finish-read / "
                    f"purge / complete any pending page job ok|failed / advance clock past the staleness window) over 2 keys, capacity 4{' and 1' if tier != 'quick' else ''}; then random walks of "
                    f"6..{14 if tier == 'quick' else 24} operations over 3 keys, capacities 1/4/6 until {budget}s; each followed by a bounded liveness probe; non-trivial = distinct trace with >= 3 effective operations",
                    cases, len(distinct), time.time() - t0, samples, failures_all)


def lottery_cases(out, prop, tier):
    """the REAL victim selection (shm.algorithms.lottery) on every candidate list of up to N entities over the three consumption kinds (never read /
    read once / read at two different times), sizes 1..3, every amount: victims are candidates, none twice, and whenever evicting EVERY candidate
    would free the amount, the chosen victims free it too (otherwise a request that idle datasets could make room for is answered 'wait' for ever)"""
    from cascade.shm.algorithms import Entity, lottery
    t0 = time.time()
    n_max = 4 if tier == "quick" else 5
    kinds = ((0, 0), (5, 5), (5, 9))
    cases, failures, seen = 0, [], set()
    for n in range(0, n_max + 1):
        for combo in itertools.product(itertools.product(kinds, (1, 2, 3)), repeat=n):
            ents = [Entity(key=f"k{i}", created=10 + i, retrieved_first=k[0], retrieved_last=k[1] + (i if k[1] != k[0] else 0) if k[1] else 0, size=sz) for i, (k, sz) in enumerate(combo)]
            total = sum(e.size for e in ents)
            for amount in range(0, total + 2):
                cases += 1
                desc = {"entities": [[e.key, e.created, e.retrieved_first, e.retrieved_last, e.size] for e in ents], "amount": amount}
                try:
                    win = lottery(list(ents), amount)
                except Exception as e:  # noqa
                    win, bad = None, ("C09/victims-are-candidates", f"lottery raised {type(e).__name__}: {e}")
                if win is not None:
                    by = {e.key: e for e in ents}
                    bad = None
                    if any(k not in by for k in win) or len(set(win)) != len(win):
                        bad = ("C09/victims-are-candidates", f"victims {win}: not candidates, or one chosen twice")
                    elif total >= amount and sum(by[k].size for k in win) < amount:
                        bad = ("C09/evictable-request-eventually-granted", f"evicting every candidate frees {total} >= {amount}, the chosen victims {win} free only {sum(by[k].size for k in win)}: "
                               "the request is answered 'wait' although idle datasets could make room")
                if bad and bad[0] not in seen:
                    seen.add(bad[0])
                    failures.append({"obligation": bad[0], "kind": "lottery", "inputs": desc, "observed": bad[1], "class": "other", "clause": bad[0]})
    out.add_bounded("shm victim selection (algorithms.lottery)", "exhaustive",
                    f"real lottery() on every list of 0..{n_max} candidates x 3 consumption kinds x sizes 1..3, every amount 0..total+1", cases, cases, time.time() - t0,
                    [{"entities": [["k0", 10, 5, 9, 2]], "amount": 2}], failures)


def replay_lottery(doc):
    from cascade.shm.algorithms import Entity, lottery
    inp = doc["inputs"]
    ents = [Entity(*e) for e in inp["entities"]]
    by = {e.key: e for e in ents}
    try:
        win = lottery(list(ents), inp["amount"])
    except Exception as e:  # noqa
        return [("C09", "C09/victims-are-candidates", f"lottery raised {type(e).__name__}: {e}")]
    if any(k not in by for k in win) or len(set(win)) != len(win):
        return [("C09", "C09/victims-are-candidates", f"victims {win}")]
    total = sum(e.size for e in ents)
    if total >= inp["amount"] and sum(by[k].size for k in win) < inp["amount"]:
        return [("C09", "C09/evictable-request-eventually-granted", f"victims {win} free less than {inp['amount']} although all candidates together free {total}")]
    return []


def _record(trace, fails, prop, failures_all, seen, distinct, cap):
    if len(trace) >= 3:
        distinct.add(str(trace))
    for p, ob, what, cls in fails:
        if p != prop or (ob, cls) in seen:
            continue
        seen.add((ob, cls))
        failures_all.append({"obligation": ob, "kind": "enumerated", "inputs": {"capacity": cap, "operations": trace}, "observed": what, "class": cls, "clause": ob})


def replay_case(doc):
    """re-run one recorded operation sequence on the current tree (real Manager + real Disk page code over the fake segment table);
    returns the list of (property, obligation, observed) it violates"""
    if doc.get("kind") == "lottery":
        return replay_lottery(doc)
    inp = doc["inputs"]
    w = World(inp["capacity"], inp.get("available", 1 << 40))
    failures, trace = [], []
    try:
        for d in inp["operations"]:
            kind = d[0]
            if kind == "add":
                op = ("add", d[1], d[2])
            elif kind in ("fin_write", "get", "fin_read", "purge"):
                op = (kind, d[1])
            elif kind == "tick":
                op = ("tick",)
            elif kind == "complete":
                idx = next((i for i, p in enumerate(w.pending) if p[0] == d[1] and p[1].endswith(d[2])), None)
                if idx is None:
                    trace.append(["<not enabled on this tree>", d])
                    continue
                op = ("complete", idx, d[3])
            else:
                continue
            try:
                r = step(w, op, failures)
            except _JobStuck as e:
                failures.append(("C09", "C09/evictable-request-eventually-granted", f"{op}: {e} - the job holds the manager's locks for ever: every later request that needs eviction is answered 'wait'", "other"))
                failures.append(("C08", "C08/manager-operation-raised", f"{op}: {e}", "other"))
                w.stuck = True
                break
            except Exception as e:  # noqa
                failures.append(("C08", "C08/manager-operation-raised", f"{op}: {type(e).__name__}: {e}", "other"))
                break
            trace.append(r)
            check_invariants(w, trace, failures, r)
        _stuck(w, failures)
    finally:
        w.close()
    return [(f[0], f[1], f[2]) for f in failures]
