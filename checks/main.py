import argparse
import importlib
import json
import os
import sys


def main():
    ap = argparse.ArgumentParser()
    ap.add_argument("prop")
    ap.add_argument("--tier", default=os.environ.get("VERIF_TIER", "quick"), choices=["quick", "thorough"])
    ap.add_argument("--replay", default=None)
    a = ap.parse_args()
    seed = int(os.environ.get("VERIF_SEED", "0") or 0)
    mod = importlib.import_module(f"checks.{a.prop.lower()}")
    if a.replay:
        sys.exit(mod.replay(a.replay) if hasattr(mod, "replay") else generic_replay(a.prop, a.replay))
    # watchdog: a check never hangs - past the limit it stops as UNDECIDED (exit 2), which is not a verdict on the property
    import signal
    limit = int(os.environ.get("VERIF_WATCHDOG_S", "780" if a.tier == "quick" else "14000"))

    def _late(*_):
        try:  # (stdout may be a pipe whose reader has gone: the exit must happen regardless)
            sys.stdout.write(f"UNDECIDED property={a.prop} reason=watchdog: the check did not finish within {limit}s\n")
            sys.stdout.flush()
        except BaseException:  # noqa
            pass
        finally:
            os._exit(2)
    signal.signal(signal.SIGALRM, _late)
    signal.alarm(limit)
    # second line of defence: a timer THREAD (a signal handler only runs when the main thread gets back to the interpreter; a main thread stuck in
    # a C-level wait never does)
    import threading
    t = threading.Timer(limit + 30, _late)
    t.daemon = True
    t.start()
    sys.exit(mod.run(a.tier, seed))


def generic_replay(prop, path):
    """re-run one recorded case on the current tree: exit 1 if it still fails, 0 if it passes now"""
    from checks import common
    from pyvc.contracts import ContractDB
    from pyvc import rtc
    doc = json.load(open(path if os.path.isabs(path) else os.path.join(common.HERE, path)))
    standin_replays = {"C01": "checks.ctrlx", "C02": "checks.ctrlx", "C03": "checks.ctrlx", "C04": "checks.ctrlx", "C08": "checks.shm_bounded", "C09": "checks.shm_bounded"}
    if doc.get("kind") != "smt-model" and doc.get("inputs") is not None and prop in standin_replays:
        # a case found by a bounded stand-in: run exactly that case again on the current tree
        fails = importlib.import_module(standin_replays[prop]).replay_case(doc)
        mine = [f for f in fails if f[0] == prop]
        for f in mine:
            print(f"DETAIL: obligation={f[1]} :: {f[2]}")
        if any(f[1] == doc.get("obligation") for f in mine):
            print(f"VIOLATION property={prop} replay={path}")
            return 1
        print("replay: the recorded case no longer violates the recorded obligation on this tree")
        return 0
    if doc.get("kind") != "smt-model" or doc.get("inputs") is None:
        print("replay: this file carries no concrete input (no-failing-input-found); re-run the check itself")
        return 2
    mod = importlib.import_module(f"checks.{prop.lower()}")
    gen = []
    if hasattr(mod, "generated_sources"):
        from pyvc.frontend import Frontend
        gen = list(mod.generated_sources(Frontend()))
    db = ContractDB.for_target(common.CONTRACTS, doc["target"], gen)
    res = rtc.run_concrete(db, doc["target"], doc["inputs"])
    print(json.dumps(res, indent=1, default=str))
    if res.get("verdict") == "violated":
        print(f"VIOLATION property={prop} replay={path}")
        return 1
    return 0


if __name__ == "__main__":
    main()
