import argparse
import importlib
import json
import os
import sys


def main():
    ap = argparse.ArgumentParser()
    ap.add_argument("prop")
    ap.add_argument("--tier", default=os.environ.get("VERIF_TIER", "quick"), choices=["quick", "thorough"])
    ap.add_argument("--replay", default=None)
    a = ap.parse_args()
    seed = int(os.environ.get("VERIF_SEED", "0") or 0)
    mod = importlib.import_module(f"checks.{a.prop.lower()}")
    if a.replay:
        sys.exit(mod.replay(a.replay) if hasattr(mod, "replay") else generic_replay(a.prop, a.replay))
    sys.exit(mod.run(a.tier, seed))


def generic_replay(prop, path):
    """re-run one recorded case on the current tree: exit 1 if it still fails, 0 if it passes now"""
    from checks import common
    from pyvc.contracts import ContractDB
    from pyvc import rtc
    doc = json.load(open(path if os.path.isabs(path) else os.path.join(common.HERE, path)))
    if doc.get("kind") != "smt-model" or doc.get("inputs") is None:
        print("replay: this file carries no concrete input (no-failing-input-found); re-run the check itself")
        return 2
    db = ContractDB(common.CONTRACTS)
    mod = importlib.import_module(f"checks.{prop.lower()}")
    if hasattr(mod, "generated_sources"):
        from pyvc.frontend import Frontend
        for name, text in mod.generated_sources(Frontend()):
            db.load(name, text=text)
    res = rtc.run_concrete(db, doc["target"], doc["inputs"])
    print(json.dumps(res, indent=1, default=str))
    if res.get("verdict") == "violated":
        print(f"VIOLATION property={prop} replay={path}")
        return 1
    return 0


if __name__ == "__main__":
    main()
