"""Bounded stand-in for C10: lowering a graph to a job and running a task preserves what each node computes.

Everything between the graph and the callable is the real code: `earthkit.workflows.fluent` / `earthkit.workflows.graph`
build the graph, `cascade.low.into.graph2job` lowers it, `cascade.low.views.param_source` + `RunnerContext.project` wire it,
`cascade.executor.runner.entrypoint.execute_sequence` -> `cascade.executor.runner.runner.run` execute every task in a
topological order against the real `Memory` (never publishing, so no shm; `provide` of a dataset that is not there raises
instead of asking the shm server, `flush` is a no-op so that one task can be run per sequence).  The callables are recorders
that log exactly what they were called with and return / yield unique tokens ("tok", <task>, k).

Oracle (only what the property states):
  * lowering: the set of tasks is the set of node names; per node, the multiset of (source task, source output) of the edges
    into it equals the multiset of its declared inputs (one edge per input);
  * running: every task invokes its callable exactly once, without a TaskFailure, with positional arguments equal to the
    payload's args where each placeholder naming an input is replaced by the token the parent yielded for the *declared*
    output (k-th declared output <-> k-th yielded value), and keyword arguments equal to the payload's kwargs;
  * binding: every declared output (consumed by 0, 1 or several nodes) is handled with the token of its declared index;
    for fluent graphs additionally per coordinate: the Output the Action holds at coordinate c_k (k-th entry of `yields`)
    is bound to the k-th yielded value and the consumer placed at c_k receives it;
  * count mismatch (N >= 2 declared, M != N yielded): a TaskFailure for that task is reported through the callback;
    M == N: none is.
Silent (accepted): order of tasks/edges/sinks, names, texts of errors, what is bound before a failing task fails, what a node
without declared outputs binds, static strings equal to an input name, one input named at two positions, placeholders in kwargs
at graph level, by-hand output names whose declared order differs from their sorted order unless they are the fluent names
'0'..'N-1' (that case is the known defect below).

KNOWN DEFECT (class "sorted-names-gt10"): fluent names outputs '0'..'N-1', runner.run binds yielded values in sorted(str) order,
so for N > 10 the k-th value lands on the wrong output.  A failure is classified so iff some parent has > 10 outputs and what
was observed is exactly what the sorted-order binding predicts; anything else is "other".

FOUND DEFECTS
-------------
1. class "generator-single-output" (sub-space "generator nodes with ONE declared output"):
   a generator node declared with one output (fluent `yields=(dim, [c0])` -> `Node(num_outputs=1)` -> outputs ['0']) takes the
   `outputsN == 1` branch of `runner.run`, which binds the *generator object* itself to output '0' instead of the value it
   yields; the consumer at coordinate c0 receives `<generator object ...>`, and a count mismatch (0 or 2 values yielded for the
   one declared output) is ignored instead of being reported.  The property quantifies over "multi-output nodes with 1..N
   outputs".  Reproducer (PYTHONPATH=/repo/src):
       from earthkit.workflows import fluent; from cascade.low.into import graph2job; from cascade.low.views import param_source
       from cascade.executor.runner.runner import ExecutionContext, run; from cascade.executor.runner.memory import Memory; from cascade.low.core import WorkerId
       def g(): yield 42
       job = graph2job(fluent.from_source([g], yields=("d", [7]), dims=["s"]).graph()); t = next(iter(job.tasks)); m = Memory("cb", WorkerId("h", "w"))
       run(t, ExecutionContext(job.tasks, param_source(job.edges), "cb", set()), m); print(m.local)   # {g:....0: <generator object g at 0x...>}, expected 42
"""
from __future__ import annotations

import inspect
import itertools
import logging
import random
import time
import warnings
from collections import Counter

with warnings.catch_warnings():
    warnings.simplefilter("ignore")
    from earthkit.workflows import fluent
    from earthkit.workflows.graph import Graph, Node
import cascade.executor.runner.entrypoint as _ep
from cascade.executor.msg import TaskFailure, TaskSequence
from cascade.executor.runner.memory import Memory
from cascade.low.core import DatasetId, JobInstance, Task2TaskEdge, TaskDefinition, TaskInstance, WorkerId
from cascade.low.into import graph2job
from cascade.low.views import param_source

KNOWN = "sorted-names-gt10"
GEN1 = "generator-single-output"

CL_LOWER = "Lowering a task graph to an executable job yields one task per node and one edge per input"
CL_ARGS = "when a task runs its callable receives exactly the declared static arguments and upstream values in the declared positions"
CL_BIND = "Each value a multi-output (generator) node yields is bound to the output - and therefore to the coordinate - under which the graph author declared it, for any number of outputs"
CL_COUNT = "a count mismatch is reported as a task failure rather than ignored"


# --------------------------------------------------------------------------------------------------
# recording callables
class _State:
    cur = None  # short id of the task being executed
    calls: list = []


class _F:
    """recording callable; 'ret' returns one token, 'gen' yields m tokens"""

    def __init__(self, tag, mode="ret", m=1):
        self.tag, self.mode, self.m = tag, mode, m
        self.__name__ = tag  # fluent derives node names from it (distinct tags => distinct names)

    def __call__(self, *args, **kwargs):
        sid = _State.cur
        _State.calls.append((self.tag, args, kwargs))
        if self.mode == "ret":
            return ("tok", sid, 0)
        return self._gen(sid)

    def _gen(self, sid):
        for k in range(self.m):
            yield ("tok", sid, k)


def _entry_ret(*args, **kwargs):
    """resolved through TaskDefinition.entrypoint (no pickled func)"""
    _State.calls.append(("entry", args, kwargs))
    return ("tok", _State.cur, 0)


class _Mem(Memory):
    def __init__(self):
        super().__init__("inproc://c10", _W)
        self.handled: dict = {}

    def handle(self, outputId, outputSchema, outputValue, isPublish):
        self.handled.setdefault(outputId, []).append(outputValue)
        super().handle(outputId, outputSchema, outputValue, False)

    def provide(self, inputId, annotation):
        if inputId not in self.local:
            raise KeyError(f"dataset {inputId!r} is not available")
        return super().provide(inputId, annotation)

    def flush(self):
        pass


class _Pckg:
    def extend(self, packages):
        if packages:
            raise ValueError("harness: no environments expected")


_W = WorkerId("h0", "w0")


def _topo(job):
    tasks = list(job.tasks)
    deps = {t: set() for t in tasks}
    for e in job.edges:
        if e.sink_task in deps and e.source.task in deps and e.source.task != e.sink_task:
            deps[e.sink_task].add(e.source.task)
    order, done = [], set()
    while len(order) < len(tasks):
        ready = [t for t in tasks if t not in done and deps[t] <= done]
        if not ready:
            ready = [t for t in tasks if t not in done]  # cycle (never on a correct lowering): run anyway
        for t in ready:
            order.append(t)
            done.add(t)
    return order


def _run_job(job, sid_of):
    """runs every task of the job once, one sequence per task; returns {task: (calls, failures, escaped)} and the handled datasets"""
    rc = _ep.RunnerContext(workerId=_W, job=job, callback="inproc://c10", param_source=param_source(job.edges))
    mem = _Mem()
    res = {}
    msgs: list = []
    orig = _ep.callback
    _ep.callback = lambda address, msg: msgs.append(msg)
    try:
        for t in _topo(job):
            _State.cur = sid_of.get(t, t)
            _State.calls = []
            del msgs[:]
            escaped = None
            try:
                _ep.execute_sequence(TaskSequence(worker=_W, tasks=[t], publish=set()), mem, _Pckg(), rc)
            except Exception as e:  # noqa
                escaped = repr(e)
            res[t] = (list(_State.calls), [m for m in msgs if isinstance(m, TaskFailure)], escaped)
    finally:
        _ep.callback = orig
    return res, mem.handled


# --------------------------------------------------------------------------------------------------
# oracle
def _same(a, b):
    if type(a) is not type(b):
        return False
    if isinstance(a, (list, tuple)):
        return len(a) == len(b) and all(_same(x, y) for x, y in zip(a, b))
    if isinstance(a, dict):
        return a.keys() == b.keys() and all(_same(a[k], b[k]) for k in a)
    return a == b


def _short(x, n=300):
    s = repr(x)
    return s if len(s) <= n else s[:n] + "..."


def _jsonable(x):
    if isinstance(x, (str, int, float, bool)) or x is None:
        return x
    if isinstance(x, (list, tuple)):
        return [_jsonable(y) for y in x]
    if isinstance(x, dict):
        return {str(k): _jsonable(v) for k, v in x.items()}
    return repr(x)


def _describe(nodes):
    out = []
    for n in nodes:
        f, args, kwargs = n.payload
        out.append({"name": n.name, "outputs": list(n.outputs), "callable": f"{f.mode}:{f.m}", "args": _jsonable(args), "kwargs": _jsonable(kwargs),
                    "inputs": {k: [o.parent.name, o.name] for k, o in n.inputs.items()}})
    return out


def _reach(sinks):
    seen, order, todo = set(), [], list(sinks)
    while todo:
        n = todo.pop()
        if id(n) in seen:
            continue
        seen.add(id(n))
        order.append(n)
        todo.extend(o.parent for o in n.inputs.values())
    return order


class _Sink:
    """collects failures (deduplicated per (obligation, class), at most 20) and counters of one sub-space"""

    def __init__(self):
        self.failures, self.keys, self.cases, self.nontrivial, self.samples, self.total_failing = [], set(), 0, 0, [], 0

    def fail(self, obligation, inputs, observed, clause, cls="other"):
        self.total_failing += 1
        if (obligation, cls) in self.keys or len(self.failures) >= 20:
            return
        self.keys.add((obligation, cls))
        self.failures.append({"obligation": obligation, "inputs": _jsonable(inputs), "observed": observed[:600], "clause": clause, "class": cls})


def _tok(sid_of, node, oname, bug=False):
    names = list(node.outputs) or [Node.DEFAULT_OUTPUT]
    if bug and len(names) > 10:
        return ("tok", sid_of[node.name], sorted(names).index(oname))
    return ("tok", sid_of[node.name], names.index(oname))


def _exp_args(sid_of, node, bug=False):
    _, args, _ = node.payload
    return tuple(_tok(sid_of, node.inputs[a].parent, node.inputs[a].name, bug) if isinstance(a, str) and a in node.inputs else a for a in args)


def _lower_and_run(sink, nodes, sinks, inputs, relower=True):
    """graph2job (twice: the second lowering of the same graph is the one executed) + run; returns (job, sid_of, res, handled) or None"""
    sid_of = {n.name: f"n{i}" for i, n in enumerate(nodes)}
    try:
        job = graph2job(Graph(list(sinks)))
        if relower:
            job = graph2job(Graph(list(sinks)))
    except Exception as e:  # noqa
        sink.fail("C10/lowering/completes", inputs, f"graph2job raised {e!r}", CL_LOWER)
        return None
    try:
        res, handled = _run_job(job, sid_of)
    except Exception as e:  # noqa
        sink.fail("C10/run/completes", inputs, f"running the lowered job raised {e!r}", CL_ARGS)
        return None
    return job, sid_of, res, handled


def _check_lowering(sink, nodes, job, inputs):
    names = [n.name for n in nodes]
    ok = True
    if sorted(job.tasks) != sorted(names):
        sink.fail("C10/lowering/one-task-per-node", inputs, f"tasks {sorted(job.tasks)} for nodes {sorted(names)}", CL_LOWER)
        ok = False
    total = 0
    for n in nodes:
        exp = Counter((o.parent.name, o.name) for o in n.inputs.values())
        obs = Counter((e.source.task, e.source.output) for e in job.edges if e.sink_task == n.name)
        total += sum(exp.values())
        if exp != obs:
            sink.fail("C10/lowering/one-edge-per-input", inputs, f"node {n.name}: edges from {sorted(obs.elements())}, inputs are {sorted(exp.elements())}", CL_LOWER)
            ok = False
    if len(job.edges) != total and ok:
        sink.fail("C10/lowering/one-edge-per-input", inputs, f"{len(job.edges)} edges for {total} inputs", CL_LOWER)
        ok = False
    return ok


def _check_run(sink, nodes, sid_of, res, handled, inputs, expect_fail=(), skip=()):
    """the per-node oracle; expect_fail: names of nodes whose count mismatch must be reported; skip: nodes downstream of those"""
    big = any(len(n.outputs) > 10 for n in nodes)
    for n in nodes:
        if n.name in skip:
            continue
        if n.name not in res:
            sink.fail("C10/run/task-exists", inputs, f"no task for node {n.name}", CL_LOWER)
            continue
        calls, fails, escaped = res[n.name]
        if n.name in expect_fail:
            if not any(f.task == n.name for f in fails):
                sink.fail("C10/run/count-mismatch-reported", inputs, f"node {n.name} declares {len(n.outputs)} outputs, yields {n.payload[0].m}: "
                          f"TaskFailure messages {fails!r}, escaped exception {escaped}", CL_COUNT)
            continue
        if fails or escaped or len(calls) != 1:
            sink.fail("C10/run/task-completes", inputs, f"node {n.name}: callable invoked {len(calls)} times, failures {_short(fails)}, escaped {escaped}", CL_ARGS)
            continue
        _, args, kwargs = calls[0]
        exp = _exp_args(sid_of, n)
        if not _same(tuple(args), exp):
            cls = KNOWN if big and _same(tuple(args), _exp_args(sid_of, n, bug=True)) else "other"
            sink.fail("C10/run/positional-arguments", inputs, f"node {n.name} ({sid_of[n.name]}) received args {_short(args)}, declared {_short(exp)}", CL_ARGS, cls)
        if not _same(dict(kwargs), dict(n.payload[2])):
            sink.fail("C10/run/keyword-arguments", inputs, f"node {n.name} received kwargs {_short(kwargs)}, declared {_short(n.payload[2])}", CL_ARGS)
        for oname in n.outputs:
            got = handled.get(DatasetId(n.name, oname))
            exp_v = _tok(sid_of, n, oname)
            if not got or not _same(got[-1], exp_v):
                cls = KNOWN if got and len(n.outputs) > 10 and _same(got[-1], _tok(sid_of, n, oname, bug=True)) else "other"
                sink.fail("C10/run/output-binding", inputs, f"output {oname!r} of node {n.name} ({sid_of[n.name]}, declared outputs {_short(n.outputs, 120)}) bound to "
                          f"{_short(got[-1]) if got else 'nothing'}, declared value {exp_v}", CL_BIND, cls)


def _graph_case(sink, nodes, sinks, inputs, nontrivial, expect_fail=(), skip=()):
    sink.cases += 1
    sink.nontrivial += 1 if nontrivial else 0
    r = _lower_and_run(sink, nodes, sinks, inputs)
    if r is None:
        return None
    job, sid_of, res, handled = r
    _check_lowering(sink, nodes, job, inputs)
    _check_run(sink, nodes, sid_of, res, handled, inputs, expect_fail, skip)
    return r


def _sinks_of(nodes):
    consumed = {id(o.parent) for n in nodes for o in n.inputs.values()}
    return [n for n in nodes if id(n) not in consumed]


# --------------------------------------------------------------------------------------------------
# sub-space A: argument layouts of one consumer (hand-built graph)
_POOLS = [[7, "s", None, 0, [1, 2], 2.5, "input9"], [None, "", False, {"k": 1}, "input9", -1, [None]]]
_KWS = [{}, {"k": 1}, {"k": None, "z": [1, "input0"], "flag": False}]
_INAMES = [[f"input{j}" for j in range(8)], ["x", "src_b", "in", "y2", "zz", "w", "u", "v"]]


def _layout_graph(lay, pool, kwi, perm, sink_outputs):
    p = Node("p", payload=(_F("p"), [], {}))
    q = Node("q:1", outputs=["a", "b"], payload=(_F("q", "gen", 2), [], {}))
    srcs = {"0": p.get_output(), "1": q.get_output("a"), "2": q.get_output("b")}
    epos = [i for i, c in enumerate(lay) if c != "S"]
    names = _INAMES[pool]
    args = [_POOLS[pool][i % 7] if c == "S" else None for i, c in enumerate(lay)]
    by_j = {}
    for i, pos in enumerate(epos):
        j = perm[i]
        args[pos] = names[j]
        by_j[j] = srcs[lay[pos]]
    inputs = {names[j]: by_j[j] for j in sorted(by_j)}  # insertion order of the inputs dict = j, independent of the position in args
    c = Node("c", outputs=([] if sink_outputs else None), payload=(_F("c"), args, dict(_KWS[kwi])), **inputs)
    nodes = [p, q, c]
    return nodes, _sinks_of(nodes)


def _space_layouts(out, tier, seed):
    t0 = time.time()
    sink = _Sink()
    nmax = 5 if tier == "quick" else 7
    count = 0
    for n in range(nmax + 1):
        for lay in itertools.product("S012", repeat=n):
            m = sum(1 for c in lay if c != "S")
            if m <= 3:
                perms = list(itertools.permutations(range(m)))
            else:
                perms = [tuple(range(m)), tuple(reversed(range(m))), tuple(list(range(1, m)) + [0])]
            pools = (0, 1) if "S" in lay else (0,)
            for pool in pools:
                for kwi in range(3):
                    if tier == "quick" and n == nmax and kwi == 1:
                        continue
                    for perm in perms:
                        count += 1
                        desc = {"space": "layouts", "layout": "".join(lay), "legend": "S=static from pool, 0=p default output, 1=q.a, 2=q.b", "pool": pool,
                                "kwargs": kwi, "input_order": list(perm), "consumer_has_no_outputs": bool(count % 2)}
                        nodes, sinks = _layout_graph(lay, pool, kwi, perm, count % 2)
                        desc["nodes"] = _describe(nodes)
                        _graph_case(sink, nodes, sinks, desc, nontrivial=(m >= 1 and n >= 2))
                        if len(sink.samples) < 2 and n == 3 and m == 2 and kwi == 2:
                            sink.samples.append(desc)
    out.add_bounded("argument layouts of a hand-built consumer node", "exhaustive enumeration",
                    f"every consumer with 0..{nmax} positional arguments, each a static (2 value pools incl. None/''/0/False/list/dict/placeholder-like string) or an upstream output "
                    f"(default output of p, named outputs a/b of generator q; the same output may be consumed at several positions), x 3 static-kwargs sets x every order of the inputs "
                    f"dict (all permutations up to 3 inputs, 3 beyond) x input names fluent-style/arbitrary, consumer with default/no outputs alternating; lowered twice by graph2job, "
                    f"run by execute_sequence/run. Non-trivial: >= 2 positions and >= 1 upstream value.",
                    sink.cases, sink.nontrivial, time.time() - t0, sink.samples, sink.failures)


# --------------------------------------------------------------------------------------------------
# sub-space B: generator arities x naming x consumption (hand-built graph)
def _names(N, naming):
    if naming == "fluent":
        return [str(k) for k in range(N)]
    if naming == "padded":
        return [f"{k:03d}" for k in range(N)]
    return [chr(ord("a") + k) for k in range(N)]  # alpha, N <= 26


def _arity_graph(N, naming, consumption, reducers, with_input):
    """consumption: per declared output the number of single-argument consumers; reducers: list of orders (tuples of output indices)"""
    nodes = []
    gin = {}
    gargs: list = []
    if with_input:
        p = Node("p", payload=(_F("p"), [], {}))
        nodes.append(p)
        gin = {"input0": p}
        gargs = [5, "input0"]
    if N == 1:
        outs = None if naming == "fluent" else _names(1, naming)
        g = Node("g", outputs=outs, payload=(_F("g", "ret", 1), gargs, {}), **gin)
    else:
        g = Node("g", outputs=_names(N, naming), payload=(_F("g", "gen", N), gargs, {"kw": "static"}), **gin)
    nodes.append(g)
    onames = list(g.outputs)
    ci = 0
    for k, cnt in enumerate(consumption):
        for r in range(cnt):
            args = ["input0"] if r % 2 == 0 else ["st", "input0", None]
            nodes.append(Node(f"c{ci}", payload=(_F(f"c{ci}"), args, {}), input0=g.get_output(onames[k])))
            ci += 1
    for ri, order in enumerate(reducers):
        ins = {f"input{j}": g.get_output(onames[k]) for j, k in enumerate(order)}
        nodes.append(Node(f"r{ri}", payload=(_F(f"r{ri}"), [f"input{j}" for j in range(len(order))], {"how": "all"}), **ins))
    return nodes, _sinks_of(nodes)


def _space_arities(out, tier, seed):
    t0 = time.time()
    sink = _Sink()
    nmax = 16 if tier == "quick" else 40
    exh = 5 if tier == "quick" else 6
    for N in range(1, nmax + 1):
        namings = ["fluent", "padded"] + (["alpha"] if N <= 26 else [])
        pats = []
        if N <= exh:
            pats += [(v, []) for v in itertools.product((0, 1, 2), repeat=N)]
            pats += [((3,) * N, [])]
        ident = tuple(range(N))
        pats += [((1,) * N, []), ((0,) * N, []), ((2,) * N, []), ((0,) * N, [ident]), ((0,) * N, [tuple(reversed(ident))]),
                 ((1,) * N, [ident, tuple(reversed(ident))]), ((0,) * N, [ident + ident[:1]])]
        ks = range(N) if tier != "quick" or N <= 6 else sorted({0, 1, 2, 9, 10, 11, N - 2, N - 1} & set(range(N)))
        pats += [(tuple(1 if j == k else 0 for j in range(N)), []) for k in ks]
        seen = set()
        for naming in namings:
            for ci, (cons, reds) in enumerate(pats):
                key = (naming, cons, tuple(reds))
                if key in seen:
                    continue
                seen.add(key)
                with_input = (ci + N) % 2 == 1
                desc = {"space": "arities", "N": N, "naming": naming, "consumers_per_output": list(cons), "reducers": [list(r) for r in reds], "generator_has_input": with_input}
                nodes, sinks = _arity_graph(N, naming, cons, reds, with_input)
                if N <= 4:
                    desc["nodes"] = _describe(nodes)
                _graph_case(sink, nodes, sinks, desc, nontrivial=(N >= 2))
                if len(sink.samples) < 2 and N == 3 and reds:
                    sink.samples.append(desc)
    out.add_bounded("generator arities x output naming x consumption (hand-built graphs)", "exhaustive enumeration",
                    f"generator node with N = 1..{nmax} declared outputs named as fluent does ('0'..'N-1'), zero-padded or 'a'..'z' (declared order = sorted order for the latter two), with/without "
                    f"an input and statics of its own; consumption: every vector in {{0,1,2}}^N consumers per output for N <= {exh} plus all-by-3, and for every N: each once, none, each twice, "
                    f"only output k ({'every k' if tier != 'quick' else 'every k for N <= 6, else k in {0,1,2,9,10,11,N-2,N-1}'}), one node taking all N in declared order / reversed / with one output twice, both. "
                    f"Non-trivial: N >= 2.",
                    sink.cases, sink.nontrivial, time.time() - t0, sink.samples, sink.failures)


# --------------------------------------------------------------------------------------------------
# sub-space C: the fluent API
def _coords(N, variant):
    if variant == "asc":
        return list(range(100, 100 + N))
    if variant == "desc":
        return list(range(100 + N, 100, -1))
    return [f"m{(k * 7 + 3) % N:02d}_{k}" for k in range(N)]  # strings in neither sorted nor reverse-sorted order


def _item(arr, **sel):
    a = arr.sel(**sel) if sel else arr
    return a.item() if a.ndim == 0 else a.data.flatten()[0]


def _fluent_program(prog, N, coords, k=None):
    """returns (actions whose graphs are merged, generator action(s), list of (consumer action, position of the placeholder))"""
    y = ("d", coords)
    gen = _F("g", "gen", N)
    consumers = []
    if prog in ("source.map", "source.select.map", "source.reduce", "source.two-consumers", "source.alone"):
        ga = fluent.from_source([gen], yields=y, dims=["s"])
    elif prog == "map.map-with-statics":
        ga = fluent.from_source([_F("src")], dims=["s"]).map(fluent.Payload(gen, ["lead", "input0"], {"kw": 2}), yields=y)
    elif prog == "two-sources.map":
        ga = fluent.from_source([_F("g", "gen", N), _F("h", "gen", N)], yields=y, dims=["s"])
    else:
        raise ValueError(prog)
    acts = [ga]
    if prog in ("source.map", "two-sources.map"):
        ca = ga.map(_F("c"))
        consumers.append((ca, 0))
        acts = [ca]
    elif prog == "map.map-with-statics":
        ca = ga.map(fluent.Payload(_F("c"), ["s", None, "input0", 3], {"k": 1}))
        consumers.append((ca, 2))
        acts = [ca]
    elif prog == "source.select.map":
        ca = ga.select({"d": coords[k]}).map(_F("c"))
        consumers.append((ca, 0))
        acts = [ca]
    elif prog == "source.reduce":
        ca = ga.reduce(_F("r"), dim="d")
        acts = [ca]
    elif prog == "source.two-consumers":
        c1 = ga.map(_F("c1"))
        c2 = ga.map(fluent.Payload(_F("c2"), ["z", "input0"]))
        consumers += [(c1, 0), (c2, 1)]
        acts = [c1, c2]
    return acts, ga, consumers


def _fluent_case(sink, prog, N, variant, k, known_cls=KNOWN):
    coords = _coords(N, variant)
    desc = {"space": "fluent", "program": prog, "N": N, "yields": ["d", coords], "selected": None if k is None else coords[k]}
    sink.cases += 1
    sink.nontrivial += 1 if N >= 2 else 0
    try:
        acts, ga, consumers = _fluent_program(prog, N, coords, k)
        sinks = []
        for a in acts:
            for s in a.graph().sinks:
                if not any(s is t for t in sinks):
                    sinks.append(s)
    except Exception as e:  # noqa
        sink.fail("C10/fluent/graph-builds", desc, f"building the fluent graph raised {e!r}", CL_LOWER)
        return
    nodes = _reach(sinks)
    r = _lower_and_run(sink, nodes, sinks, desc)
    if r is None:
        return
    job, sid_of, res, handled = r
    _check_lowering(sink, nodes, job, desc)
    _check_run(sink, nodes, sid_of, res, handled, desc)
    # per coordinate: Output held at c_j <-> j-th yielded value; consumer placed at c_j receives it
    for si in range(ga.nodes.sizes["s"]):
        for j, cj in enumerate(coords):
            o = ga.nodes.isel(s=si).sel(d=cj).item()
            want = ("tok", sid_of[o.parent.name], j)
            got = handled.get(DatasetId(o.parent.name, o.name))
            if not got or not _same(got[-1], want):
                cls = "other"
                if got and N > 10 and _same(got[-1], _tok(sid_of, o.parent, o.name, bug=True)):
                    cls = known_cls
                sink.fail("C10/fluent/coordinate-binding", desc, f"coordinate d={cj!r} (declared {j}-th) holds output {o.name!r} of {sid_of[o.parent.name]}, which was bound to "
                          f"{_short(got[-1]) if got else 'nothing'}; the {j}-th yielded value is {want}", CL_BIND, cls)
            for ca, pos in consumers:
                if "d" in ca.nodes.dims:
                    cn = ca.nodes.isel(s=si).sel(d=cj).item()
                elif k is not None and j == k:
                    cn = ca.nodes.isel(s=si).item()
                else:
                    continue
                calls = res.get(cn.name, ([], [], None))[0]
                if len(calls) != 1:
                    continue  # reported by the node oracle
                args = calls[0][1]
                if len(args) <= pos or not _same(args[pos], want):
                    cls = "other"
                    if N > 10 and len(args) > pos and _same(args[pos], _tok(sid_of, o.parent, o.name, bug=True)):
                        cls = known_cls
                    sink.fail("C10/fluent/coordinate-consumer", desc, f"consumer at coordinate d={cj!r} (declared {j}-th) received {_short(args)}; position {pos} should be {want}", CL_BIND, cls)
    if prog == "source.reduce":
        rn = acts[0].nodes.isel(s=0).item()
        calls = res.get(rn.name, ([], [], None))[0]
        if len(calls) == 1:
            g = ga.nodes.isel(s=0, d=0).item().parent
            want = tuple(("tok", sid_of[g.name], j) for j in range(N))
            args = tuple(calls[0][1])
            if not _same(args, want):
                bug = tuple(_tok(sid_of, g, ga.nodes.isel(s=0).sel(d=cj).item().name, bug=True) for cj in coords)
                cls = known_cls if N > 10 and _same(args, bug) else "other"
                sink.fail("C10/fluent/reduce-order", desc, f"reduce over the yielded dimension received {_short(args)}, values in coordinate order are {_short(want)}", CL_BIND, cls)
    if len(sink.samples) < 3 and N in (3, 12) and prog in ("source.map", "map.map-with-statics") and variant == "str":
        sink.samples.append(desc)


_PROGS = ["source.map", "map.map-with-statics", "source.reduce", "source.two-consumers", "source.alone", "two-sources.map"]


def _space_fluent(out, tier, seed):
    t0 = time.time()
    sink = _Sink()
    nmax = 13 if tier == "quick" else 40
    for N in range(2, nmax + 1):
        for variant in ("asc", "desc", "str"):
            for prog in _PROGS:
                _fluent_case(sink, prog, N, variant, None)
            ks = range(N) if tier != "quick" else sorted({0, 1, 9, 10, N - 1} & set(range(N)))
            for k in ks:
                _fluent_case(sink, "source.select.map", N, variant, k)
    out.add_bounded("fluent programs with a generator stage", "exhaustive enumeration",
                    f"N = 2..{nmax} yielded coordinates x 3 coordinate label sets (ascending ints, descending ints, unsorted strings) x programs {{from_source(yields).map, "
                    f"from_source.map(Payload with statics, yields).map(Payload with statics around the placeholder), from_source(yields).reduce over the yielded dim, two consumers of every output, "
                    f"generator alone (outputs consumed by none), two generator sources x map, from_source(yields).select(d=c_k).map for "
                    f"{'every k' if tier != 'quick' else 'k in {0,1,9,10,N-1}'}}}. Non-trivial: all (N >= 2).",
                    sink.cases, sink.nontrivial, time.time() - t0, sink.samples, sink.failures)


def _space_batched(out, tier, seed):
    """fluent reductions with a batch size: the author hands over ONE payload (a callable, no static arguments); the library builds a tree of reducing nodes
    with different numbers of inputs from it.  Every reducing call must receive exactly the values of that node's inputs, in order, and nothing else."""
    t0 = time.time()
    sink = _Sink()
    nmax = 9 if tier == "quick" else 14
    for n in range(2, nmax + 1):
        for b in range(0, min(n, 6) + 2):
            for keep in (False, True):
                desc = {"space": "fluent batched reduce", "sources": n, "batch_size": b, "keep_dim": keep,
                        "program": "from_source([s0..], dims=['s']).reduce(Payload(red), dim='s', batch_size=b, keep_dim=keep)"}
                sink.cases += 1
                sink.nontrivial += 1 if 1 < b < n else 0
                try:
                    src = fluent.from_source([_F(f"s{i}") for i in range(n)], dims=["s"])
                    red = _F("red")
                    red.batchable = True  # what earthkit.workflows.mark.batchable sets; Action.reduce refuses a batch size otherwise
                    act = src.reduce(fluent.Payload(red), dim="s", batch_size=b, keep_dim=keep)
                    sinks = list(act.graph().sinks)
                except Exception as e:  # noqa
                    if keep and 1 < b < n:
                        continue  # known finding of C13 (batched reduce with keep_dim crashes while building); not this property's business
                    sink.fail("C10/fluent/graph-builds", desc, f"building the fluent graph raised {e!r}", CL_LOWER)
                    continue
                nodes = _reach(sinks)
                r = _lower_and_run(sink, nodes, sinks, desc)
                if r is None:
                    continue
                job, sid_of, res, handled = r
                _check_lowering(sink, nodes, job, desc)
                leaves_seen = 0
                for nd in nodes:
                    if not nd.inputs:
                        continue
                    calls = res.get(nd.name, ([], [], None))[0]
                    if len(calls) != 1:
                        sink.fail("C10/fluent/batched-reduce-arguments", desc, f"reducing node {sid_of[nd.name]} was called {len(calls)} times", CL_BIND)
                        continue
                    _, args, kwargs = calls[0]
                    want = tuple(_tok(sid_of, nd.inputs[f"input{i}"].parent, nd.inputs[f"input{i}"].name) for i in range(len(nd.inputs))) \
                        if all(f"input{i}" in nd.inputs for i in range(len(nd.inputs))) else None
                    if want is None:
                        continue
                    if not _same(tuple(args), want) or kwargs:
                        sink.fail("C10/fluent/batched-reduce-arguments", desc, f"reducing node {sid_of[nd.name]} has {len(nd.inputs)} inputs and was called with {_short(args)} {kwargs or ''}; "
                                  f"the values of its inputs, in order, are {_short(want)}", CL_BIND)
    out.add_bounded("fluent batched reductions", "exhaustive enumeration",
                    f"2..{nmax} source nodes x batch_size 0..min(n,6)+1 x keep_dim: one Payload (recording callable, no static arguments) handed to Action.reduce; graph lowered by the real graph2job and "
                    "every task run through the real execute_sequence/runner.run; every reducing call compared with the values of that node's inputs. Non-trivial: 1 < batch_size < n.",
                    sink.cases, sink.nontrivial, time.time() - t0, sink.samples, sink.failures)


def _space_gen1(out, tier, seed):
    """generator declared with exactly one output: fluent `yields` of length one, and by hand"""
    t0 = time.time()
    sink = _Sink()
    for variant in ("asc", "str"):
        for prog in ("source.map", "map.map-with-statics", "source.alone", "source.select.map"):
            _fluent_case(sink, prog, 1, variant, 0 if prog == "source.select.map" else None)
    # by hand: one named output, generator yielding M values; M == 1 must bind the value, M != 1 must be reported
    for M in (0, 1, 2, 3):
        for consumed in (0, 1, 2):
            sink.cases += 1
            sink.nontrivial += 1
            g = Node("g", outputs=["only"], payload=(_F("g", "gen", M), [1], {}))
            cs = [Node(f"c{i}", payload=(_F(f"c{i}"), ["input0"], {}), input0=g.get_output("only")) for i in range(consumed)]
            nodes = [g] + cs
            desc = {"space": "one-output generator by hand", "yields": M, "consumers": consumed, "nodes": _describe(nodes)}
            r = _lower_and_run(sink, nodes, _sinks_of(nodes), desc)
            if r is None:
                continue
            job, sid_of, res, handled = r
            _check_lowering(sink, nodes, job, desc)
            if M == 1:
                _check_run(sink, nodes, sid_of, res, handled, desc)
            else:
                _check_run(sink, nodes, sid_of, res, handled, desc, expect_fail={"g"}, skip={c.name for c in cs})
    # classification: every failure of this sub-space whose cause is "the generator object itself was bound" is the found defect
    for f in sink.failures:
        if "generator object" in f["observed"] or f["obligation"] == "C10/run/count-mismatch-reported":
            f["class"] = GEN1
    out.add_bounded("generator nodes with ONE declared output", "exhaustive enumeration",
                    "fluent programs {from_source(yields).map, from_source.map(yields).map with statics, generator alone, select.map} with a single yielded coordinate (2 label sets), and a hand-built "
                    "generator node with one named output yielding M in 0..3 values consumed by 0..2 nodes (M = 1: the value must be bound; M != 1: a TaskFailure must be reported). Non-trivial: all.",
                    sink.cases, sink.nontrivial, time.time() - t0, [{"program": "from_source([gen], yields=('d', [100]), dims=['s']).map(c)"}], sink.failures)


# --------------------------------------------------------------------------------------------------
# sub-space D: count mismatch
def _space_mismatch(out, tier, seed):
    t0 = time.time()
    sink = _Sink()
    nmax = 13 if tier == "quick" else 40
    for N in range(2, nmax + 1):
        ms = set(range(0, N + 3)) if tier != "quick" or N <= 5 else {0, 1, 2, N - 2, N - 1, N, N + 1, N + 2, 2 * N}
        for M in sorted(ms):
            for how in ("hand-padded", "hand-fluent-names", "fluent"):
                for consumed in (False, True):
                    sink.cases += 1
                    sink.nontrivial += 1 if M != N else 0
                    desc = {"space": "count mismatch", "declared": N, "yielded": M, "built": how, "consumers": consumed}
                    try:
                        if how == "fluent":
                            ga = fluent.from_source([_F("g", "gen", M)], yields=("d", _coords(N, "str")), dims=["s"])
                            act = ga.map(_F("c")) if consumed else ga
                            sinks = list(act.graph().sinks)
                            nodes = _reach(sinks)
                            g = ga.nodes.isel(s=0, d=0).item().parent
                        else:
                            g = Node("g", outputs=_names(N, "padded" if how == "hand-padded" else "fluent"), payload=(_F("g", "gen", M), ["a"], {"b": 1}))
                            nodes = [g] + ([Node(f"c{k}", payload=(_F(f"c{k}"), ["input0"], {}), input0=g.get_output(o)) for k, o in enumerate(g.outputs)] if consumed else [])
                            sinks = _sinks_of(nodes)
                    except Exception as e:  # noqa
                        sink.fail("C10/fluent/graph-builds", desc, f"building the graph raised {e!r}", CL_LOWER)
                        continue
                    r = _lower_and_run(sink, nodes, sinks, desc)
                    if r is None:
                        continue
                    job, sid_of, res, handled = r
                    if M != N:
                        _check_run(sink, [g], sid_of, res, handled, desc, expect_fail={g.name})
                    else:
                        calls, fails, escaped = res.get(g.name, ([], [], "no task"))
                        if fails or escaped or len(calls) != 1:
                            sink.fail("C10/run/task-completes", desc, f"generator yielding exactly the declared {N} values: invoked {len(calls)} times, failures {_short(fails)}, escaped {escaped}", CL_BIND)
                    if len(sink.samples) < 2 and N == 3 and M in (2, 4) and how == "fluent" and consumed:
                        sink.samples.append(desc)
    out.add_bounded("count mismatch between declared outputs and yielded values", "exhaustive enumeration",
                    f"N = 2..{nmax} declared outputs x M yielded values ({'M in 0..N+2' if tier != 'quick' else 'M in 0..N+2 for N <= 5, else M in {0,1,2,N-2,N-1,N,N+1,N+2,2N}'}) x graph built by hand "
                    f"(padded names / fluent names) or by fluent from_source(yields) x outputs consumed or not; M != N must produce a TaskFailure for that task from execute_sequence, "
                    f"M == N must not. Non-trivial: M != N.",
                    sink.cases, sink.nontrivial, time.time() - t0, sink.samples, sink.failures)


# --------------------------------------------------------------------------------------------------
# sub-space E: jobs written by hand at the cascade.low level (keyword edges, positional edges with and without a static entry)
def _task(func=None, entrypoint="", outputs=("0",), ps=None, kw=None):
    return TaskInstance(
        definition=TaskDefinition(func=None if func is None else TaskDefinition.func_enc(func), entrypoint=entrypoint, environment=[], input_schema={},
                                  output_schema={o: "Any" for o in outputs}),
        static_input_kw=dict(kw or {}), static_input_ps=dict(ps or {}))


def _space_jobs(out, tier, seed):
    t0 = time.time()
    sink = _Sink()
    nmax = 3 if tier == "quick" else 5
    srcs = [DatasetId("w", "0"), DatasetId("u", "a"), DatasetId("u", "b")]
    sid_of = {"w": "w", "u": "u", "t": "t"}
    tok = {srcs[0]: ("tok", "w", 0), srcs[1]: ("tok", "u", 0), srcs[2]: ("tok", "u", 1)}
    kwopts = ["-", "S", "0", "1", "2"]
    upstream = {"w": _task(entrypoint=f"{__name__}._entry_ret"), "u": _task(func=_F("u", "gen", 2), outputs=("a", "b"), ps={"0": "x"})}
    for n in range(nmax + 1):
        for lay in itertools.product("S012", repeat=n):
            for style in (("none-entry", "no-entry") if any(c != "S" for c in lay) else ("none-entry",)):
                for k1, k2 in itertools.product(kwopts, repeat=2):
                    sink.cases += 1
                    ps, kw, edges = {}, {}, []
                    exp_args, exp_kw = [], {}
                    for i, c in enumerate(lay):
                        if c == "S":
                            ps[str(i)] = _POOLS[0][i]
                            exp_args.append(_POOLS[0][i])
                        else:
                            if style == "none-entry":
                                ps[str(i)] = None
                            edges.append(Task2TaskEdge(source=srcs[int(c)], sink_task="t", sink_input_ps=i, sink_input_kw=None))
                            exp_args.append(tok[srcs[int(c)]])
                    for name, c in (("alpha", k1), ("beta", k2)):
                        if c == "S":
                            kw[name] = [name, 1]
                            exp_kw[name] = [name, 1]
                        elif c != "-":
                            edges.append(Task2TaskEdge(source=srcs[int(c)], sink_task="t", sink_input_ps=None, sink_input_kw=name))
                            exp_kw[name] = tok[srcs[int(c)]]
                    nt = sum(1 for c in lay if c != "S") + sum(1 for c in (k1, k2) if c in "012")
                    sink.nontrivial += 1 if nt >= 1 and (n + len(exp_kw)) >= 2 else 0
                    if sink.cases % 2:
                        edges = list(reversed(edges))
                    desc = {"space": "low-level job", "positions": "".join(lay), "legend": "S=static, 0=w.0, 1=u.a, 2=u.b", "edge_positions_in_static_input_ps": style,
                            "kwargs": {"alpha": k1, "beta": k2}, "edges": [[repr(e.source), e.sink_input_ps, e.sink_input_kw] for e in edges]}
                    try:
                        job = JobInstance(tasks={**upstream, "t": _task(func=_F("t"), ps=ps, kw=kw)}, edges=edges)
                        res, handled = _run_job(job, sid_of)
                    except Exception as e:  # noqa
                        sink.fail("C10/run/completes", desc, f"running the job raised {e!r}", CL_ARGS)
                        continue
                    calls, fails, escaped = res.get("t", ([], [], "not run"))
                    if fails or escaped or len(calls) != 1:
                        sink.fail("C10/run/task-completes", desc, f"task t: callable invoked {len(calls)} times, failures {_short(fails)}, escaped {escaped}", CL_ARGS)
                        continue
                    if not _same(tuple(calls[0][1]), tuple(exp_args)):
                        sink.fail("C10/run/positional-arguments", desc, f"task t received args {_short(calls[0][1])}, declared {_short(tuple(exp_args))}", CL_ARGS)
                    if not _same(dict(calls[0][2]), exp_kw):
                        sink.fail("C10/run/keyword-arguments", desc, f"task t received kwargs {_short(calls[0][2])}, declared {_short(exp_kw)}", CL_ARGS)
                    for ds, v in list(tok.items()) + [(DatasetId("t", "0"), ("tok", "t", 0))]:
                        got = handled.get(ds)
                        if not got or not _same(got[-1], v):
                            sink.fail("C10/run/output-binding", desc, f"dataset {ds!r} bound to {_short(got[-1]) if got else 'nothing'}, declared value {v}", CL_BIND)
                    if len(sink.samples) < 2 and n == 3 and nt == 3 and k1 == "1":
                        sink.samples.append(desc)
    out.add_bounded("hand-written low-level jobs through the runner", "exhaustive enumeration",
                    f"task t with 0..{nmax} positional parameters each static or fed by an edge (from w.0 resolved by entrypoint, or outputs a/b of generator u), edge positions either carrying a None "
                    f"entry in static_input_ps (as graph2job writes) or no entry (as JobBuilder writes), x two keyword parameters each absent / static / fed by a keyword edge; edges listed in either order. "
                    f"Non-trivial: >= 1 edge and >= 2 parameters.",
                    sink.cases, sink.nontrivial, time.time() - t0, sink.samples, sink.failures)


# --------------------------------------------------------------------------------------------------
# seeded random extension: random DAGs of hand-built nodes
def _space_random(out, tier, seed, budget):
    t0 = time.time()
    sink = _Sink()
    rnd = random.Random(seed)
    runs = 1000 if tier == "quick" else 20000
    statics = [None, 0, 1, -3, 2.5, "", "txt", "input9", True, False, [1, 2], {"a": None}, [], "0"]
    for it in range(runs):
        if time.time() - t0 > budget:
            break
        nn = rnd.randint(2, 8 if tier == "quick" else 14)
        nodes = []
        outputs_pool = []  # (node, output name)
        for i in range(nn):
            r = rnd.random()
            if r < 0.45:
                N, outs, mode = 1, None, "ret"
            else:
                N = rnd.choice([2, 2, 3, 4, 5, 9, 10, 11, 12, 15, 21] if tier == "quick" else [2, 3, 4, 7, 10, 11, 12, 13, 20, 33, 101, 120])
                outs = _names(N, rnd.choice(["fluent", "padded", "alpha"] if N <= 26 else ["fluent", "padded"]))
                mode = "gen"
            npos = rnd.randint(0, 6)
            nin = 0
            args, inputs = [], {}
            for pos in range(npos):
                if outputs_pool and rnd.random() < 0.55:
                    iname = f"input{nin}" if i % 2 else f"in_{nin}_{i}"
                    nin += 1
                    pn, po = rnd.choice(outputs_pool)
                    inputs[iname] = pn.get_output(po)
                    args.append(iname)
                else:
                    args.append(rnd.choice(statics))
            items = list(inputs.items())
            rnd.shuffle(items)
            kwargs = {f"k{j}": rnd.choice(statics) for j in range(rnd.randint(0, 2))}
            node = Node(f"n{i}:{rnd.randrange(1000)}", outputs=outs, payload=(_F(f"f{i}", mode, N), args, kwargs), **dict(items))
            nodes.append(node)
            outputs_pool += [(node, o) for o in node.outputs]
        desc = {"space": "random DAG", "seed": seed, "iteration": it, "nodes": _describe(nodes)}
        _graph_case(sink, nodes, _sinks_of(nodes), desc, nontrivial=any(n.inputs for n in nodes) and any(len(n.outputs) > 1 for n in nodes))
        if it == 0:
            d0 = dict(desc)
            d0["nodes"] = d0["nodes"][:3]
            sink.samples.append(d0)
    out.add_bounded("random DAGs of hand-built nodes", "seeded random",
                    f"{sink.cases} graphs from random.Random({seed}): 2..{8 if tier == 'quick' else 14} nodes, single-output or generator nodes with up to {21 if tier == 'quick' else 120} outputs (fluent / padded / "
                    f"alphabetic names), 0..6 positional arguments mixing statics and outputs of earlier nodes, 0..2 static kwargs, shuffled inputs dict. Non-trivial: has an edge and a multi-output node.",
                    sink.cases, sink.nontrivial, time.time() - t0, sink.samples, sink.failures)


# --------------------------------------------------------------------------------------------------
def _selfcheck():
    import cloudpickle
    f = cloudpickle.loads(cloudpickle.dumps(_F("x")))
    if type(f) is not _F:
        raise RuntimeError("c10_bounded must be importable by name so that cloudpickle pickles its recorders by reference")


def run(out, tier, seed):
    _selfcheck()
    prev = logging.root.manager.disable
    logging.disable(logging.CRITICAL)  # execute_sequence logs every expected failure with a traceback
    try:
        with warnings.catch_warnings():
            warnings.simplefilter("ignore")
            _space_layouts(out, tier, seed)
            _space_arities(out, tier, seed)
            _space_fluent(out, tier, seed)
            _space_batched(out, tier, seed)
            _space_gen1(out, tier, seed)
            _space_mismatch(out, tier, seed)
            _space_jobs(out, tier, seed)
            _space_random(out, tier, seed, budget=10 if tier == "quick" else 200)
    finally:
        logging.disable(prev)
        _State.cur, _State.calls = None, []
