"""C09 - shared-memory store (see contracts/c08_shm.py for the proved obligations, checks/shm_bounded.py for the stand-in)."""
from checks import common

PROVED_TARGETS = ['cascade.shm.dataset:Dataset.is_pageoutable', 'cascade.shm.dataset:Manager.get', 'cascade.shm.dataset:Manager.close_callback', 'cascade.shm.dataset:Manager.purge', 'cascade.shm.dataset:Manager.page_out.<locals>.callback', 'cascade.shm.disk:Disk._page_out', 'cascade.shm.disk:Disk._page_in', 'cascade.shm.algorithms:lottery']


def run(tier, seed):
    out = common.Outcome("C09", tier, seed)
    if PROVED_TARGETS:
        out.add_pyvc(common.pyvc_run(PROVED_TARGETS, timeout_ms=10000 if tier == "quick" else 60000))
    from checks import shm_bounded
    shm_bounded.explore(out, "C09", tier, seed)
    shm_bounded.lottery_cases(out, "C09", tier)
    out.assumptions += ["each Manager operation and each page-job callback is atomic (the unlocked read-modify-write of free_space in add vs. the locked += in callbacks is a data race no function contract sees)",
                        "EA1: the OS lets a segment be unlinked once; the fake /dev/shm raises FileNotFoundError on a second unlink as the real one does"]
    return out.finish("exploration", rule="see bounded_standins[].bound", explanation="real Manager/Disk code over a fake segment table; ground truth kept by the harness")
