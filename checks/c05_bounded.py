"""Bounded stand-in for C05: failure injection along the REAL propagation chain
   task body -> entrypoint.execute_sequence -> Executor.recv_loop/healthcheck -> Bridge.recv_events -> controller.impl.run
with fake process handles and the in-memory network of c06_bounded (no OS processes are started).
"""
from __future__ import annotations

import itertools
import time

from checks import c06_bounded as net_mod


class Stop(BaseException):
    pass


class Handle:
    def __init__(self, exitcode=None, alive=True):
        self.exitcode, self.pid, self._alive = exitcode, 4242, alive
        self.joined = self.killed = 0

    def is_alive(self):
        return self._alive

    def join(self):
        self.joined += 1

    def kill(self):
        self.killed += 1


def make_executor(comms, exe_mod, workers):
    from cascade.low.core import WorkerId
    ex = object.__new__(exe_mod.Executor)
    ex.mlistener = comms.Listener("E")
    ex.sender = comms.ReliableSender("E", 800)
    ex.sender.add_host("controller", "C")
    ex.host = "h0"
    ex.workers = {WorkerId("h0", f"w{i}"): h for i, h in enumerate(workers)}
    ex.datasets, ex.terminating = set(), False
    ex.heartbeat_watcher = comms.GraceWatcher(10 ** 9)
    ex.heartbeat_watcher.step()
    ex.shm_process, ex.data_server = Handle(), Handle()
    ex.daddress = "D"
    ex.registration = exe_mod.ExecutorRegistration(host="h0", maddress="E", daddress="D", workers=[])
    return ex


def healthcheck_cases(failures_add):
    """every combination of {alive, exited 0, exited 1, killed -9, never started} over 2 workers + shm server + data server"""
    import cascade.executor.executor as exe_mod
    net = net_mod.Net()
    comms = net_mod.install(net)
    exe_mod.callback = comms.callback
    states = {"alive": None, "exit0": 0, "exit1": 1, "killed": -9}
    n = 0
    for w0, w1 in itertools.product(list(states) + ["none"], repeat=2):
        for shm, dsv in itertools.product(states, repeat=2):
            n += 1
            mk = lambda s: None if s == "none" else Handle(states[s])
            ex = make_executor(comms, exe_mod, [mk(w0), mk(w1)])
            ex.shm_process, ex.data_server = Handle(states[shm]), Handle(states[dsv])
            try:
                ex.healthcheck()
                raised = None
            except Exception as e:  # noqa
                raised = e
            dead_abnormally = any(s in ("exit1", "killed", "none") for s in (w0, w1)) or any(s in ("exit1", "killed") for s in (shm, dsv))
            exited_zero_only = not dead_abnormally and any(s == "exit0" for s in (w0, w1, shm, dsv))
            desc = {"workers": [w0, w1], "shm_server": shm, "data_server": dsv}
            if dead_abnormally and raised is None:
                failures_add("C05/healthcheck-reports-dead-child", desc, "a child process has died (or was never started) and healthcheck returned normally", "other")
            if exited_zero_only and raised is None:
                failures_add("C05/healthcheck-reports-dead-child", desc, "a child exited with code 0 while the executor is alive (e.g. sys.exit(0) in a task body) and healthcheck returned normally: the controller would wait for ever",
                             "child-exit-code-0")
            if not dead_abnormally and not exited_zero_only and raised is not None:
                failures_add("C05/healthcheck-quiet-when-healthy", desc, f"healthcheck raised {raised!r} although every child is alive", "other")
    return n


def recv_loop_reports(failures_add):
    """an exception inside the executor loop => ExecutorFailure reaches the controller, then terminate()"""
    import cascade.executor.executor as exe_mod
    from cascade.executor.msg import ExecutorFailure, TaskSequence
    from cascade.low.core import WorkerId
    n = 0
    for what in ("dead-worker-on-healthcheck", "dead-data-server", "task-sequence-for-dead-worker", "unsupported-message"):
        n += 1
        net = net_mod.Net()
        comms = net_mod.install(net)
        exe_mod.callback = comms.callback
        exe_mod.worker_address = lambda w: "W." + repr(w)
        ex = make_executor(comms, exe_mod, [Handle(), Handle()])
        terminated = []
        ex.terminate = lambda: (terminated.append(1), setattr(ex, "terminating", True))
        ctrl = net_mod.Endpoint(comms, "C")
        ctrl.sender.add_host("h0", "E")
        w0 = WorkerId("h0", "w0")
        if what == "dead-worker-on-healthcheck":
            ex.workers[w0].exitcode = 1
        elif what == "dead-data-server":
            ex.data_server.exitcode = -9
        elif what == "task-sequence-for-dead-worker":
            ex.workers[w0].exitcode = 0
            ctrl.sender.send("h0", TaskSequence(worker=w0, tasks=["t"], publish=set()))
        else:
            comms.callback("E", exe_mod.WorkerReady(w0))
        polls = [0]

        def hook():
            polls[0] += 1
            if polls[0] > 40:
                raise Stop()
            for dest, frames in list(net.wire):
                net.wire.remove((dest, frames))
                net.inbox.setdefault(dest, []).append(frames)
            ctrl.step()
            net.now += 900 * 1_000_000
        net_mod.FakePoller.hook = hook
        for dest, frames in list(net.wire):
            net.wire.remove((dest, frames))
            net.inbox.setdefault(dest, []).append(frames)
        try:
            ex.recv_loop()
        except Stop:
            pass
        for _ in range(5):
            hook_safe(hook)
        net_mod.FakePoller.hook = None
        got = [m for m in ctrl.delivered if isinstance(m, ExecutorFailure)]
        if not got:
            failures_add("C05/executor-failure-reported", {"injected": what}, f"the executor loop hit '{what}' but no ExecutorFailure reached the controller (delivered: {list(map(repr, ctrl.delivered))})", "other")
        if not terminated:
            failures_add("C05/executor-terminates-after-failure", {"injected": what}, "terminate() was not called after the failure", "other")
    return n


def hook_safe(h):
    try:
        h()
    except Stop:
        pass


def execute_sequence_cases(failures_add):
    """a task body that raises before / between / after its outputs => exactly one TaskFailure for that task, never an escape"""
    import cascade.executor.runner.entrypoint as ep
    import cascade.executor.runner.memory as memmod
    from cascade.executor.msg import DatasetPublished, TaskFailure, TaskSequence
    from cascade.low.core import DatasetId, JobInstance, TaskDefinition, TaskInstance, WorkerId
    from cascade.low.views import param_source
    from checks.ctrlx import ShmFake
    n = 0
    for n_out, fail_at, exc_kind in itertools.product((1, 2, 3), (0, 1, 2, 3), ("ValueError", "KeyError", "custom")):
        if fail_at > n_out:
            continue
        n += 1

        def body(n_out=n_out, fail_at=fail_at, exc_kind=exc_kind):
            class Custom(Exception):
                pass
            E = {"ValueError": ValueError, "KeyError": KeyError, "custom": Custom}[exc_kind]
            if n_out == 1:
                raise E("boom")
            def gen():
                for k in range(n_out):
                    if k == fail_at:
                        raise E("boom")
                    yield k
                if fail_at == n_out:
                    raise E("boom")
            return gen()
        d = TaskDefinition(func=TaskDefinition.func_enc(body), environment=[], entrypoint="", input_schema={}, output_schema={str(i): "Any" for i in range(n_out)})
        ok = TaskDefinition(func=TaskDefinition.func_enc(lambda: 1), environment=[], entrypoint="", input_schema={}, output_schema={"0": "Any"})
        job = JobInstance(tasks={"bad": TaskInstance(definition=d, static_input_kw={}, static_input_ps={}), "good": TaskInstance(definition=ok, static_input_kw={}, static_input_ps={})}, edges=[])
        shm = ShmFake()
        shm.store = {}
        memmod.shm_client = shm
        sent = []
        cb = lambda addr, m: sent.append(m)
        memmod.callback = cb
        ep.callback = cb
        w = WorkerId("h0", "w0")

        class Pk:
            def extend(self, e):
                pass
        rc = ep.RunnerContext(workerId=w, job=job, callback="cb", param_source=param_source(job.edges))
        ts = TaskSequence(worker=w, tasks=["good", "bad"], publish={DatasetId("bad", str(i)) for i in range(n_out)} | {DatasetId("good", "0")})
        try:
            ep.execute_sequence(ts, memmod.Memory("cb", w), Pk(), rc)
            escaped = None
        except Exception as e:  # noqa
            escaped = e
        fails = [m for m in sent if isinstance(m, TaskFailure)]
        desc = {"outputs": n_out, "raises_before_output": fail_at, "exception": exc_kind}
        if escaped is not None:
            failures_add("C05/task-exception-never-escapes-worker", desc, f"{escaped!r} escaped execute_sequence (the worker process would die without reporting)", "other")
        elif len(fails) != 1 or fails[0].task != "bad" or fails[0].worker != w:
            failures_add("C05/task-failure-reported-once", desc, f"expected exactly one TaskFailure for task 'bad', got {list(map(repr, fails))}", "other")
    return n


def entrypoint_cases(failures_add):
    """the REAL worker main loop (runner.entrypoint.entrypoint) over every order of a task sequence and the publications of its inputs, with the
    loading of one input failing or not: whatever happens, the worker either dies (the executor's health check reports that) or runs / reports
    every sequence whose inputs have all been announced - it never sits alive on a runnable sequence.  Also: no task is started before every
    input it needs from outside the sequence was announced to this worker (C02's last sentence, reported under C02)."""
    import cascade.executor.runner.entrypoint as ep
    from cascade.executor.msg import DatasetPublished, DatasetPurge, TaskFailure, TaskSequence, WorkerShutdown
    from cascade.executor.serde import ser_message
    from cascade.low.core import DatasetId, JobInstance, TaskDefinition, TaskInstance, WorkerId
    n = 0
    w = WorkerId("h0", "w0")

    def tdef(outs=("0",)):
        return TaskDefinition(func=TaskDefinition.func_enc(lambda *a: 1), environment=[], entrypoint="", input_schema={}, output_schema={o: "Any" for o in outs})
    job = JobInstance(tasks={t: TaskInstance(definition=tdef(), static_input_kw={}, static_input_ps={}) for t in ("a", "b", "c", "t")}, edges=[])
    A, B, C = DatasetId("a", "0"), DatasetId("b", "0"), DatasetId("c", "0")
    for inputs in ((A,), (A, B), (A, B, C)):
        psrc = {"t": {i: d for i, d in enumerate(inputs)}, "a": {}, "b": {}, "c": {}}
        ts = TaskSequence(worker=w, tasks=["t"], publish={DatasetId("t", "0")})
        pubs = [DatasetPublished(origin=w, ds=d, transmit_idx=None) for d in inputs]
        for pos in range(len(pubs) + 1):           # the task sequence arrives after `pos` of the publications
            for order in itertools.permutations(pubs):
                for failing in (None,) + inputs:   # the load of this input raises (shm answers with an error) while every process stays alive
                    n += 1
                    msgs = list(order[:pos]) + [ts] + list(order[pos:]) + [WorkerShutdown()]
                    wire = [ser_message(m) for m in msgs]
                    announced, ran, sent, started_early = set(), [], [], []

                    class Sock:
                        def bind(self, a):
                            pass

                        def recv(self):
                            m = msgs[len(msgs) - len(wire)]
                            if isinstance(m, DatasetPublished):
                                announced.add(m.ds)
                            return wire.pop(0)

                    class Zmq:
                        PULL = 1

                        class Context:
                            def socket(self, k):
                                return Sock()

                    class Mem:
                        def __init__(self, *a):
                            pass

                        def __enter__(self):
                            return self

                        def __exit__(self, *a):
                            return False

                        def provide(self, ds, ann):
                            if ds == failing:
                                raise ValueError(f"shm: {ds} unavailable")
                            return 1

                        def pop(self, ds):
                            pass

                        def flush(self):
                            pass

                    class Pk:
                        def __enter__(self):
                            return self

                        def __exit__(self, *a):
                            return False

                        def extend(self, e):
                            pass

                    def fake_run(task, ectx, memory):
                        missing = [d for d in inputs if d not in announced]
                        if missing:
                            started_early.append((task, missing))
                        for d in inputs:
                            memory.provide(d, "Any")
                        ran.append(task)
                    saved = (ep.zmq, ep.Memory, ep.PackagesEnv, ep.run, ep.callback, ep.logging.config.dictConfig)
                    ep.zmq, ep.Memory, ep.PackagesEnv, ep.run, ep.callback = Zmq, Mem, Pk, fake_run, (lambda addr, m: sent.append(m))
                    ep.logging.config.dictConfig = lambda c: None
                    died = None
                    try:
                        ep.entrypoint(ep.RunnerContext(workerId=w, job=job, callback="cb", param_source=psrc))
                    except BaseException as e:  # noqa - the worker process dies: the executor's health check turns that into ExecutorFailure
                        died = e
                    finally:
                        ep.zmq, ep.Memory, ep.PackagesEnv, ep.run, ep.callback, ep.logging.config.dictConfig = saved
                    desc = {"inputs": [repr(d) for d in inputs], "sequence_after_publications": pos, "order": [repr(m.ds) for m in order], "load_fails_for": repr(failing)}
                    reported = [m for m in sent if isinstance(m, TaskFailure)]
                    if started_early:
                        failures_add("C02/worker-starts-only-after-inputs-arrived", desc, f"task started before {started_early[0][1]} was announced to the worker", "other")
                    if died is None and not ran and not reported:
                        failures_add("C05/worker-never-sits-on-a-runnable-sequence", desc,
                                     "every input of the sequence was announced, the worker is alive and idle, yet the sequence was neither run nor reported as failed "
                                     "(the controller would wait for ever)", "other")
                    if died is None and failing is not None and ran and not reported:
                        failures_add("C05/failed-load-is-reported", desc, "the load of an input failed, the task 'ran' and no TaskFailure was reported", "other")
    # ---- a sequence of two tasks: the first needs a dataset from outside the sequence, the second only the first one's output --------------
    X, M = DatasetId("a", "0"), DatasetId("m", "0")
    job2 = JobInstance(tasks={t: TaskInstance(definition=tdef(), static_input_kw={}, static_input_ps={}) for t in ("a", "m", "s")}, edges=[])
    psrc2 = {"a": {}, "m": {0: X}, "s": {0: M}}
    for ts_first in (True, False):
        n += 1
        ts = TaskSequence(worker=w, tasks=["m", "s"], publish={DatasetId("s", "0")})
        pub = DatasetPublished(origin=w, ds=X, transmit_idx=None)
        msgs = ([ts, pub] if ts_first else [pub, ts]) + [WorkerShutdown()]
        wire = [ser_message(m) for m in msgs]
        announced, ran, sent, started_early = set(), [], [], []

        class Sock2:
            def bind(self, a):
                pass

            def recv(self):
                m = msgs[len(msgs) - len(wire)]
                if isinstance(m, DatasetPublished):
                    announced.add(m.ds)
                return wire.pop(0)

        class Zmq2:
            PULL = 1

            class Context:
                def socket(self, k):
                    return Sock2()

        class Mem2:
            def __init__(self, *a):
                pass

            def __enter__(self):
                return self

            def __exit__(self, *a):
                return False

            def provide(self, ds, ann):
                return 1

            def pop(self, ds):
                pass

            def flush(self):
                pass

        class Pk2:
            def __enter__(self):
                return self

            def __exit__(self, *a):
                return False

            def extend(self, e):
                pass

        def fake_run2(task, ectx, memory):
            external = [d for d in psrc2[task].values() if d.task not in ("m", "s")]
            missing = [d for d in external if d not in announced]
            if missing:
                started_early.append((task, missing))
            ran.append(task)
        saved = (ep.zmq, ep.Memory, ep.PackagesEnv, ep.run, ep.callback, ep.logging.config.dictConfig)
        ep.zmq, ep.Memory, ep.PackagesEnv, ep.run, ep.callback = Zmq2, Mem2, Pk2, fake_run2, (lambda addr, m: sent.append(m))
        ep.logging.config.dictConfig = lambda c: None
        died = None
        try:
            ep.entrypoint(ep.RunnerContext(workerId=w, job=job2, callback="cb", param_source=psrc2))
        except BaseException as e:  # noqa
            died = e
        finally:
            ep.zmq, ep.Memory, ep.PackagesEnv, ep.run, ep.callback, ep.logging.config.dictConfig = saved
        desc = {"sequence": ["m", "s"], "m needs": repr(X), "s needs": "m.0 (produced inside the sequence)", "sequence_before_publication": ts_first}
        if started_early:
            failures_add("C02/worker-starts-only-after-inputs-arrived", desc, f"task {started_early[0][0]} started before {started_early[0][1]} was announced to the worker", "other")
        if died is None and ran != ["m", "s"] and not [m for m in sent if isinstance(m, TaskFailure)]:
            failures_add("C05/worker-never-sits-on-a-runnable-sequence", desc, f"ran {ran}, nothing reported, worker alive", "other")
    # ---- the REAL runner.run inside the real main loop: a generator task that yields fewer values than it declares outputs.  Every declared
    # output is awaited by someone (all are to be published): each must be handed to the memory layer, or the failure must be reported -
    # a silent "success" leaves the controller waiting for the missing output for ever
    for declared, yielded in ((d, k) for d in (2, 3, 4) for k in range(0, d)):
        n += 1
        outs = tuple(str(i) for i in range(declared))

        def gen(k=yielded):
            for i in range(k):
                yield i
        gdef = TaskDefinition(func=TaskDefinition.func_enc(gen), environment=[], entrypoint="", input_schema={}, output_schema={o: "Any" for o in outs})
        job3 = JobInstance(tasks={"g": TaskInstance(definition=gdef, static_input_kw={}, static_input_ps={})}, edges=[])
        ts = TaskSequence(worker=w, tasks=["g"], publish={DatasetId("g", o) for o in outs})
        msgs = [ts, WorkerShutdown()]
        wire = [ser_message(m) for m in msgs]
        handled, sent = [], []

        class Sock3:
            def bind(self, a):
                pass

            def recv(self):
                return wire.pop(0)

        class Zmq3:
            PULL = 1

            class Context:
                def socket(self, k):
                    return Sock3()

        class Mem3:
            def __init__(self, *a):
                pass

            def __enter__(self):
                return self

            def __exit__(self, *a):
                return False

            def handle(self, ds, schema, value, publish):
                handled.append((ds, publish))

            def provide(self, ds, ann):
                return 1

            def pop(self, ds):
                pass

            def flush(self):
                pass

        class Pk3:
            def __enter__(self):
                return self

            def __exit__(self, *a):
                return False

            def extend(self, e):
                pass
        saved = (ep.zmq, ep.Memory, ep.PackagesEnv, ep.callback, ep.logging.config.dictConfig)
        ep.zmq, ep.Memory, ep.PackagesEnv, ep.callback = Zmq3, Mem3, Pk3, (lambda addr, m: sent.append(m))
        ep.logging.config.dictConfig = lambda c: None
        died = None
        try:
            ep.entrypoint(ep.RunnerContext(workerId=w, job=job3, callback="cb", param_source={"g": {}}))
        except BaseException as e:  # noqa
            died = e
        finally:
            ep.zmq, ep.Memory, ep.PackagesEnv, ep.callback, ep.logging.config.dictConfig = saved
        missing = sorted(o for o in outs if DatasetId("g", o) not in {d for d, _ in handled})
        if died is None and missing and not [m for m in sent if isinstance(m, TaskFailure)]:
            failures_add("C05/task-short-of-declared-outputs-is-reported", {"declared_outputs": declared, "values_yielded": yielded},
                         f"outputs {missing} were never produced, no TaskFailure was reported and the worker lives on: whoever waits for them waits for ever", "other")
    return n


def bridge_and_controller(failures_add):
    """a failure notice - alone or in the same batch as ordinary events, before or after them - makes recv_events shut the executors
    down and raise; controller.run then ends with that error and shuts down (never a normal return, never a hang)"""
    import cascade.executor.bridge as bridge_mod
    import cascade.controller.impl as impl
    from cascade.executor.msg import (DatasetPublished, DatasetPurge, DatasetTransmitFailure, ExecutorExit, ExecutorFailure, TaskFailure)
    from cascade.low.core import DatasetId, Environment, Worker, WorkerId
    from cascade.scheduler.graph import precompute
    from checks import ctrlx
    w = WorkerId("h0", "w0")
    notices = [TaskFailure(w, "a", "boom"), ExecutorFailure("h0", "died"), DatasetTransmitFailure("h0", "x"), ExecutorExit("h0"), DatasetPurge(DatasetId("a", "0"))]
    ordinary = DatasetPublished(w, DatasetId("a", "0"), None)  # the publication of task a's output, which was dispatched in the first round
    n = 0
    spec = ctrlx.JobSpec({"a": {"outputs": ["0"], "static_ps": {}, "static_kw": {}}, "b": {"outputs": ["0"], "static_ps": {}, "static_kw": {}}}, [("a", "0", "b", 0)], [("b", "0")])
    job = ctrlx.build_job(spec)
    for notice, layout in itertools.product(notices, ("alone", "after-event", "before-event")):
        n += 1
        batch = {"alone": [notice], "after-event": [ordinary, notice], "before-event": [notice, ordinary]}[layout]
        sent, shutdowns = [], []

        class L:
            address = "C"

            def __init__(self):
                self.calls = 0

            def recv_messages(self, timeout_ms=0):
                self.calls += 1
                if self.calls == 1:
                    return list(batch)
                if any(type(m).__name__ == "ExecutorShutdown" for _, m in sent):
                    return [ExecutorExit("h0")]  # what an executor answers to a shutdown
                if self.calls > 50:
                    raise Stop()
                return []  # nothing else ever arrives: a controller that dropped the notice waits for ever

        class S:
            def __init__(self):
                self.hosts = {"h0": (None, "E"), "data.h0": (None, "D")}

            def send(self, host, m):
                sent.append((host, m))

            def ack(self, i):
                pass

            def maybe_retry(self):
                pass
        br = object.__new__(bridge_mod.Bridge)
        br.mlistener, br.sender = L(), S()
        import cascade.executor.comms as comms
        br.heartbeat_checker = {"h0": comms.GraceWatcher(10 ** 9)}
        br.transmit_idx_counter = 0
        br.environment = Environment(workers={w: Worker(cpu=1, gpu=0, memory_mb=1)})
        desc = {"notice": type(notice).__name__, "layout": layout}
        try:
            state = impl.run(job, br, precompute(job))
            failures_add("C05/failure-fails-the-run", desc, f"controller.run returned normally although a {type(notice).__name__} was received ({layout})", "other")
        except Stop:
            failures_add("C05/failure-fails-the-run", desc, f"controller kept waiting after a {type(notice).__name__} was received ({layout}): the run would hang", "other")
        except Exception as e:  # noqa
            # a host that reported its own failure / exit is dropped by the bridge; every OTHER host must be told to shut down
            host_gone = type(notice).__name__ in ("ExecutorFailure", "ExecutorExit")
            if not host_gone and not any(type(m).__name__ == "ExecutorShutdown" for _, m in sent):
                failures_add("C05/executors-shut-down-after-failure", desc, f"run ended with {e!r} but no ExecutorShutdown was sent", "other")
    return n


def terminate_and_atexit(failures_add):
    import cascade.executor.executor as exe_mod
    n = 0
    net = net_mod.Net()
    comms = net_mod.install(net)
    exe_mod.callback = comms.callback
    exe_mod.worker_address = lambda w: "W." + repr(w)
    shut = []

    class SC:
        @staticmethod
        def shutdown():
            shut.append(1)
    exe_mod.shm_client = SC
    for started in itertools.product((True, False), repeat=3):
        n += 1
        hs = [Handle() if s else None for s in started]
        ex = make_executor(comms, exe_mod, hs)
        del shut[:]
        ex.terminate()
        ex.terminate()  # idempotent
        desc = {"started_workers": list(started)}
        for h in hs:
            if h is not None and h.joined != 1:
                failures_add("C05/terminate-joins-every-started-worker", desc, f"a started worker was joined {h.joined} times", "other")
        sent_shutdown = sum(1 for dest, frames in net.wire if dest.startswith("W."))
        if sent_shutdown != sum(started):
            failures_add("C05/terminate-stops-every-started-worker", desc, f"{sent_shutdown} WorkerShutdown messages for {sum(started)} started workers", "other")
        net.wire.clear()
        if len(shut) != 1 or ex.shm_process.joined != 1:
            failures_add("C05/terminate-stops-shm-server", desc, f"shm shutdown called {len(shut)} times, joined {ex.shm_process.joined}", "other")
        if ex.data_server.killed != 1:
            failures_add("C05/terminate-kills-data-server", desc, f"data server killed {ex.data_server.killed} times", "other")
    # a failure DURING start-up (register -> start_workers): every worker process that was forked is stopped by the error path's terminate()
    from cascade.executor.msg import WorkerReady, TaskFailure
    from cascade.low.core import WorkerId
    for n_workers in (1, 2, 3):
        for fail_after_ready in range(0, n_workers):          # how many WorkerReady notices arrive before an unexpected message does
            for start_fails_at in (None,) + tuple(range(1, n_workers)):   # or: Process.start() raises for this worker
                n += 1
                forked = []

                class P(Handle):
                    def __init__(self, target=None, kwargs=None):
                        Handle.__init__(self)
                        self.started = False

                    def start(self):
                        if start_fails_at is not None and len(forked) == start_fails_at:
                            raise OSError("fork failed")
                        self.started = True
                        forked.append(self)

                class Ctx:
                    Process = P
                ex = make_executor(comms, exe_mod, [])
                ws = [WorkerId("h0", f"w{i}") for i in range(n_workers)]
                ex.workers = {w_: None for w_ in ws}
                ex.job_instance, ex.param_source = None, {}
                script = [[WorkerReady(w_)] for w_ in ws[:fail_after_ready]] + [[TaskFailure(ws[0], None, "unexpected")]]

                class L:
                    address = "E"

                    def recv_messages(self, timeout_ms=0):
                        return script.pop(0) if script else [TaskFailure(ws[0], None, "unexpected")]
                ex.mlistener = L()
                saved_ctx, saved_ensure = exe_mod.get_context, getattr(SC, "ensure", None)
                exe_mod.get_context = lambda kind=None: Ctx
                SC.ensure = staticmethod(lambda: None)
                sent_before = len(net.wire)
                del shut[:]
                try:
                    ex.register()      # swallows the failure and terminates
                except Exception as e:  # noqa
                    failures_add("C05/failed-startup-is-cleaned-up", {"workers": n_workers}, f"register raised {e!r}", "other")
                finally:
                    exe_mod.get_context = saved_ctx
                left = [p_ for p_ in forked if p_.joined == 0]
                desc = {"workers": n_workers, "ready_notices_before_the_failure": fail_after_ready, "Process.start_fails_for_worker": start_fails_at}
                if left:
                    failures_add("C05/failed-startup-leaves-no-worker-behind", desc, f"{len(left)} of {len(forked)} forked worker processes were neither told to shut down nor joined", "other")
                net.wire.clear()
    # Manager.atexit leaves no segment behind
    from checks import shm_bounded
    w = shm_bounded.World(8)
    try:
        for k, sz in (("a", 2), ("b", 3), ("c", 1)):
            shm_bounded.step(w, ("add", k, sz), [])
        shm_bounded.step(w, ("fin_write", "a"), [])
        shm_bounded.step(w, ("get", "a"), [])
        w.m.atexit()
        n += 1
        if w.segs.t:
            failures_add("C05/no-shm-segment-left-behind", {"datasets": ["a(read in progress)", "b(being written)", "c"]}, f"segments left after Manager.atexit: {sorted(w.segs.t)}", "other")
    finally:
        w.close()
    return n


def run(out, tier, seed):
    t0 = time.time()
    failures, seen = [], set()

    def add(ob, desc, what, cls="other"):
        if (ob, cls) in seen or ob.startswith("C02/"):   # the C02 clause monitored by the worker-loop part is reported by the C02 check
            return
        seen.add((ob, cls))
        failures.append({"obligation": ob, "inputs": desc, "observed": what[:500], "class": cls, "clause": ob})
    cases = 0
    parts = {}
    for name, fn in (("healthcheck", healthcheck_cases), ("recv_loop", recv_loop_reports), ("execute_sequence", execute_sequence_cases), ("worker-loop", entrypoint_cases),
                     ("bridge+controller", bridge_and_controller), ("terminate/atexit", terminate_and_atexit)):
        try:
            parts[name] = fn(add)
        except Exception as e:  # noqa
            import traceback
            add(f"C05/harness-{name}", {"part": name}, f"harness part crashed: {type(e).__name__}: {e} | {traceback.format_exc().splitlines()[-3:]}", "other")
            parts[name] = 0
        cases += parts[name]
    out.add_bounded("failure injection along the propagation chain", "exhaustive enumeration of injection points",
                    f"healthcheck: 5^2 worker states x 4^2 helper states; executor loop: 4 injected faults; task bodies raising before/between/after outputs (1..3 outputs x 3 exception kinds); the real worker main loop over every order of a task "
                    f"sequence and the publications of its 1..3 inputs with the load of none / each input failing; "
                    f"5 failure notices x 3 batch layouts through real Bridge.recv_events + controller.run; terminate over 2^3 started-worker patterns; Manager.atexit. cases per part: {parts}",
                    cases, cases, time.time() - t0, [{"parts": parts}], failures)
