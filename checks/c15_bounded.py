"""Bounded stand-in for C15: every operation of earthkit.workflows.backends, on the array-API backend (NumPy arrays) and the
xarray backend (DataArray with / without index coordinates, Dataset with two variables), is compared with NumPy computed
independently on the same data; every function marked `batchable` is checked against every partition of 2..6 arguments into
contiguous batches. Labelled bounded - never counted as proof.

FOUND DEFECTS (unchanged /repo tree)
------------------------------------
1. class "xarray-stack-negative-axis": XArrayBackend.stack (src/earthkit/workflows/backends/xarray.py:142-148) places the new
   dimension with `ret.transpose(*dims[:axis], dim, *dims[axis:])`. For a negative `axis` in -ndim..-1 the slice arithmetic is off
   by one with respect to NumPy (np.stack(axis=-1) APPENDS the new axis, the xarray backend inserts it BEFORE the last one), so the
   xarray backend disagrees both with NumPy and with the array-API backend for the same data and axis.  Reproducer:
       import numpy as np, xarray as xr
       from earthkit.workflows import backends
       a = np.arange(6).reshape(2, 3); d = lambda v: xr.DataArray(v, dims=["d0", "d1"])
       print(backends.stack(a, a + 10, axis=-1).shape)                          # (2, 3, 2)  == np.stack(..., axis=-1).shape
       print(backends.stack(d(a), d(a + 10), dim="n", axis=-1).shape)           # (2, 2, 3)  new dim is NOT last
   (axis = -(ndim+1) and every axis >= 0 are right.)

CONVENTIONS OF THE ORACLE
-------------------------
* multi-argument reductions: np.<op>(np.stack(args), axis=0); single argument: np.<op>(arg, axis=<the axis / the positions of dim>)
* stack: np.stack(np.broadcast_arrays(*args), axis); concat: np.concatenate(args, axis); two-argument operations: np.add/...;
  take: np.take(arg, indices, axis)
* xarray results are compared positionally through `.values` (per variable for a Dataset), shape included; names / coordinates /
  attributes / result dtype are not part of the property and are not checked.
* exact equality whenever the data are integer valued and the operation is closed over the integers (sum, prod, min, max, stack,
  concat, add, subtract, multiply, pow with exponents >= 0, take); otherwise rtol 1e-12 (float32 results: rtol 1e-5) with an absolute
  term of 1e-12 * (1 + max|x|)^2 that only matters where the exact value is 0 (variance of constant data).
* batchable: a batch with one element is handed through unchanged - this is what the only consumer, fluent.Action.reduce /
  _batch_transform, does (f with ONE argument means "reduce this array along axis/dim", a different function); batches of >= 2
  arrays get f applied.  Partitions with a single batch or with only one-element batches are the identity and are not enumerated.
* no NaN / empty arrays / zero divisors / negative integer exponents: NumPy itself raises or the xarray reductions skip NaN by
  documented design, the property is silent there.
"""
import itertools
import random
import time
import warnings

import numpy as np

CLAUSE_NP = ("Each backend operation (sum, prod, min, max, mean, std, var, stack, concat, add, subtract, multiply, divide, pow, take) returns, "
             "for plain arrays and for xarray objects alike, the value NumPy gives for the same data, axis and indices.")
CLAUSE_B = ("Every function the library marks as batchable satisfies f(f(batch_1), ..., f(batch_k)) = f(all inputs) for every partition "
            "into batches, and no function that violates this is marked.")

RED = ["sum", "prod", "min", "max", "mean", "std", "var"]
RED_EXACT = {"sum", "prod", "min", "max"}
TWO = ["add", "subtract", "multiply", "divide", "pow"]
NP_TWO = {"add": np.add, "subtract": np.subtract, "multiply": np.multiply, "divide": np.divide, "pow": np.power}
KINDS = ["np", "da", "danc", "ds"]  # ndarray, DataArray with index coords, DataArray without coords, Dataset{a, b}
NOKW = "<omitted>"
_NZ = np.array([1, 2, -1, -2, 1, -2, 2])


# ------------------------------------------------------------------------------------------------------------------------------
# data
def _raw(fill, idx, shape, dtype, rng_vals=None):
    """deterministic data; A: integers -3..3 (with zeros), B: integers from {-2,-1,1,2}, C: non-integers (float dtypes only),
    E: integer exponents 0..3"""
    n = 1
    for s in shape:
        n *= s
    j = np.arange(n)
    dt = np.dtype(dtype)
    if fill == "A":
        v = (5 * idx + 3 * j + idx * j + 1) % 7 - 3
    elif fill == "B":
        v = _NZ[(3 * idx + 2 * j + idx * j) % 7]
    elif fill == "E":
        v = (idx + 2 * j + 1) % 4
    elif fill == "C":
        v = ((7 * idx + 3 * j + idx * j + 2) % 11 - 5) * 0.37 + 0.11
    elif fill == "W":
        if dt.kind == "b":
            v = (idx + j + idx * j) % 3 != 0
        else:
            top = int(np.iinfo(dt).max)
            v = top - ((3 * idx + 5 * j + idx * j) % 9)          # within 8 of the largest value of the dtype
            if dt.kind == "i":
                v = np.where((idx + j) % 4 == 3, -v, v)
    elif fill == "R":
        v = np.array(rng_vals[:n])
    else:
        raise AssertionError(fill)
    if dt.kind == "u":
        v = np.abs(v)
    return np.asarray(v).astype(dt).reshape(shape)


def _dtype_of(dtype, idx):
    if dtype == "mixed":
        return "int64" if idx % 2 == 0 else "float64"
    return dtype


class Data:
    """builds (and caches) argument objects; the cached arrays are read-only so an operand mutation cannot silently corrupt later
    cases; the oracle always works on separate copies"""

    def __init__(self):
        import xarray as xr
        self.xr = xr
        self.cache = {}

    def base(self, fill, idx, shape, dtype, layer=0):
        return _raw(fill, idx + 7 * layer, shape, _dtype_of(dtype, idx))

    def arg(self, kind, fill, idx, shape, dtype, names=None):
        key = (kind, fill, idx, shape, dtype, names)
        got = self.cache.get(key)
        if got is None:
            got = self.cache[key] = self.wrap(kind, [self.base(fill, idx, shape, dtype, l) for l in range(2 if kind == "ds" else 1)], names)
            if len(self.cache) > 20000:
                self.cache.clear()
        return got

    def wrap(self, kind, layers, names=None):
        xr = self.xr
        layers = [np.asarray(v) for v in layers]
        for v in layers:
            v.flags.writeable = False
        if kind == "np":
            return layers[0]
        shape = layers[0].shape
        names = list(names) if names else [f"d{i}" for i in range(len(shape))]
        coords = None if kind == "danc" else {n: np.arange(s) for n, s in zip(names, shape)}
        if kind in ("da", "danc"):
            return xr.DataArray(layers[0], dims=names, coords=coords)
        return xr.Dataset({"a": xr.DataArray(layers[0], dims=names, coords=coords), "b": xr.DataArray(layers[1], dims=names, coords=coords)})


def nlayers(kind):
    return 2 if kind == "ds" else 1


def extract(res, kind):
    """positional values of a backend result, one array per layer"""
    if hasattr(res, "data_vars"):
        return [np.asarray(res[k].values) for k in ("a", "b")]
    if kind == "ds":
        raise TypeError(f"Dataset in, {type(res).__name__} out")
    if hasattr(res, "dims") and hasattr(res, "values"):
        return [np.asarray(res.values)]
    return [np.asarray(res)]


def agree(got, exp, exact, scale=1.0):
    if len(got) != len(exp):
        return f"{len(got)} variables, expected {len(exp)}"
    for g, e in zip(got, exp):
        e = np.asarray(e)
        if g.shape != e.shape:
            return f"shape {g.shape}, NumPy gives {e.shape}"
        if g.dtype == object:
            return "object result"
        if exact:
            ok = np.array_equal(g, e)
        else:
            f32 = g.dtype == np.float32 or e.dtype == np.float32
            ok = bool(np.allclose(g, e, rtol=1e-5 if f32 else 1e-12, atol=(1e-5 if f32 else 1e-12) * scale))
        if not ok:
            return f"values {np.asarray(g).tolist()!r:.120}, NumPy gives {e.tolist()!r:.120}"
    return None


def scale_of(layers):
    m = 1.0
    for layer in layers:
        for v in layer:
            if np.size(v):
                m = max(m, float(np.max(np.abs(np.asarray(v, dtype=float)))))
    return (1.0 + m) ** 2


BUDGET = {"quick": 50.0, "thorough": 840.0}  # seconds of wall time the whole harness may use; split over the sub-spaces by SHARE
SHARE = {"multi": 0.22, "single": 0.16, "stack": 0.11, "concat": 0.06, "two": 0.06, "take": 0.07, "batch": 0.25, "random": 0.07}


class Space:
    tier = "quick"

    def __init__(self, name, share="multi"):
        self.name = name
        self.t0 = time.time()
        self.deadline = self.t0 + BUDGET.get(Space.tier, 50.0) * SHARE[share]
        self.truncated = 0
        self.cases = 0
        self.nontrivial = 0
        self.skipped = 0
        self.samples = []
        self.fail = {}
        self.nfail = 0

    def failure(self, obligation, inputs, observed, clause, cls="other"):
        self.nfail += 1
        key = (obligation, cls)
        if key not in self.fail and len(self.fail) < 20:
            self.fail[key] = {"obligation": obligation, "inputs": inputs, "observed": str(observed)[:400], "clause": clause, "class": cls}

    def check(self, obligation, inputs, call, expected, exact, scale=1.0, cls="other", trivial_ref=None):
        """expected: thunk -> list of arrays (one per layer); if NumPy itself refuses the case it is skipped"""
        if self.late():
            return
        try:
            exp = expected()
        except Exception:  # noqa - NumPy does not define the case
            self.skipped += 1
            return
        self.cases += 1
        if len(self.samples) < 3 and self.cases in (1, 500, 5000):
            self.samples.append(inputs)
        if trivial_ref is None or any(np.shape(e) != np.shape(r) or not np.array_equal(e, r) for e, r in zip(exp, trivial_ref)):
            self.nontrivial += 1
        try:
            got = extract(call(), inputs.get("kind", "np"))
        except Exception as e:  # noqa
            self.failure(obligation, inputs, f"raised {type(e).__name__}: {e}", CLAUSE_NP, cls)
            return
        why = agree(got, exp, exact, scale)
        if why:
            self.failure(obligation, inputs, why, CLAUSE_NP, cls)

    def late(self):
        """wall-clock guard: once the share of the tier budget is used up the rest of the enumeration is dropped and the bound says so"""
        if self.truncated or time.time() > self.deadline:
            self.truncated += 1
            return True
        return False

    def emit(self, out, driver, bound, extra_samples=()):
        samples = (list(extra_samples) + self.samples)[:3]
        if self.truncated:
            bound = f"TRUNCATED BY THE WALL-CLOCK GUARD: only the first {self.cases} cases of the following enumeration were executed ({self.truncated} dropped) - " + bound
        out.add_bounded(self.name, driver, bound + (f" [{self.skipped} cases skipped because NumPy itself raises]" if self.skipped else ""),
                        self.cases, self.nontrivial, time.time() - self.t0, samples, list(self.fail.values()))


def compositions(n):
    for mask in range(2 ** (n - 1)):
        parts, size = [], 1
        for b in range(n - 1):
            if (mask >> b) & 1:
                parts.append(size)
                size = 1
            else:
                size += 1
        parts.append(size)
        yield parts


def all_shapes(max_ndim, max_size):
    out = [()]
    for nd in range(1, max_ndim + 1):
        out += list(itertools.product(range(1, max_size + 1), repeat=nd))
    return out


def is_int_fill(fill):
    return fill in ("A", "B", "E", "W")


def fills_for(dtype):
    dt = _dtype_of(dtype, 1)
    if np.dtype(dt).kind == "f":
        return ["A", "B", "C"]
    return ["A", "B"]


# ------------------------------------------------------------------------------------------------------------------------------
def run(out, tier, seed):
    with warnings.catch_warnings():
        warnings.simplefilter("ignore")
        with np.errstate(all="ignore"):
            _run(out, tier, seed)


def _run(out, tier, seed):
    from earthkit.workflows import backends
    quick = tier == "quick"
    Space.tier = tier if tier in BUDGET else "quick"
    D = Data()
    rng = random.Random(seed)

    def fn(name):
        return getattr(backends, name)

    def names_of(shape):
        return [f"d{i}" for i in range(len(shape))]

    def layers_of(kind, fill, n, shape, dtype, shapes=None):
        return [[D.base(fill, i, shapes[i] if shapes else shape, dtype, l).copy() for i in range(n)] for l in range(nlayers(kind))]

    def args_of(kind, fill, n, shape, dtype, shapes=None):
        return [D.arg(kind, fill, i, shapes[i] if shapes else shape, dtype) for i in range(n)]

    if quick:
        shapes_multi = [(), (1,), (3,), (2, 3), (2, 1, 2)]
        shapes_single = [(), (1,), (3,), (2, 3), (3, 1), (2, 3, 2)]
        dtypes = ["int64", "float64"]
        dtypes_small = ["int32", "float32", "mixed"]  # only on one shape
        nmax = 6
    else:
        shapes_multi = all_shapes(3, 3)
        shapes_single = all_shapes(3, 3)
        dtypes = ["int64", "int32", "int16", "uint8", "float64", "float32", "mixed"]
        dtypes_small = []
        nmax = 6
    small_shape = (2, 3)

    def dtype_plan(shape):
        return dtypes + (dtypes_small if shape == small_shape else [])

    # ---- 1. multi-argument reductions -----------------------------------------------------------------------------------
    sp = Space("multi-argument reductions vs NumPy", "multi")
    for kind, shape in itertools.product(KINDS, shapes_multi):
        if quick and kind in ("danc", "ds") and shape not in ((3,), (2, 3)):
            continue
        for dtype in dtype_plan(shape):
            for fill in fills_for(dtype):
                for n in range(2, nmax + 1):
                    args = args_of(kind, fill, n, shape, dtype)
                    layers = layers_of(kind, fill, n, shape, dtype)
                    sc = scale_of(layers)
                    for op in RED:
                        sp.check(f"C15/numpy-agreement/{op}/multi-arg/{kind}",
                                 {"op": op, "kind": kind, "n_args": n, "shape": list(shape), "dtype": dtype, "fill": fill, "call": f"backends.{op}(*args)"},
                                 lambda: fn(op)(*args),
                                 lambda: [getattr(np, op)(np.stack(layer), axis=0) for layer in layers],
                                 exact=is_int_fill(fill) and op in RED_EXACT, scale=sc, trivial_ref=[layer[0] for layer in layers])
    # narrow dtypes with values close to their limits (and bools): NumPy's reductions do not wrap around inside the operands' dtype
    narrow = ["bool", "int8", "uint8", "int16"]
    for kind, shape in itertools.product(("np", "da"), [(3,), (2, 3)]):
        for dtype in narrow:
            for n in range(2, nmax + 1):
                args = args_of(kind, "W", n, shape, dtype)
                layers = layers_of(kind, "W", n, shape, dtype)
                sc = scale_of(layers)
                for op in ("sum", "mean", "min", "max"):
                    sp.check(f"C15/numpy-agreement/{op}/multi-arg/{kind}",
                             {"op": op, "kind": kind, "n_args": n, "shape": list(shape), "dtype": dtype, "fill": "W", "call": f"backends.{op}(*args)"},
                             lambda: fn(op)(*args),
                             lambda: [getattr(np, op)(np.stack(layer), axis=0) for layer in layers],
                             exact=op in RED_EXACT, scale=sc, trivial_ref=[layer[0] for layer in layers])
    sp.emit(out, "exhaustive enumeration",
            f"ops {RED} x kinds {KINDS} (ndarray / DataArray with coords / DataArray without coords / Dataset with 2 variables) x 2..{nmax} equally shaped "
            f"arguments x shapes {shapes_multi if quick else 'all shapes with ndim<=3, sizes 1..3, and ()'} x dtypes {dtypes}"
            f"{' (+ ' + str(dtypes_small) + ' on shape (2,3))' if dtypes_small else ''} x fills A (ints -3..3), B (ints +-1,+-2), C (non-integer, float dtypes only); plus sum/mean/min/max of 2..6 ndarrays / DataArrays of dtype bool, int8, uint8, int16 "
            f"filled within 8 of the dtype's largest value (fill W: the total leaves the dtype), shapes (3,), (2,3); "
            f"{'quick tier runs danc/ds on shapes (3,),(2,3) only; ' if quick else ''}"
            "non-trivial = NumPy's result differs from the first argument")

    # ---- 2. single-argument reductions over axis / dim ---------------------------------------------------------------------
    sp = Space("single-argument reductions over axis/dim vs NumPy", "single")
    for kind, shape in itertools.product(KINDS, shapes_single):
        nd = len(shape)
        names = names_of(shape)
        cfgs = [(NOKW, None), (None, None)]
        if kind == "np":
            cfgs += [(a, a) for a in range(-nd, nd)]
            cfgs += [(t, t) for r in range(2, nd + 1) for t in itertools.combinations(range(nd), r)]
            if nd >= 2:
                cfgs += [((-1, 0), (-1, 0))]
        else:
            cfgs += [(names[a], a) for a in range(nd)]
            cfgs += [([names[a] for a in t], t) for r in range(1, nd + 1) for t in itertools.permutations(range(nd), r) if r > 1 or not quick]
        for dtype in dtype_plan(shape):
            for fill in fills_for(dtype):
                for idx in ((0,) if quick else (0, 3)):
                    arg = D.arg(kind, fill, idx, shape, dtype)
                    layers = [[D.base(fill, idx, shape, dtype, l).copy()] for l in range(nlayers(kind))]
                    sc = scale_of(layers)
                    for given, axis in cfgs:
                        kwname = "axis" if kind == "np" else "dim"
                        kw = {} if given is NOKW else {kwname: given}
                        for op in RED:
                            sp.check(f"C15/numpy-agreement/{op}/single-arg/{kind}",
                                     {"op": op, "kind": kind, "shape": list(shape), "dtype": dtype, "fill": fill, "arg_index": idx,
                                      "call": f"backends.{op}(arg, **{kw!r})"},
                                     lambda: fn(op)(arg, **kw),
                                     lambda: [getattr(np, op)(layer[0], axis=axis) for layer in layers],
                                     exact=is_int_fill(fill) and op in RED_EXACT, scale=sc, trivial_ref=[layer[0] for layer in layers])
    sp.emit(out, "exhaustive enumeration",
            f"ops {RED} x kinds {KINDS} x one argument of shape {shapes_single if quick else 'every shape with ndim<=3, sizes 1..3, and ()'} x dtypes as above x fills A/B/C x "
            "axis in {omitted, None, every int in -ndim..ndim-1, every increasing tuple of >=2 axes, (-1,0)} for ndarrays; "
            "dim in {omitted, None, every name, every ordered list of names} for xarray; non-trivial = NumPy's result differs from the argument")

    # ---- 3. stack ---------------------------------------------------------------------------------------------------------
    sp = Space("stack vs NumPy", "stack")
    for kind, shape in itertools.product(KINDS, shapes_multi):
        nd = len(shape)
        for dtype in (dtype_plan(shape) if not quick else ["int64"] + (["float64", "mixed"] if shape == small_shape else [])):
            fill = "A"
            for n in range(1, nmax + 1):
                args = args_of(kind, fill, n, shape, dtype)
                layers = layers_of(kind, fill, n, shape, dtype)
                for axis in [NOKW] + list(range(-(nd + 1), nd + 1)):
                    kw = {} if axis is NOKW else {"axis": axis}
                    if kind != "np":
                        kw["dim"] = "new"
                    npaxis = 0 if axis is NOKW else axis
                    cls = "xarray-stack-negative-axis" if (kind != "np" and axis is not NOKW and -nd <= axis < 0) else "other"
                    sp.check(f"C15/numpy-agreement/stack/{kind}" + ("/negative-axis" if cls != "other" else ""),
                             {"op": "stack", "kind": kind, "n_args": n, "shape": list(shape), "dtype": dtype, "fill": fill, "call": f"backends.stack(*args, **{kw!r})"},
                             lambda: fn("stack")(*args, **kw),
                             lambda: [np.stack(layer, axis=npaxis) for layer in layers], exact=True, cls=cls)
    # broadcastable arguments (documented: "or be broadcastable to the same shape"); xarray broadcasts by name, so only trailing-aligned named dims
    bc = [[(2, 3), (3,)], [(2, 3), (3,), (2, 3)], [(2, 3, 2), (2,), (3, 2)], [(2, 3), ()]]
    bc_np = [[(2, 3), (2, 1)], [(2, 1), (1, 3)], [(3,), (2, 3)], [(), (2,)], [(1,), (3,), (1,)]]
    for kind in KINDS:
        for shapes in bc + (bc_np if kind == "np" else []):
            full = np.broadcast_shapes(*shapes)
            nd = len(full)
            fnames = names_of(full)
            layers = [[D.base("A", i, s, "int64", l).copy() for i, s in enumerate(shapes)] for l in range(nlayers(kind))]
            args = [D.arg(kind, "A", i, s, "int64", names=tuple(fnames[nd - len(s):])) for i, s in enumerate(shapes)]
            for axis in range(0, nd + 1):
                # index coordinates missing from some arguments need coords="minimal" in xr.concat (as the repository's own test passes it)
                kw = {"axis": axis} if kind == "np" else {"axis": axis, "dim": "new", "coords": "minimal"}
                sp.check(f"C15/numpy-agreement/stack/broadcast/{kind}",
                         {"op": "stack", "kind": kind, "shapes": [list(s) for s in shapes], "dtype": "int64", "fill": "A", "call": f"backends.stack(*args, **{kw!r})"},
                         lambda: fn("stack")(*args, **kw),
                         lambda: [np.stack(np.broadcast_arrays(*layer), axis=axis) for layer in layers], exact=True)
    sp.emit(out, "exhaustive enumeration",
            f"kinds {KINDS} x 1..{nmax} equally shaped arguments x shapes as in the multi-argument space x axis in {{omitted}} + -(ndim+1)..ndim (xarray: dim='new') x fill A x dtypes "
            f"{'int64 (+ float64, mixed on shape (2,3))' if quick else dtypes}; "
            f"plus broadcastable argument shapes {bc} (all kinds, dims aligned by trailing name) and {bc_np} (ndarrays) x axis 0..ndim; "
            "exact equality of values and shape with np.stack(np.broadcast_arrays(*args), axis); every case non-trivial (a new axis appears)")

    # ---- 4. concat --------------------------------------------------------------------------------------------------------
    sp = Space("concat vs NumPy", "concat")
    for kind, shape in itertools.product(KINDS, [s for s in shapes_multi if len(s) >= 1]):
        nd = len(shape)
        names = names_of(shape)
        for dtype in (["int64"] + (["float64", "mixed"] if shape == small_shape else []) if quick else dtype_plan(shape)):
            for n in range(1, nmax + 1):
                for ax in range(nd):
                    for vary in (False, True):
                        shapes = [tuple((1 + (i + s) % 3 if (d == ax and vary) else s) for d, s in enumerate(shape)) for i in range(n)]
                        args = args_of(kind, "A", n, shape, dtype, shapes)
                        layers = layers_of(kind, "A", n, shape, dtype, shapes)
                        given = [ax] + ([ax - nd] if kind == "np" else [])
                        for g in given:
                            kw = {"axis": g} if kind == "np" else {"dim": names[ax]}
                            sp.check(f"C15/numpy-agreement/concat/{kind}",
                                     {"op": "concat", "kind": kind, "shapes": [list(s) for s in shapes], "dtype": dtype, "fill": "A", "call": f"backends.concat(*args, **{kw!r})"},
                                     lambda: fn("concat")(*args, **kw),
                                     lambda: [np.concatenate(layer, axis=ax) for layer in layers], exact=True,
                                     trivial_ref=[layer[0] for layer in layers])
    sp.emit(out, "exhaustive enumeration",
            f"kinds {KINDS} x 1..{nmax} arguments x base shapes with ndim>=1 as in the multi-argument space x every axis (ndarrays: also its negative alias; xarray: dim name) x "
            f"argument lengths along that axis either all equal or 1+(i+s)%3 for argument i x fill A x dtypes {'int64 (+ float64, mixed on shape (2,3))' if quick else dtypes}; "
            "exact equality with np.concatenate; non-trivial = result differs from first argument")

    # ---- 5. two-argument operations -----------------------------------------------------------------------------------------
    sp = Space("add/subtract/multiply/divide/pow vs NumPy", "two")
    pair_dtypes = [("int64", "int64"), ("float64", "float64"), ("int64", "float64"), ("float64", "int64")]
    if not quick:
        pair_dtypes += [("int32", "int32"), ("int16", "int16"), ("uint8", "uint8"), ("float32", "float32"), ("int32", "float32"), ("uint8", "int64")]
    for kind, shape in itertools.product(KINDS, shapes_single):
        nd = len(shape)
        for (da_, db_) in pair_dtypes:
            afills = ["A", "B"] + (["C"] if np.dtype(da_).kind == "f" else [])
            for afill in afills:
                for op in TWO:
                    bfills = {"divide": ["B"] + (["C"] if np.dtype(db_).kind == "f" else []), "pow": ["E"]}.get(op, ["A"] + (["C"] if np.dtype(db_).kind == "f" else []))
                    for bfill in bfills:
                        # second operand: same shape array, python scalar, (ndarrays) trailing-broadcast array
                        variants = [("same", shape), ("scalar", None)]
                        if kind == "np" and nd >= 2:
                            variants.append(("broadcast", shape[1:]))
                        for vname, bshape in variants:
                            a = D.arg(kind, afill, 0, shape, da_)
                            la = [D.base(afill, 0, shape, da_, l).copy() for l in range(nlayers(kind))]
                            if vname == "scalar":
                                b = {"B": 2, "E": 3, "A": -3, "C": 0.48}[bfill]
                                if np.dtype(db_).kind == "f":
                                    b = float(b)
                                if np.dtype(da_).kind == "u" and b < 0:
                                    b = 3
                                lb = [b] * nlayers(kind)
                            else:
                                b = D.arg(kind, bfill, 1, bshape, db_)
                                lb = [D.base(bfill, 1, bshape, db_, l).copy() for l in range(nlayers(kind))]
                            exact = is_int_fill(afill) and is_int_fill(bfill) and op != "divide"
                            for form in ("args", "nested"):
                                if form == "nested" and (quick and vname != "same"):
                                    continue
                                call = (lambda: fn(op)(a, b)) if form == "args" else (lambda: fn(op)([a, b]))
                                sp.check(f"C15/numpy-agreement/{op}/{kind}",
                                         {"op": op, "kind": kind, "shape": list(shape), "dtypes": [da_, db_], "fills": [afill, bfill], "second": vname if vname != "scalar" else b,
                                          "call": f"backends.{op}(a, b)" if form == "args" else f"backends.{op}([a, b])"},
                                         call, lambda: [NP_TWO[op](x, y) for x, y in zip(la, lb)], exact=exact,
                                         scale=scale_of([la]), trivial_ref=la)
    sp.emit(out, "exhaustive enumeration",
            f"ops {TWO} x kinds {KINDS} x first operand of shape {shapes_single if quick else 'every shape with ndim<=3, sizes 1..3, and ()'} x dtype pairs {pair_dtypes} x "
            "first fill A/B/C, second operand {same-shape array, python scalar, (ndarrays) array of the trailing dims} with fill A/C (add, subtract, multiply), B/C without zeros (divide), "
            "integer exponents 0..3 (pow) x call forms op(a, b) and op([a, b]); non-trivial = result differs from first operand")

    # ---- 6. take ----------------------------------------------------------------------------------------------------------
    sp = Space("take vs NumPy", "take")
    for kind, shape in itertools.product(KINDS, [s for s in shapes_single if len(s) >= 1]):
        nd = len(shape)
        names = names_of(shape)
        for dtype in (["int64"] if quick and shape != small_shape else ["int64", "float64"]):
            fill = "A" if np.dtype(dtype).kind != "f" else "C"
            arg = D.arg(kind, fill, 2, shape, dtype)
            layers = [D.base(fill, 2, shape, dtype, l).copy() for l in range(nlayers(kind))]
            for ax in range(nd):
                size = shape[ax]
                dims = [ax, ax - nd] + ([names[ax]] if kind != "np" else [])
                rngi = list(range(-size, size))
                idxs = list(rngi) + [[i] for i in rngi] + [list(t) for t in itertools.product(rngi, repeat=2)]
                if not quick:
                    idxs += [list(t) for t in itertools.product(rngi, repeat=3)]
                idxs += [np.array(rngi[::-1]), np.array([size - 1])]
                for dim in dims:
                    for ix in idxs:
                        if quick and dim != ax and isinstance(ix, list) and len(ix) == 2 and (ix[0] + 2 * ix[1]) % 3:
                            continue
                        sp.check(f"C15/numpy-agreement/take/{kind}",
                                 {"op": "take", "kind": kind, "shape": list(shape), "dtype": dtype, "fill": fill, "arg_index": 2,
                                  "call": f"backends.take(arg, {ix.tolist() if hasattr(ix, 'tolist') else ix!r}, dim={dim!r})", "indices_type": type(ix).__name__},
                                 lambda: fn("take")(arg, ix, dim=dim),
                                 lambda: [np.take(layer, ix, axis=ax) for layer in layers], exact=True, trivial_ref=layers)
                # label based selection with labels == positions (index coordinates are 0..size-1)
                if kind in ("da", "ds"):
                    for ix in list(range(size)) + [list(t) for t in itertools.product(range(size), repeat=2)]:
                        sp.check(f"C15/numpy-agreement/take/sel/{kind}",
                                 {"op": "take", "kind": kind, "shape": list(shape), "dtype": dtype, "fill": fill, "arg_index": 2,
                                  "call": f"backends.take(arg, {ix!r}, dim={names[ax]!r}, method='sel')"},
                                 lambda: fn("take")(arg, ix, dim=names[ax], method="sel"),
                                 lambda: [np.take(layer, ix, axis=ax) for layer in layers], exact=True, trivial_ref=layers)
    sp.emit(out, "exhaustive enumeration",
            f"kinds {KINDS} x shapes with ndim>=1 from {shapes_single if quick else 'every shape with ndim<=3, sizes 1..3'} x every dim (int, its negative alias, xarray: name) x "
            f"indices: every int in -size..size-1, every list of length 1..{2 if quick else 3} over that range{' (quick: a third of the pairs on the alias dims)' if quick else ''}, "
            "two ndarray index vectors; plus method='sel' with labels 0..size-1 on coordinate-carrying xarray kinds; exact equality with np.take; non-trivial = result differs from the argument")

    # ---- 7. batchable -----------------------------------------------------------------------------------------------------
    _batchable(out, backends, D, quick, rng)

    # ---- 8. seeded random extension beyond the exhaustive bound ---------------------------------------------------------------
    _random(out, backends, D, quick, rng, seed)


# ------------------------------------------------------------------------------------------------------------------------------
def _cfgs_for(name, kind, shape):
    """keyword configurations to try for a function in the batchable test: (kwargs, axis along which argument lengths vary or None)"""
    nd = len(shape)
    names = [f"d{i}" for i in range(nd)]
    per_axis = [({"axis": a} if kind == "np" else {"dim": names[a]}, a) for a in range(nd)]
    if name in RED:
        return [({}, None)]
    if name == "concat":
        return per_axis
    extra = [] if kind == "np" else [({"dim": "new"}, None)]
    return [({}, None)] + [(kw, None) for kw, _ in per_axis] + extra


def _same_results(x, y, kind, scale):
    gx, gy = extract(x, kind), extract(y, kind)
    exact = all(g.dtype.kind in "iub" for g in gx + gy)
    return agree(gx, gy, exact, scale)


def _batchable(out, backends, D, quick, rng):
    sp = Space("batchable: f(f(b1),...,f(bk)) == f(all) for every contiguous partition", "batch")
    Backend = backends.Backend
    public = [n for n in dir(Backend) if not n.startswith("_") and callable(getattr(Backend, n))]
    marked = [n for n in public if getattr(getattr(Backend, n), "batchable", False)]
    unmarked = [n for n in public if n not in marked]
    shapes = [(2,), (2, 3), (1, 2, 2)] if quick else [(), (1,), (3,), (2, 3), (3, 2), (2, 1, 2), (2, 3, 2)]
    data_cfgs = [("int64", "A"), ("int64", "B"), ("float64", "C")] if quick else \
        [("int64", "A"), ("int64", "B"), ("int32", "B"), ("uint8", "A"), ("float64", "A"), ("float64", "C"), ("float32", "B"), ("mixed", "A")]
    status = {}  # name -> [applicable n>=3 configs, violations]
    info_shapes = [(2,), (2, 2)]
    info_cfgs = [("int64", "A"), ("float64", "C")]

    def one(name, kind, shape, dtype, fill, n, is_marked):
        f = getattr(backends, name)
        st = status.setdefault(name, [0, 0])
        for kw, vary in _cfgs_for(name, kind, shape):
            shapes_i = [tuple((1 + (i + s) % 3 if d == vary else s) for d, s in enumerate(shape)) for i in range(n)] if vary is not None else None
            args = [D.arg(kind, fill, i, shapes_i[i] if shapes_i else shape, dtype) for i in range(n)]
            desc = {"function": name, "kind": kind, "n_args": n, "shape": list(shape), "shapes": [list(s) for s in shapes_i] if shapes_i else None,
                    "dtype": dtype, "fill": fill, "kwargs": kw}
            try:
                full = f(*args, **kw)
                extract(full, kind)
            except Exception:  # noqa - the function is not defined for this many arguments / these kwargs
                continue
            st[0] += 1
            scale = scale_of([[D.base(fill, i, shape, dtype) for i in range(n)]]) ** (n if name == "prod" else 1)
            memo = {}

            def apply(items):
                return f(*items, **kw)

            def batched(parts):
                items, i = [], 0
                for p in parts:
                    if p == 1:
                        items.append(args[i])
                    else:
                        if (i, p) not in memo:
                            memo[(i, p)] = apply(args[i:i + p])
                        items.append(memo[(i, p)])
                    i += p
                return apply(items)

            def hier(b):
                items = list(args)
                while b < len(items):
                    items = [apply(items[i:i + b]) if len(items[i:i + b]) > 1 else items[i] for i in range(0, len(items), b)]
                return apply(items)
            plans = [("partition", p) for p in compositions(n) if 1 < len(p) and max(p) > 1]
            plans += [("hierarchical batch_size", b) for b in range(2, n)]
            for how, p in plans:
                if sp.late():
                    return
                sp.cases += is_marked
                d = dict(desc, **{how: p})
                try:
                    got = batched(p) if how == "partition" else hier(p)
                    why = _same_results(got, full, kind, scale)
                except Exception as e:  # noqa
                    why = f"raised {type(e).__name__}: {e}"
                if is_marked:
                    sp.nontrivial += 1
                    if len(sp.samples) < 2 and sp.cases in (1, 2000):
                        sp.samples.append(d)
                if why:
                    st[1] += 1
                    if is_marked:
                        sp.failure(f"C15/batchable/{name}/{kind}", d, f"f(f(b1),..,f(bk)) != f(all): {why}", CLAUSE_B, "other")
                    else:
                        return  # informational pass: one counterexample is enough

    for name in marked:
        for kind, shape, (dtype, fill) in itertools.product(KINDS, shapes, data_cfgs):
            if quick and kind in ("danc", "ds") and (shape != (2, 3) or fill == "B"):
                continue
            for n in range(3, 7):
                one(name, kind, shape, dtype, fill, n, True)
        if status.get(name, [0, 0])[0] == 0:
            sp.cases += 1
            sp.failure(f"C15/batchable/{name}/not-applicable", {"function": name, "n_args": "3..6", "kinds": KINDS},
                       "marked batchable but f(all inputs) raises for every 3..6 arguments tried, so f(f(b1),..,f(bk)) = f(all) cannot hold", CLAUSE_B, "other")
    for name in unmarked:
        for kind, shape, (dtype, fill) in itertools.product(["np", "da"], info_shapes, info_cfgs):
            for n in (3, 5):
                if status.get(name, [0, 0])[1]:
                    break
                one(name, kind, shape, dtype, fill, n, False)
    info = sorted(n for n in unmarked if status.get(n, [0, 0])[0] > 0 and status[n][1] == 0)
    note = {"informational": "functions that pass the batchable test on the informational sub-bound but are NOT marked (not a failure)", "functions": info,
            "marked": marked, "unmarked_refuted_or_not_applicable": sorted(n for n in unmarked if n not in info)}
    if hasattr(out, "notes"):
        try:
            out.notes.append(f"C15 batchable: marked={marked}; batchable by test but unmarked (informational)={info}")
        except Exception:  # noqa
            pass
    sp.emit(out, "exhaustive enumeration",
            f"every function of earthkit.workflows.backends.Backend whose .batchable is truthy (found: {marked}) x kinds {KINDS} x 3..6 arguments x EVERY composition of n into >=2 "
            "contiguous batches with at least one batch of >=2 (one-element batches are handed through as fluent._batch_transform does) + the library's hierarchical scheme for every "
            f"batch_size 2..n-1 x shapes {shapes} x (dtype, fill) {data_cfgs} x kwargs ({{}} for reductions, every axis/dim with unequal argument lengths for concat, "
            "{} / every axis / dim='new' for anything else); integer results compared exactly, others rtol 1e-12; a marked function that cannot take 3..6 arguments at all is a failure; "
            f"{'quick runs danc/ds on shape (2,3) with fills A, C only; ' if quick else ''}"
            f"unmarked functions {unmarked} are run on the sub-bound kinds [np, da] x shapes {info_shapes} x {info_cfgs} x n in (3,5) for information only; "
            "every enumerated case is non-trivial (a real re-association)", extra_samples=[note])


# ------------------------------------------------------------------------------------------------------------------------------
def _random(out, backends, D, quick, rng, seed):
    """seeded random cases beyond the exhaustive bound: sizes up to 4, random values, random argument counts"""
    sp = Space("seeded random extension (sizes up to 4, random data)", "random")
    budget = 1500 if quick else 8000
    marked = [n for n in dir(backends.Backend) if not n.startswith("_") and getattr(getattr(backends.Backend, n), "batchable", False)]
    for it in range(budget):
        kind = rng.choice(KINDS)
        nd = rng.randint(0, 3)
        shape = tuple(rng.randint(1, 4) for _ in range(nd))
        isint = rng.random() < 0.5
        dtype = rng.choice(["int64", "int32"]) if isint else "float64"
        n = rng.randint(1, 6)
        size = 1
        for s in shape:
            size *= s

        def vals(lo=-4, hi=4, nonzero=False):
            outv = []
            for _ in range(size):
                v = rng.randint(lo, hi) if isint else round(rng.uniform(lo, hi), 6)
                if nonzero and v == 0:
                    v = 1
                outv.append(v)
            return outv
        layers = [[_raw("R", 0, shape, dtype, vals()) for _ in range(n)] for _ in range(nlayers(kind))]
        args = [D.wrap(kind, [layers[l][i].copy() for l in range(nlayers(kind))]) for i in range(n)]
        names = [f"d{i}" for i in range(nd)]
        fam = rng.choice(["red", "red1", "stack", "concat", "two", "take", "batch"])
        desc = {"kind": kind, "shape": list(shape), "dtype": dtype, "n_args": n, "seed": seed, "iteration": it, "family": fam,
                "data": [[v.tolist() for v in layer] for layer in layers]}
        sc = scale_of(layers)
        if fam == "red" and n >= 2:
            op = rng.choice(RED)
            sp.check(f"C15/numpy-agreement/{op}/multi-arg/{kind}", dict(desc, op=op), lambda: getattr(backends, op)(*args),
                     lambda: [getattr(np, op)(np.stack(layer), axis=0) for layer in layers], exact=isint and op in RED_EXACT, scale=sc ** (n if op == "prod" else 1))
        elif fam == "red1":
            op = rng.choice(RED)
            axes = tuple(sorted(rng.sample(range(nd), rng.randint(0, nd)))) if nd else ()
            if not axes:
                kw, axis = {}, None
            elif kind == "np":
                kw, axis = {"axis": axes if len(axes) > 1 else axes[0]}, axes
            else:
                kw, axis = {"dim": [names[a] for a in axes] if len(axes) > 1 else names[axes[0]]}, axes
            sp.check(f"C15/numpy-agreement/{op}/single-arg/{kind}", dict(desc, op=op, kwargs=kw), lambda: getattr(backends, op)(args[0], **kw),
                     lambda: [getattr(np, op)(layer[0], axis=axis) for layer in layers], exact=isint and op in RED_EXACT, scale=sc ** (size if op == "prod" else 1))
        elif fam == "stack":
            axis = rng.randint(0, nd)
            kw = {"axis": axis} if kind == "np" else {"axis": axis, "dim": "new"}
            sp.check(f"C15/numpy-agreement/stack/{kind}", dict(desc, op="stack", kwargs=kw), lambda: backends.stack(*args, **kw),
                     lambda: [np.stack(layer, axis=axis) for layer in layers], exact=True)
        elif fam == "concat" and nd >= 1:
            ax = rng.randrange(nd)
            kw = {"axis": ax} if kind == "np" else {"dim": names[ax]}
            sp.check(f"C15/numpy-agreement/concat/{kind}", dict(desc, op="concat", kwargs=kw), lambda: backends.concat(*args, **kw),
                     lambda: [np.concatenate(layer, axis=ax) for layer in layers], exact=True)
        elif fam == "two":
            op = rng.choice(TWO)
            lb = [_raw("R", 0, shape, dtype, vals(0, 3) if op == "pow" else vals(nonzero=(op == "divide"))) for _ in range(nlayers(kind))]
            if not isint and op == "pow":
                lb = [np.asarray(np.round(b)) for b in lb]
            b = D.wrap(kind, [x.copy() for x in lb])
            sp.check(f"C15/numpy-agreement/{op}/{kind}", dict(desc, op=op, second=[x.tolist() for x in lb]), lambda: getattr(backends, op)(args[0], b),
                     lambda: [NP_TWO[op](layer[0], y) for layer, y in zip(layers, lb)], exact=isint and op != "divide", scale=sc ** 2)
        elif fam == "take" and nd >= 1:
            ax = rng.randrange(nd)
            ix = rng.randint(-shape[ax], shape[ax] - 1) if rng.random() < 0.4 else [rng.randint(-shape[ax], shape[ax] - 1) for _ in range(rng.randint(1, 5))]
            dim = rng.choice([ax, ax - nd] + ([names[ax]] if kind != "np" else []))
            sp.check(f"C15/numpy-agreement/take/{kind}", dict(desc, op="take", indices=ix, dim=dim), lambda: backends.take(args[0], ix, dim=dim),
                     lambda: [np.take(layer[0], ix, axis=ax) for layer in layers], exact=True)
        elif fam == "batch" and n >= 3 and marked:
            name = rng.choice(marked)
            if name == "concat" and nd == 0:
                continue
            kw = {} if name != "concat" else ({"axis": nd - 1} if kind == "np" else {"dim": names[-1]})
            f = getattr(backends, name)
            parts = rng.choice([p for p in compositions(n) if 1 < len(p) and max(p) > 1])
            if sp.late():
                continue
            sp.cases += 1
            sp.nontrivial += 1
            d = dict(desc, function=name, partition=parts, kwargs=kw)
            try:
                full = f(*args, **kw)
                items, i = [], 0
                for p in parts:
                    items.append(args[i] if p == 1 else f(*args[i:i + p], **kw))
                    i += p
                why = _same_results(f(*items, **kw), full, kind, sc ** (n if name == "prod" else 1))
            except Exception as e:  # noqa
                why = f"raised {type(e).__name__}: {e}"
            if why:
                sp.failure(f"C15/batchable/{name}/{kind}", d, why, CLAUSE_B, "other")
    sp.emit(out, "seeded random",
            f"{budget} draws from random.Random(seed): kind in {KINDS}, ndim 0..3, sizes 1..4, 1..6 arguments, int64/int32 values in -4..4 or float64 in (-4,4) rounded to 1e-6, "
            "operation family uniform over {multi-arg reduction, single-arg reduction over a random axis set, stack, concat, two-arg op, take, batchable partition}; "
            "draws whose family does not fit the drawn shape/argument count are dropped; non-trivial = all executed cases (not deduplicated against the exhaustive spaces)")
