"""C15 - bounded stand-in (see checks/c15_bounded.py)."""
from checks._simple import run_simple


def run(tier, seed):
    return run_simple("C15", tier, seed, "checks.c15_bounded", [],
                      explanation="real fluent / backend code compared with NumPy computed independently",
                      assumptions=["NumPy / xarray semantics themselves are assumed; floating point compared with the stated tolerances"])
