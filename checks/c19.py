"""C19 - bounded stand-in (see checks/c19_bounded.py)."""
from checks._simple import run_simple


def run(tier, seed):
    return run_simple("C19", tier, seed, "checks.c19_bounded",
                      ["cascade.low.builders:TaskBuilder.with_values", "cascade.low.builders:JobBuilder.with_node", "cascade.low.builders:JobBuilder.with_edge",
                       "cascade.low.builders:JobBuilder.build.<locals>.get_edge_errors"],
                      explanation="real library code on exhaustively enumerated programs / builder inputs",
                      assumptions=["pydantic model_copy / pyrsistent persistent structures behave as documented", "sha256 is collision free on the names compared"])
