"""Bounded stand-in for C12: serialising a graph and reading it back gives an equal graph.

The real `earthkit.workflows.graph.export.serialise / deserialise / to_json / from_json` and
`earthkit.workflows.Cascade.serialise / from_serialised` are driven with every graph of a bounded space and the
result is compared, node by node, with a snapshot of the original that this file takes with its own traversal
(it does not rely on `Graph.nodes` or `Graph.__eq__` for the verdict; `Graph.__eq__` is checked separately).

Sub-spaces (one `add_bounded` record each; A is reported in two records, the bulk layers run last)
  A  generic DAGs       all DAGs in topological labelling with <= N nodes, every node picks an output kind out of
                        {no outputs, default output, two named outputs, two numbered outputs "0","1"} and 0..2 named
                        inputs, each wired to any output of any earlier node (multi-edges included); terminal nodes
                        with and without outputs, disconnected graphs and the empty graph are part of the space.
                        Crossed with 4 naming schemes (plain / node names that equal output and input names / empty,
                        dotted and prefix names / names that look like the keys of the serialised form), 2 ways of
                        listing the sinks, payloads taken from a rotating palette (every third graph: the same payload
                        on all nodes).  Routes: dict, JSON, Cascade file.
                        quick: N = 3 fully crossed, then all 4-node DAGs with 3 output kinds;
                        thorough: N = 3 fully crossed, all 4-node DAGs, two families of 5-node DAGs.
  B  payloads           1- and 2-node graphs x every output kind x every payload (pair) of the payload palette.
  C  node factory       graphs whose payloads have a `serialise` method, read back with a node factory that inverts it.
  D  fluent programs    every program of <= L fluent operations (quick L = 2, thorough L = 3) over 3 sources (1-D, 2-D,
                        1-D generator source); routes dict and Cascade file on the real graph, JSON on the same graph
                        with JSON-faithful surrogate payloads.
  E  seeded random      larger random DAGs (5..9 nodes, <= 3 inputs, <= 3 outputs, nested payloads, adversarial names).
Every space checks a time budget and says so in its `bound` text if it had to stop early (TRUNCATED ...).

What is *not* demanded (the property is silent): order of sinks, which nodes are listed as sinks, class of the
rebuilt nodes, order of inputs, identity of payload objects, whether the original is left untouched.  Input names that `Node(**inputs)` cannot take
(name, outputs, payload, data, node_factory, self) are never generated.  On the JSON route payloads are compared only
when they are of the kinds the property lists (None, ints, strings, lists of those, dicts with string keys) and
`json.loads(json.dumps(p))` gives them back unchanged; on the Cascade route only when `dill.loads(dill.dumps(p))` does.

FOUND DEFECTS
  none on the current tree.  (The historical defect "deserialise selects as sinks the nodes *without outputs*, so
  terminal nodes that declare outputs - every fluent graph - vanish" was fixed in /repo by e359a03; re-introducing it
  is reported by this file as C12/<route>/node-lost in sub-spaces A, B, D and E.)
"""
import copy
import itertools
import json
import os
import random
import shutil
import tempfile
import time

CLAUSE_EQ = ("For every graph with unique node names, de-serialising its serialised form (as a Python dict, as JSON, or "
             "through the Cascade file format) yields a graph equal to the original: same nodes, outputs, inputs and "
             "payloads, with nothing lost.")
CLAUSE_TERMINAL = ("This holds whether or not the graph's terminal nodes have outputs, which is the case for every graph "
                   "built with the fluent API.")

RESERVED_INPUT_NAMES = {"name", "outputs", "payload", "data", "node_factory", "self"}

# ------------------------------------------------------------------------------------------------------------------
# generic helpers (independent of the code under test)
# ------------------------------------------------------------------------------------------------------------------


def _strict_eq(a, b):
    """Equality that also compares types of plain containers (so a tuple that came back as a list is 'different')."""
    if type(a) is not type(b):
        return False
    if isinstance(a, (list, tuple)):
        return len(a) == len(b) and all(_strict_eq(x, y) for x, y in zip(a, b))
    if isinstance(a, dict):
        if a.keys() != b.keys():
            return False
        return all(_strict_eq(v, b[k]) for k, v in a.items())
    try:
        return bool(a == b)
    except Exception:
        return a is b


def _listed_json_kind(p):
    """The kinds the property lists as JSON-faithful: None, ints, strings, lists of those, dicts with string keys."""
    if p is None or (isinstance(p, int) and not isinstance(p, bool)) or isinstance(p, str):
        return True
    if isinstance(p, list):
        return all(_listed_json_kind(x) for x in p)
    if isinstance(p, dict):
        return all(isinstance(k, str) for k in p) and all(_listed_json_kind(v) for v in p.values())
    return False


def _json_faithful(p):
    if p is None or type(p) is str or type(p) is int:
        return True
    if not _listed_json_kind(p):
        return False
    try:
        return _strict_eq(json.loads(json.dumps(p)), p)
    except Exception:
        return False


def _json_dumpable(p):
    if p is None or type(p) is str or type(p) is int:
        return True
    try:
        json.dumps(p)
        return True
    except Exception:
        return False


def _own_nodes(sinks):
    """All node objects reachable from `sinks` through inputs; own traversal, by object identity."""
    seen = {}
    stack = list(sinks)
    while stack:
        n = stack.pop()
        if id(n) in seen:
            continue
        seen[id(n)] = n
        for src in n.inputs.values():
            stack.append(src.parent)
    return list(seen.values())


def _snapshot(sinks):
    """name -> (outputs, {input name: (parent name, output name)}, payload copy); plus list of duplicated names."""
    snap, dups = {}, []
    for n in _own_nodes(sinks):
        if n.name in snap:
            dups.append(n.name)
        try:
            payload = copy.deepcopy(n.payload)
        except Exception:
            payload = n.payload
        snap[n.name] = (list(n.outputs), {k: (s.parent.name, s.name) for k, s in n.inputs.items()}, payload)
    return snap, dups


def _describe(snap, sinks=None, **extra):
    d = {"nodes": [{"name": name, "outputs": outs, "inputs": {k: list(v) for k, v in ins.items()}, "payload": repr(payload)}
                   for name, (outs, ins, payload) in snap.items()]}
    if sinks is not None:
        d["sinks"] = list(sinks)
    d.update(extra)
    return d


def _compare(snap, g2, payload_checked):
    """List of (kind, detail) differences between the snapshot of the original and the graph read back."""
    problems = []
    sinks2 = getattr(g2, "sinks", None)
    if sinks2 is None:
        return [("not-a-graph", f"result is {type(g2).__name__}")]
    got = {}
    for n in _own_nodes(sinks2):
        if n.name in got:
            problems.append(("node-duplicated", f"two node objects named {n.name!r} in the graph read back"))
        got[n.name] = n
    lost = [k for k in snap if k not in got]
    extra = [k for k in got if k not in snap]
    if lost:
        problems.append(("node-lost", f"nodes missing after the round trip: {sorted(lost)!r} (kept: {sorted(got)!r})"))
    if extra:
        problems.append(("node-extra", f"nodes that the original does not have: {sorted(extra)!r}"))
    for name, (outs, ins, payload) in snap.items():
        n = got.get(name)
        if n is None:
            continue
        outs2 = list(n.outputs)
        if outs2 != outs:
            problems.append(("outputs-differ", f"node {name!r}: outputs {outs!r} came back as {outs2!r}"))
        ins2 = {k: (s.parent.name, s.name) for k, s in n.inputs.items()}
        if ins2 != ins:
            problems.append(("inputs-differ", f"node {name!r}: inputs {ins!r} came back as {ins2!r}"))
        if (payload_checked is True or payload_checked[name]) and not _strict_eq(n.payload, payload):
            problems.append(("payload-differ", f"node {name!r}: payload {payload!r} came back as {n.payload!r}"))
    return problems


class _Recorder:
    def __init__(self, space):
        self.space = space
        self.failures = {}
        self.cases = 0
        self.nontrivial = 0
        self.samples = []
        self.round_trips = 0

    def fail(self, obligation, inputs, observed, clause=CLAUSE_EQ, cls="other"):
        key = (obligation, cls)
        if key in self.failures or len(self.failures) >= 20:
            return
        try:
            json.dumps(inputs)
        except Exception:
            inputs = json.loads(json.dumps(inputs, default=repr))
        self.failures[key] = {"obligation": obligation, "inputs": inputs, "observed": str(observed)[:600], "clause": clause, "class": cls}

    def failure_list(self):
        return list(self.failures.values())


class _Env:
    """Everything imported from the code under test, plus a scratch file for the Cascade route."""

    def __init__(self):
        import dill
        import earthkit.workflows as ew
        from earthkit.workflows.graph import Graph, Node
        from earthkit.workflows.graph import export

        self.dill = dill
        self.Cascade = ew.Cascade
        self.Graph = Graph
        self.Node = Node
        self.export = export
        self.tmp = tempfile.mkdtemp(prefix="c12_")
        self.fn = os.path.join(self.tmp, "graph.dill")

    def close(self):
        shutil.rmtree(self.tmp, ignore_errors=True)

    # the three routes of the property
    def route_dict(self, g):
        return self.export.deserialise(self.export.serialise(g))

    def route_json(self, g):
        return self.export.from_json(self.export.to_json(g))

    def route_cascade(self, g):
        if os.path.exists(self.fn):
            os.remove(self.fn)
        self.Cascade(g).serialise(self.fn)
        return self.Cascade.from_serialised(self.fn)._graph

    def dill_faithful(self, p):
        try:
            return _strict_eq(self.dill.loads(self.dill.dumps(p)), p)
        except Exception:
            return False


def _check_graph(env, rec, g, describe, routes, payload_plain=False):
    """Round-trip `g` through the routes and record differences.  Returns the snapshot of the original taken beforehand,
    or None if the precondition (unique names) does not hold."""
    snap, dups = _snapshot(g.sinks)
    if dups:
        return None
    for route in routes:
        if route == "dict":
            fn, checked = env.route_dict, (lambda p: True)
        elif route == "json":
            if not all(_json_dumpable(p) for _, _, p in snap.values()):
                continue  # json.dumps cannot represent some payload at all: outside the JSON clause
            fn, checked = env.route_json, _json_faithful
        else:
            fn, checked = env.route_cascade, ((lambda p: True) if payload_plain else env.dill_faithful)
        rec.round_trips += 1
        try:
            g2 = fn(g)
        except Exception as e:  # the property promises a graph, an exception loses everything
            rec.fail(f"C12/{route}/raises", describe(snap, route), f"{type(e).__name__}: {e}")
            continue
        flags = {name: checked(p) for name, (_, _, p) in snap.items()}
        try:
            problems = _compare(snap, g2, flags)
        except Exception as e:  # what came back cannot even be walked as a graph
            problems = [("malformed-result", f"walking the graph read back failed with {type(e).__name__}: {e}")]
        for kind, detail in problems:
            clause = CLAUSE_EQ
            if kind == "node-lost":
                clause = CLAUSE_EQ + " " + CLAUSE_TERMINAL
            rec.fail(f"C12/{route}/{kind}", describe(snap, route), detail, clause)
        if not problems and all(flags.values()):
            # everything the property talks about is identical, so the library's own equality must agree
            try:
                eq = (g2 == g) is True and (g == g2) is True
            except Exception as e:
                eq = f"{type(e).__name__}: {e}"
            if eq is not True:
                rec.fail(f"C12/{route}/eq-operator-disagrees", describe(snap, route),
                         f"nodes, outputs, inputs and payloads are identical but Graph.__eq__ gives {eq!r}")
    return snap


# ------------------------------------------------------------------------------------------------------------------
# sub-space A: generic DAGs
# ------------------------------------------------------------------------------------------------------------------

# naming schemes: node names (topological position), input slot names, names of the two named outputs
SCHEMES = [
    {"id": "plain", "nodes": ["n0", "n1", "n2", "n3", "n4"], "inputs": ["x", "y"], "named2": ["a", "b"]},
    # node names equal to output names and input names (a swapped (parent, output) pair may still resolve)
    {"id": "clash", "nodes": ["a", "b", "0", "1", "x"], "inputs": ["0", "a"], "named2": ["b", "a"]},
    # empty name, dotted names, names that are prefixes of one another, non-identifier input names
    {"id": "dotted", "nodes": ["", "a.b", "a", "a.b.c", "a."], "inputs": ["", "in-1"], "named2": ["a.b", "b c"]},
    # names that are keys of the serialised form / attribute names of Node, non-ASCII
    {"id": "keys", "nodes": ["inputs", "outputs", "payload", "name", "ñλ"], "inputs": ["inputs", "node"], "named2": ["outputs", "payload"]},
]
for _s in SCHEMES:
    assert not (set(_s["inputs"]) & RESERVED_INPUT_NAMES) and len(set(_s["nodes"])) == len(_s["nodes"])

OUT_KINDS = ("none", "default", "named2", "num2")


def _outs(kind, scheme):
    """(constructor argument, resulting output names)"""
    if kind == "none":
        return [], []
    if kind == "default":
        return None, ["0"]
    if kind == "named2":
        return list(scheme["named2"]), list(scheme["named2"])
    if kind == "num2":
        return ["0", "1"], ["0", "1"]
    if kind == "mixed2":  # default output plus a named one
        return ["0", scheme["named2"][1]], ["0", scheme["named2"][1]]
    raise ValueError(kind)


def _nout(kind):
    return {"none": 0, "default": 1, "named2": 2, "num2": 2, "mixed2": 2}[kind]


def _enum_dags(n, kinds, max_inputs):
    """All n-node DAGs in topological labelling: node i = (kind, ((parent index, output index), ...))."""
    acc = []

    def rec(i, avail):
        if i == n:
            yield tuple(acc)
            return
        for kind in kinds:
            nxt = avail + [(i, o) for o in range(_nout(kind))]
            for k in range(0, max_inputs + 1):
                if k and not avail:
                    break
                for combo in itertools.product(avail, repeat=k):
                    acc.append((kind, combo))
                    yield from rec(i + 1, nxt)
                    acc.pop()

    yield from rec(0, [])


# payload palette: factories, so that every graph gets fresh objects
PAYLOADS_JSON = [
    lambda: None, lambda: 0, lambda: 1, lambda: -5, lambda: 2 ** 70, lambda: "", lambda: "p", lambda: "0", lambda: [], lambda: [0],
    lambda: [1, "a", None, [2, []]], lambda: {}, lambda: {"k": 1, "": [None]},
    lambda: {"outputs": [], "inputs": {"x": "n0"}, "payload": None},  # looks like a serialised node
    lambda: ["n0", "a"],  # looks like a serialised input reference
]
PAYLOADS_EXTRA = [
    lambda: (1, 2), lambda: [(1, "a")], lambda: 1.5, lambda: False, lambda: True, lambda: b"bytes", lambda: {1: "int key"}, lambda: frozenset({1, 2}),
    lambda: 1 + 2j, lambda: range(3), lambda: ((), {"t": (None,)}),
]
ROTATING = PAYLOADS_JSON + [PAYLOADS_EXTRA[0]]  # JSON-dumpable throughout, so the JSON route runs on every graph of sub-space A


def _build(env, dag, scheme, payload_of, sink_variant):
    """Build the graph with the real Node/Graph classes. Returns (graph, has_edge, terminal_with_outputs)."""
    Node = env.Node
    nodes, outs_names, consumed = [], [], set()
    for i, (kind, combo) in enumerate(dag):
        arg, names = _outs(kind, scheme)
        kwargs = {}
        for slot, (pi, oi) in enumerate(combo):
            oname = outs_names[pi][oi]
            consumed.add(pi)
            # a default output may be given as the node itself (alternate to exercise both spellings)
            if oname == "0" and (i + slot) % 2 == 0:
                kwargs[scheme["inputs"][slot]] = nodes[pi]
            else:
                kwargs[scheme["inputs"][slot]] = nodes[pi].get_output(oname)
        nodes.append(Node(scheme["nodes"][i], arg, payload_of(i), **kwargs))
        outs_names.append(names)
    terminals = [i for i in range(len(dag)) if i not in consumed]
    if sink_variant == 0:
        sinks = [nodes[i] for i in terminals]
    else:  # every node listed, in reverse order (the sink list is not part of what must be preserved)
        sinks = list(reversed(nodes))
    has_edge = bool(consumed)
    twout = any(dag[i][0] != "none" for i in terminals)
    return env.Graph(sinks), has_edge, twout


def _space_a(env, out, tier, deadline, part):
    """part 1: small graphs, fully crossed with naming schemes; part 2: the bulk layers (run last, may be cut by the time budget)."""
    t0 = time.time()
    rec = _Recorder("A")
    truncated = ""

    def describe_factory(dag, scheme, variant, shift):
        def describe(snap, route):
            return _describe(snap, None, space="A generic DAGs", route=route, scheme=scheme["id"], sink_variant=variant,
                             dag=[[k, [list(c) for c in combo]] for k, combo in dag], payload_shift=shift)
        return describe

    idx = 0
    K3 = ("none", "default", "mixed2")
    common = ("every node picks an output kind and 0..2 named inputs, each wired to any output of any earlier node (multi-edges, disconnected graphs, terminal "
              "nodes with and without outputs included)")
    if part == 1:
        name = "generic DAGs up to 3 nodes (dict / JSON / Cascade file)"
        if tier == "quick":
            plan = [(0, OUT_KINDS, 2, "all", 1), (1, OUT_KINDS, 2, "all", 1), (2, OUT_KINDS, 2, "all", 1), (3, OUT_KINDS, 2, "schemes", 1)]
            cross = "all 4 naming schemes (both sink listings for <= 2 nodes, sink listing alternating for 3 nodes)"
        else:
            plan = [(0, OUT_KINDS, 2, "all", 1), (1, OUT_KINDS, 2, "all", 1), (2, OUT_KINDS, 2, "all", 1), (3, OUT_KINDS, 2, "all", 1)]
            cross = "all 4 naming schemes x both sink listings"
        bound = (f"all DAGs with 0..3 nodes in topological labelling; {common}; 4 output kinds (none / default / 2 named / '0','1'); crossed with {cross}; "
                 "all three routes on every graph; plus the default-constructed Cascade() (empty graph)")
    else:
        name = "generic DAGs with 4" + ("" if tier == "quick" else " and 5") + " nodes (dict / JSON / Cascade file)"
        if tier == "quick":
            plan = [(4, K3, 2, "rotate", 64)]
            bound = (f"all 4-node DAGs in topological labelling; {common}; 3 output kinds (none / default / default '0' plus one named output); naming scheme and sink listing rotate with the "
                     "case index; dict and JSON routes on every graph, Cascade file route on every 64th")
        else:
            plan = [(4, OUT_KINDS, 2, "rotate", 16), (5, ("none", "default"), 2, "rotate", 16), (5, OUT_KINDS, 1, "rotate", 16)]
            bound = (f"all 4-node DAGs in topological labelling; {common}; 4 output kinds (none / default / 2 named / '0','1'); then all 5-node DAGs with output kinds "
                     "{none, default} and 0..2 inputs, and all 5-node DAGs with 4 output kinds and 0..1 inputs; naming scheme and sink listing rotate with the case "
                     "index; dict and JSON routes on every graph, Cascade file route on every 16th")
    bound += "; payloads rotate through a palette of %d values (every third graph: one payload for all its nodes); non-trivial = the graph has at least one edge" % len(ROTATING)
    for n, kinds, max_inputs, mode, stride in plan:
        for dag in _enum_dags(n, kinds, max_inputs):
            if mode == "all":
                combos = [(s, v) for s in range(len(SCHEMES)) for v in (0, 1)]
            elif mode == "schemes":
                combos = [(s, (idx + s) % 2) for s in range(len(SCHEMES))]
            else:
                combos = [(idx % len(SCHEMES), (idx // len(SCHEMES)) % 2)]
            for s, v in combos:
                idx += 1
                scheme = SCHEMES[s]
                shift = idx
                # every third graph gives all its nodes the same payload (structurally identical twins must stay distinct nodes)
                step = 0 if idx % 3 == 0 else 5
                g, has_edge, twout = _build(env, dag, scheme, lambda i, shift=shift, step=step: ROTATING[(shift + step * i) % len(ROTATING)](), v)
                routes = ("dict", "json", "cascade") if idx % stride == 0 else ("dict", "json")
                sinks = [x.name for x in g.sinks]
                snap = _check_graph(env, rec, g, describe_factory(dag, scheme, v, shift), routes, payload_plain=True)
                assert snap is not None, "generated names are unique by construction"
                rec.cases += 1
                rec.nontrivial += 1 if has_edge else 0
                if len(rec.samples) < 2 and len(dag) >= 2 and len(dag[-1][1]) == 2 and dag[-1][0] != "none" and idx % 97 == len(rec.samples):
                    rec.samples.append(_describe(snap, sinks, scheme=scheme["id"]))
            if idx % 256 == 0 and time.time() > deadline:
                truncated = f"; TRUNCATED by the time budget inside the {n}-node layer after {rec.cases} cases"
                break
        if truncated:
            break
    if part == 1:
        # the empty graph once more, through a default-constructed Cascade object
        try:
            fn = os.path.join(env.tmp, "empty.dill")
            env.Cascade().serialise(fn)
            g2 = env.Cascade.from_serialised(fn)._graph
            for kind, detail in _compare({}, g2, True):
                rec.fail(f"C12/cascade/{kind}", {"space": "A generic DAGs", "graph": "Cascade() (empty)"}, detail)
        except Exception as e:
            rec.fail("C12/cascade/raises", {"space": "A generic DAGs", "graph": "Cascade() (empty)"}, f"{type(e).__name__}: {e}")
        rec.cases += 1
    out.add_bounded(name, "exhaustive enumeration", bound + truncated, rec.cases, rec.nontrivial,
                    time.time() - t0, rec.samples, rec.failure_list())


# ------------------------------------------------------------------------------------------------------------------
# sub-space B: payloads
# ------------------------------------------------------------------------------------------------------------------


def _space_b(env, out, tier):
    t0 = time.time()
    rec = _Recorder("B")
    palette = PAYLOADS_JSON + PAYLOADS_EXTRA
    Node, Graph = env.Node, env.Graph
    scheme = SCHEMES[0]

    def describe(snap, route):
        return _describe(snap, None, space="B payloads", route=route)

    # single node
    for kind in OUT_KINDS:
        for pi, pf in enumerate(palette):
            arg, _ = _outs(kind, scheme)
            g = Graph([Node("n0", arg, pf())])
            _check_graph(env, rec, g, describe, ("dict", "json", "cascade"))
            rec.cases += 1
    # parent -> child, every pair of payloads, every output kind of the terminal node, every output of the parent
    for pkind in ("default", "named2", "num2"):
        arg_p, names_p = _outs(pkind, scheme)
        for oname in names_p:
            for ckind in OUT_KINDS:
                arg_c, _ = _outs(ckind, scheme)
                for (i, pf), (j, cf) in itertools.product(enumerate(palette), repeat=2):
                    if tier == "quick" and pkind != "default" and (i + j) % 3:
                        continue
                    parent = Node("n0", list(arg_p) if arg_p is not None else None, pf())
                    child = Node("n1", list(arg_c) if arg_c is not None else None, cf(), x=parent.get_output(oname))
                    g = Graph([child])
                    snap = _check_graph(env, rec, g, describe, ("dict", "json", "cascade"))
                    rec.cases += 1
                    rec.nontrivial += 1
                    if len(rec.samples) < 2 and i == 10 + len(rec.samples) and j == 12:
                        rec.samples.append(_describe(snap, ["n1"]))
    thin = " (pairs thinned to every third for the parent kinds with two outputs)" if tier == "quick" else ""
    out.add_bounded("payload palette on 1- and 2-node graphs", "exhaustive enumeration",
                    f"single node x 4 output kinds x {len(palette)} payloads; parent->child x 3 parent kinds x each parent output x 4 child kinds x all "
                    f"{len(palette)}^2 payload pairs{thin}; palette = None, ints (0, negative, 2**70), strings ('' and '0' included), nested lists/dicts, "
                    "dicts that look like serialised nodes, plus values outside the JSON clause (tuples, float, bool, bytes, int-keyed dict, frozenset, complex, range) "
                    "which are compared on the dict route, on the Cascade route when dill reproduces them, and never on the JSON route; "
                    "non-trivial = 2-node graphs", rec.cases, rec.nontrivial, time.time() - t0, rec.samples, rec.failure_list())


# ------------------------------------------------------------------------------------------------------------------
# sub-space C: payloads with a serialise method + node factory that inverts it
# ------------------------------------------------------------------------------------------------------------------


class _Ser:
    """A payload whose serialised form differs from itself (Node.serialise calls .serialise())."""

    def __init__(self, v):
        self.v = v

    def serialise(self):
        return {"_Ser": self.v}

    def __eq__(self, other):
        return isinstance(other, _Ser) and _strict_eq(other.v, self.v)

    def __hash__(self):
        return 0

    def __repr__(self):
        return f"_Ser({self.v!r})"


def _space_c(env, out, tier):
    t0 = time.time()
    rec = _Recorder("C")
    Node, Graph, export = env.Node, env.Graph, env.export

    class MyNode(Node):
        pass

    def factory(name, outputs, payload, **inputs):
        if isinstance(payload, dict) and set(payload) == {"_Ser"}:
            payload = _Ser(payload["_Ser"])
        return MyNode(name, outputs, payload, **inputs)

    values = [None, 0, "", "v", [1, "a"], {"k": [None]}]
    n_max = 3
    idx = 0
    for n in range(1, n_max + 1):
        for dag in _enum_dags(n, OUT_KINDS, 2 if n < 3 else 1):
            idx += 1
            scheme = SCHEMES[idx % len(SCHEMES)]
            g, has_edge, _ = _build(env, dag, scheme, lambda i, idx=idx: (_Ser(values[(idx + i) % len(values)]) if (idx + i) % 4 else values[(idx + i) % len(values)]), idx % 2)
            snap, _ = _snapshot(g.sinks)
            inputs = _describe(snap, None, space="C node factory", scheme=scheme["id"])
            for route in ("dict+factory", "json+factory"):
                try:
                    if route == "dict+factory":
                        g2 = export.deserialise(export.serialise(g), node_factory=factory)
                    else:
                        g2 = export.deserialise(json.loads(export.to_json(g)), node_factory=factory)
                    problems = _compare(snap, g2, True)
                except Exception as e:
                    problems = [("raises", f"{type(e).__name__}: {e}")]
                for kind, detail in problems:
                    rec.fail(f"C12/{route}/{kind}", dict(inputs, route=route), detail)
            rec.cases += 1
            rec.nontrivial += 1 if has_edge else 0
            if len(rec.samples) < 2 and has_edge and n == 2 + len(rec.samples):
                rec.samples.append(inputs)
    out.add_bounded("payloads with a serialise method, read back through a node factory", "exhaustive enumeration",
                    "all DAGs with <= 2 nodes (0..2 inputs) and all 3-node DAGs with 0..1 inputs x 4 output kinds; payloads are objects whose .serialise() returns "
                    "{'_Ser': v} (every 4th node keeps a plain payload), naming scheme and sink listing rotate; deserialise is given a node factory that rebuilds the "
                    "object (dict route and JSON text route); non-trivial = at least one edge", rec.cases, rec.nontrivial, time.time() - t0, rec.samples, rec.failure_list())


# ------------------------------------------------------------------------------------------------------------------
# sub-space D: graphs built by fluent programs
# ------------------------------------------------------------------------------------------------------------------


def _fluent_env():
    import math
    import operator

    import numpy as np
    from earthkit.workflows import fluent

    def src1():
        return fluent.from_source(np.array([math.sqrt, math.floor, math.ceil]), dims=["x"])

    def src2():
        return fluent.from_source(np.array([[math.sin, math.cos], [math.tan, math.exp]]), dims=["x", "y"])

    def src3():  # generator sources: every node declares two outputs, the action holds Output references
        return fluent.from_source(np.array([math.log, math.fabs]), yields=("z", [0, 1]), dims=["x"])

    def first(a):
        return str(a.nodes.dims[0])

    def last(a):
        return str(a.nodes.dims[-1])

    ops = {
        "map": lambda a: a.map(operator.neg),
        "map_yields2": lambda a: a.map(divmod, yields=("w", ["q", "r"])),
        "map_payload": lambda a: a.map(fluent.Payload(round, ["input0", 2], {"k": [1, "a"]})),
        "sum": lambda a: a.sum(),
        "mean_last": lambda a: a.mean(dim=last(a)),
        "max_batch2": lambda a: a.max(batch_size=2),
        "expand2": lambda a: a.expand("e", 0, dim_size=2),
        "add_scalar": lambda a: a.add(2.0),
        "subtract_action": lambda a: a.subtract(a.map(operator.abs)),
        "broadcast": lambda a: a.broadcast(src2()),
        "select_first": lambda a: a.select({first(a): a.nodes.coords[first(a)].data[0]}),
        "isel_last": lambda a: a.isel({last(a): -1}),
        "stack": lambda a: a.stack(first(a)),
        "concatenate_last": lambda a: a.concatenate(last(a)),
        "flatten": lambda a: a.flatten(),
        "join": lambda a: a.join(a.map(operator.pos), "j"),
    }
    return {"src1": src1, "src2": src2, "src3": src3}, ops


def _surrogate_graph(env, g):
    """Same names / outputs / inputs as `g`, payloads replaced by a JSON-faithful description (for the JSON route)."""
    Node = env.Node
    built = {}
    order = []
    # topological order by own DFS
    state = {}
    nodes = _own_nodes(g.sinks)

    def visit(n):
        stack = [(n, iter(list(n.inputs.values())))]
        state[id(n)] = 1
        while stack:
            cur, it = stack[-1]
            for src in it:
                p = src.parent
                if id(p) not in state:
                    state[id(p)] = 1
                    stack.append((p, iter(list(p.inputs.values()))))
                    break
            else:
                order.append(cur)
                stack.pop()

    for n in nodes:
        if id(n) not in state:
            visit(n)
    for n in order:
        payload = n.payload
        if isinstance(payload, tuple) and len(payload) == 3:
            payload = {"func": getattr(payload[0], "__name__", "?"), "args": [a if _json_faithful(a) else repr(a) for a in payload[1]],
                       "kwargs": {str(k): (v if _json_faithful(v) else repr(v)) for k, v in payload[2].items()}}
        else:
            payload = repr(payload)
        built[id(n)] = Node(n.name, list(n.outputs), payload, **{k: built[id(s.parent)].get_output(s.name) for k, s in n.inputs.items()})
    return env.Graph([built[id(s)] for s in g.sinks])


def _space_d(env, out, tier, deadline):
    t0 = time.time()
    rec = _Recorder("D")
    sources, ops = _fluent_env()
    max_len = 2 if tier == "quick" else 3
    rejected = dup_names = 0
    truncated = ""
    from earthkit.workflows import Cascade

    def run_program(sname, prog):
        a = sources[sname]()
        for op in prog:
            a = ops[op](a)
        return a

    for sname in sources:
        for length in range(0, max_len + 1):
            for prog in itertools.product(ops, repeat=length):
                if time.time() > deadline:
                    truncated = f"; TRUNCATED by the time budget at source {sname}, program length {length}, after {rec.cases} graphs"
                    break
                try:
                    action = run_program(sname, prog)
                    graphs = [("graph()", action.graph())]
                    if (rec.cases + rejected) % 5 == 0:
                        # several actions put together (this de-duplicates shared nodes)
                        graphs.append(("Cascade.from_actions([program, source.map])", Cascade.from_actions([action, sources[sname]().map(abs)])._graph))
                except Exception:
                    rejected += 1  # the fluent API refused the program (dimension does not exist, not batchable, ...): not a C12 matter
                    continue
                for how, g in graphs:
                    def describe(snap, route, how=how):
                        return {"space": "D fluent programs", "source": sname, "program": list(prog), "graph": how, "route": route,
                                "nodes": len(snap), "node_names": sorted(snap)[:6]}
                    try:
                        gj = _surrogate_graph(env, g)
                        n_sinks_out = sum(1 for x in g.sinks if x.outputs)
                    except Exception:
                        gj, n_sinks_out = None, -1
                    snap = _check_graph(env, rec, g, describe, ("dict", "cascade"))
                    if snap is None:
                        dup_names += 1
                        continue
                    if gj is not None:
                        _check_graph(env, rec, gj, lambda snap, route, how=how: {"space": "D fluent programs (JSON-faithful surrogate payloads)", "source": sname,
                                                                                  "program": list(prog), "graph": how, "route": route, "nodes": len(snap)}, ("json",))
                    rec.cases += 1
                    rec.nontrivial += 1 if any(ins for _, ins, _ in snap.values()) else 0
                    if len(rec.samples) < 3 and length == len(rec.samples) and length > 0 or (len(rec.samples) == 0 and length == 1):
                        rec.samples.append({"source": sname, "program": list(prog), "graph": how, "nodes": len(snap), "sinks_with_outputs": n_sinks_out})
            if truncated:
                break
        if truncated:
            break
    out.add_bounded("graphs built by fluent programs (dict / Cascade file, JSON on surrogate payloads)", "exhaustive enumeration",
                    f"every sequence of <= {max_len} operations out of {len(ops)} ({', '.join(ops)}) applied to each of 3 sources (1-D of 3 nodes, 2x2, 1-D generator source "
                    f"with 2 outputs per node); graph of the resulting action, and for every 5th program Cascade.from_actions of the action and a second action; "
                    f"{rejected} programs were refused by the fluent API itself and {dup_names} graphs skipped because node names were not unique (outside the property); "
                    "all sinks of these graphs declare outputs; non-trivial = at least one edge" + truncated,
                    rec.cases, rec.nontrivial, time.time() - t0, rec.samples, rec.failure_list())


# ------------------------------------------------------------------------------------------------------------------
# sub-space E: seeded random larger DAGs
# ------------------------------------------------------------------------------------------------------------------

NAME_POOL = ["n%d" % i for i in range(12)] + ["", "0", "1", "a", "b", "a.b", "a.b.c", "a.", ".", "inputs", "outputs", "payload", "name", "x", "y", "n 1", "n:1",
                                               "ñ", "λλ", "[]", "{}", "null", "\"q\"", "back\\slash", "new\nline", "A" * 300]
INPUT_POOL = ["x", "y", "z", "0", "1", "", "a", "inputs", "node", "in-1", "input0", "input1", "kwargs", "é", "a.b"]
OUTPUT_POOL = ["0", "1", "2", "a", "b", "out", "a.b", "", "outputs", "inputs", "payload", "name", "x y", "ø"]


def _random_payload(rng, depth=0, jsonish=True):
    r = rng.random()
    if depth > 2 or r < 0.45:
        return rng.choice([None, 0, 1, -1, 2 ** 40, "", "s", "0", "n0"])
    if not jsonish and r < 0.6:
        return rng.choice([(1, 2), 1.25, True, b"b", frozenset({3}), ()])
    if r < 0.8:
        return [_random_payload(rng, depth + 1, jsonish) for _ in range(rng.randint(0, 3))]
    return {rng.choice(["", "k", "inputs", "outputs", "payload", "0"]): _random_payload(rng, depth + 1, jsonish) for _ in range(rng.randint(0, 3))}


def _space_e(env, out, tier, seed, deadline):
    t0 = time.time()
    rec = _Recorder("E")
    rng = random.Random(seed)
    count = 400 if tier == "quick" else 6000
    Node, Graph = env.Node, env.Graph
    truncated = ""
    for case in range(count):
        if time.time() > deadline:
            truncated = f"; TRUNCATED by the time budget after {rec.cases} graphs"
            break
        n = rng.randint(5, 9)
        names = rng.sample(NAME_POOL, n)
        jsonish = rng.random() < 0.6
        nodes, avail, consumed = [], [], set()
        for i in range(n):
            r = rng.random()
            if r < 0.2:
                arg = []
            elif r < 0.5:
                arg = None
            else:
                arg = rng.sample(OUTPUT_POOL, rng.randint(1, 3))
            k = rng.randint(0, min(3, len(avail))) if avail else 0
            inames = rng.sample(INPUT_POOL, k)
            kwargs = {}
            for iname in inames:
                pi, oname = rng.choice(avail)
                consumed.add(pi)
                kwargs[iname] = nodes[pi] if (oname == "0" and rng.random() < 0.5) else nodes[pi].get_output(oname)
            node = Node(names[i], arg, _random_payload(rng, 0, jsonish), **kwargs)
            nodes.append(node)
            avail.extend((i, o) for o in node.outputs)
        terminals = [nodes[i] for i in range(n) if i not in consumed]
        rng.shuffle(terminals)
        extra = [nd for nd in nodes if rng.random() < 0.15]  # sinks may be listed twice / non-terminal nodes may be listed
        g = Graph(terminals + extra)

        def describe(snap, route, sinks=[s.name for s in g.sinks]):
            return _describe(snap, sinks, space="E seeded random", route=route, seed=seed, case=case)
        sinks = [s.name for s in g.sinks]
        snap = _check_graph(env, rec, g, describe, ("dict", "json", "cascade"))
        rec.cases += 1
        rec.nontrivial += 1 if consumed else 0
        if len(rec.samples) < 1:
            rec.samples.append(_describe(snap, sinks))
    out.add_bounded("seeded random larger DAGs (dict / JSON / Cascade file)", "seeded random",
                    f"{count} random DAGs (random.Random({seed})) with 5..9 nodes, 0..3 inputs per node wired to any output of an earlier node, outputs: none / default / "
                    "1..3 named out of an adversarial pool, unique node names out of an adversarial pool (empty, dotted, quotes, newline, 300 characters, non-ASCII), "
                    "nested payloads (60% of graphs JSON-faithful throughout), sink list shuffled with redundant entries; non-trivial = at least one edge" + truncated,
                    rec.cases, rec.nontrivial, time.time() - t0, rec.samples, rec.failure_list())


# ------------------------------------------------------------------------------------------------------------------


def run(out, tier, seed):
    start = time.time()
    quick = tier == "quick"
    total = 48.0 if quick else 780.0  # seconds this file allows itself (limit: 60 s / 15 min)
    env = _Env()
    try:
        # the small, fully crossed spaces first; the bulk layer of sub-space A last (it is the one the time budget may cut)
        _space_a(env, out, tier, start + total * 0.4, 1)
        _space_b(env, out, tier)
        _space_c(env, out, tier)
        _space_e(env, out, tier, seed, start + total * 0.5)
        _space_d(env, out, tier, start + total * (0.7 if quick else 0.6))
        _space_a(env, out, tier, start + total, 2)
    finally:
        env.close()
