"""C04 - bounded exploration of the real controller (see checks/ctrlx.py) plus proved per-function obligations."""
from checks import common, ctrl_common

PROVED_TARGETS = ['cascade.controller.notify:consider_purge', 'cascade.controller.notify:consider_fetch', 'cascade.controller.notify:is_last_output_of',
                  'cascade.executor.bridge:Bridge.transmit', 'cascade.executor.bridge:Bridge.fetch', 'cascade.executor.bridge:Bridge.purge', 'cascade.executor.bridge:Bridge.task_sequence']


def run(tier, seed):
    out = common.Outcome("C04", tier, seed)
    if PROVED_TARGETS:
        out.add_pyvc(common.pyvc_run(PROVED_TARGETS, timeout_ms=10000 if tier == "quick" else 60000))
    ctrl_common.explore(out, "C04", tier, seed)
    out.assumptions += ctrl_common.ASSUMPTIONS
    return out.finish("exploration", rule="see bounded_standins[].bound", explanation="real controller.impl.run + scheduler + worker-side execute_sequence/run/Memory against a simulated cluster; monitors computed from traffic and simulator ground truth")
