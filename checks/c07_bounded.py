"""Bounded stand-in for C07: two REAL DataServer objects (real recv_loop / send_payload / store_payload / maybe_clean, real
Listener, real send_data) over the adversarial in-memory network of c06_bounded, a fake shm client per host, and a thread
pool whose jobs run when the adversary says so (so that `wait(..)` and purge races are explored deterministically).
"""
from __future__ import annotations

import random
import time
from concurrent.futures import ALL_COMPLETED, FIRST_COMPLETED, Future

from checks import c06_bounded as net_mod


class Stop(BaseException):
    pass


class ConflictError(Exception):
    pass


class Buf:
    def __init__(self, store, key, l, deser_fun, create):
        self.store, self.key, self.l, self.deser_fun, self.create = store, key, l, deser_fun, create
        self.data = bytearray(l) if create else None
        self.closed = False
        if not create:
            store["__reads__"] = store.get("__reads__", 0) + 1

    def view(self):
        if self.create:
            return memoryview(self.data)
        if self.key not in self.store:
            raise ValueError("shm segment vanished while being read")
        return memoryview(self.store[self.key][0])

    def close(self):
        if self.closed:
            return
        self.closed = True
        if self.create:
            self.store[self.key] = (bytes(self.data), self.deser_fun)
        else:
            self.store["__reads__"] -= 1


class Shm:
    ConflictError = ConflictError

    def __init__(self):
        self.store = None
        self.purged_while_reading = []

    def allocate(self, key, l, deser_fun, timeout_sec=60.0):
        if key in self.store:
            raise ConflictError()
        return Buf(self.store, key, l, deser_fun, True)

    def get(self, key, timeout_sec=60.0):
        if key not in self.store:
            raise KeyError(f"no such dataset {key}")
        return Buf(self.store, key, len(self.store[key][0]), self.store[key][1], False)

    def purge(self, key):
        if self.store.get("__reads__", 0) > 0:
            self.purged_while_reading.append(key)
        self.store.pop(key, None)


class DeferredPool:
    """jobs run when `run_some` is called (by wait(), or by the adversary between loop iterations)"""

    def __init__(self, rng):
        self.pending = []  # (future, fn, args)
        self.rng = rng
        self.in_job = False
        self.late_completion = rng.random() < 0.5  # half of the scenarios: jobs may also finish between two polls

    def submit(self, fn, *args):
        pool = self

        class PoolFuture(Future):
            """a job of the real pool finishes at an arbitrary instant - also BETWEEN two polls of one maybe_clean pass: here, sometimes,
            right after a done() that still answered False"""

            def done(self):
                r = Future.done(self)
                if not r and not pool.in_job and pool.late_completion and pool.rng.random() < 0.3:
                    for i, (f, _, _) in enumerate(pool.pending):
                        if f is self:
                            pool.run_one(i)
                            break
                return r
        f = PoolFuture()
        self.pending.append((f, fn, args))
        return f

    def run_one(self, idx=None):
        if not self.pending:
            return False
        i = self.rng.randrange(len(self.pending)) if idx is None else idx
        f, fn, args = self.pending.pop(i)
        self.in_job = True
        try:
            f.set_result(fn(*args))
        except BaseException as e:  # noqa
            f.set_exception(e)
        finally:
            self.in_job = False
        return True


def build_server(comms, host, stores, shm, pool, clock):
    import cascade.executor.data_server as dsm
    s = object.__new__(dsm.DataServer)
    s.host, s.maddress, s.daddress = host, f"M.{host}", f"D.{host}"
    real = comms.Listener(s.daddress)

    class OneShot:
        address = real.address

        def __init__(self):
            self.calls = 0

        def recv_messages(self, timeout_ms=0):
            if self.calls > 0:
                raise Stop()
            self.calls += 1
            return real.recv_messages(0)
    s._real_listener = real
    s._oneshot = OneShot
    s.dlistener = OneShot()
    s.terminating = False
    s.cap = 2
    s.ds_proc_tp = pool
    s.futs_in_progress, s.awaiting_confirmation, s.invalid, s.acks = {}, {}, set(), set()
    return s


def scenario(seed, tier):
    import cascade.executor.data_server as dsm
    from cascade.executor.msg import Ack, DatasetPublished, DatasetPurge, DatasetTransmitCommand, DatasetTransmitFailure, DatasetTransmitPayload
    from cascade.executor.runner.memory import ds2shmid
    from cascade.executor.serde import ser_message
    from cascade.low.core import DatasetId
    rng = random.Random(seed)
    net = net_mod.Net()
    comms = net_mod.install(net)
    net_mod.FakePoller.hook = None
    hosts = ["h1", "h2"]
    stores = {h: {} for h in hosts}
    shm = Shm()
    pools = {h: DeferredPool(rng) for h in hosts}
    clock = [10 ** 12]
    dsm.time_ns = lambda: net.now
    dsm.shm_client = shm
    dsm.callback = comms.callback
    dsm.send_data = comms.send_data
    dsm.mark = lambda *a, **k: None
    cur = [None]

    def wait(futs, return_when=ALL_COMPLETED, timeout=None):
        futs = list(futs)
        pool = pools[cur[0]]
        if return_when == ALL_COMPLETED:
            while any(not f.done() for f in futs) and pool.pending:
                pool.run_one()
        else:
            if not any(f.done() for f in futs) and pool.pending:
                pool.run_one()
        return None
    dsm.wait = wait
    servers = {h: build_server(comms, h, stores, shm, pools[h], clock) for h in hosts}
    for h in hosts:
        net.inbox.setdefault(f"M.{h}", [])
    ctrl = net_mod.Endpoint(comms, "C")
    for h in hosts:
        ctrl.sender.add_host("data." + h, f"D.{h}")
    # datasets initially at h1
    dss = [DatasetId("t", str(i)) for i in range(3)]
    content = {}
    for i, ds in enumerate(dss):
        b = bytes([(i * 31 + k) % 256 for k in range(5 + i)])
        stores["h1"][ds2shmid(ds)] = (b, f"des{i}")
        content[ds] = (b, f"des{i}")
    # script of controller / executor actions
    n_cmds = rng.randint(1, 4)
    script = []
    idx = 0
    purged = {h: set() for h in hosts}
    for _ in range(n_cmds):
        ds = rng.choice(dss)
        kind = rng.choice(["transmit", "transmit", "fetch", "purge_src", "purge_tgt"])
        if kind in ("transmit", "fetch"):
            script.append((kind, ds, idx))
            idx += 1
        else:
            script.append((kind, ds, None))
    faults, max_faults = [], rng.randint(0, 5)
    p_drop, p_dup = rng.choice([0, 0.25, 0.4]), rng.choice([0, 0.2])
    commanded = []  # (kind, ds, idx, time order)
    fail_msgs = []
    announced = {h: [] for h in hosts}
    order = []  # what happened, for the report

    def run_server(h):
        cur[0] = h
        shm.store = stores[h]
        s = servers[h]
        s.dlistener = s._oneshot()
        try:
            s.recv_loop()
        except Stop:
            pass

    def pump_net():
        i = rng.randrange(len(net.wire))
        dest, frames = net.wire.pop(i)
        r = rng.random()
        is_data = len(frames) >= 2
        # faults hit inter-host traffic only (payload frames, confirmations, commands); a host's local messages
        # (data server -> its executor, executor -> its data server) are not in the property's fault model
        inter_host = dest.startswith(("D.", "C"))
        if inter_host and len(faults) < max_faults and r < p_drop:
            faults.append(("drop", dest, len(frames)))
        elif inter_host and len(faults) < max_faults and r < p_drop + p_dup:
            faults.append(("dup", dest, len(frames)))
            net.inbox.setdefault(dest, []).append(list(frames))
            net.inbox[dest].append(list(frames))
        else:
            net.inbox.setdefault(dest, []).append(frames)

    problems = []
    purge_time = {}
    for step in range(600):
        choices = []
        if script:
            choices.append("script")
        if net.wire:
            choices += ["net", "net"]
        choices += ["h1", "h2", "ctrl", "tick"]
        for h in hosts:
            if pools[h].pending:
                choices.append("job." + h)
        c = rng.choice(choices)
        if c == "script" and script[0][0].startswith("purge") and rng.random() < 0.85:
            c = "tick" if rng.random() < 0.1 else rng.choice(["net", "h1", "h2"]) if net.wire else rng.choice(["h1", "h2"])  # purges come late: let transfers progress
        if c == "script":
            kind, ds, i = script.pop(0)
            order.append((kind, repr(ds), i))
            if kind == "transmit":
                if ds in purged["h1"] or ds in purged["h2"]:
                    continue  # the controller never transfers a dataset it dropped (C04)
                ctrl.sender.send("data.h1", DatasetTransmitCommand(source="h1", target="h2", daddress="D.h2", ds=ds, idx=i))
                commanded.append(("transmit", ds, i))
            elif kind == "fetch":
                if ds in purged["h1"]:
                    continue
                ctrl.sender.send("data.h1", DatasetTransmitCommand(source="h1", target="controller", daddress="C", ds=ds, idx=i))
                commanded.append(("fetch", ds, i))
            elif kind == "purge_src":
                # the controller purges only when nothing it commanded from that host is outstanding: model that by purging
                # the source only when no command for ds has been issued yet
                if any(d == ds for _, d, _ in commanded):
                    continue
                net.inbox["D.h1"].append([ser_message(DatasetPurge(ds))])  # local message: delivered as is
                purged["h1"].add(ds)
            else:
                net.inbox["D.h2"].append([ser_message(DatasetPurge(ds))])
                purged["h2"].add(ds)
                purge_time[ds] = len(order)
        elif c == "net":
            pump_net()
        elif c in hosts:
            run_server(c)
        elif c == "ctrl":
            ctrl.step()
        elif c.startswith("job."):
            h = c[4:]
            cur[0] = h
            shm.store = stores[h]
            pools[h].run_one()
        else:
            net.now += 4_100 * 1_000_000
        if not script and not net.wire and not any(pools[h].pending for h in hosts) and not ctrl.sender.inflight \
                and not any(servers[h].awaiting_confirmation for h in hosts) and not any(net.inbox.get(f"D.{h}") for h in hosts) and step > 30:
            break
    # quiesce, no more faults
    for _ in range(80):
        while net.wire:
            dest, frames = net.wire.pop(0)
            net.inbox.setdefault(dest, []).append(frames)
        for h in hosts:
            cur[0] = h
            shm.store = stores[h]
            while pools[h].pending:
                pools[h].run_one(0)
            run_server(h)
        ctrl.step()
        net.now += 4_100 * 1_000_000
    if ctrl.raised:
        return [], {"seed": seed, "note": "controller sender raised (retries exhausted)"}, False
    # what reached the executors / the controller
    from cascade.executor.serde import des_message
    for h in hosts:
        for frames in net.inbox.get(f"M.{h}", []):
            m = des_message(frames[0])
            if isinstance(m, DatasetPublished):
                announced[h].append(m)
            elif isinstance(m, DatasetTransmitFailure):
                fail_msgs.append((h, m.detail))
    payloads_at_ctrl = [m for m in ctrl.delivered if isinstance(m, DatasetTransmitPayload)]
    desc = {"seed": seed, "script": order, "faults": faults}
    transmitted = {ds for k, ds, i in commanded if k == "transmit"}
    for ds in transmitted:
        key = ds2shmid(ds)
        was_purged_tgt = ds in purged["h2"]
        if not was_purged_tgt:
            if key not in stores["h2"]:
                problems.append(("C07/target-holds-one-identical-copy", f"{ds!r}: transfer commanded, nothing stored at the target (failures: {fail_msgs})"))
            elif stores["h2"][key] != content[ds]:
                problems.append(("C07/target-holds-one-identical-copy", f"{ds!r}: target holds {stores['h2'][key]!r}, source had {content[ds]!r}"))
            n = sum(1 for m in announced["h2"] if m.ds == ds)
            if n != 1:
                problems.append(("C07/arrival-announced-exactly-once", f"{ds!r}: announced {n} times at the target (transfers commanded: {sum(1 for k, d, i in commanded if d == ds and k == 'transmit')})"))
        else:
            # payloads arriving after the purge must not resurrect the dataset
            if key in stores["h2"]:
                late = [m for m in announced["h2"] if m.ds == ds]
                # stored before the purge and purged, then stored again? only a violation if present at the end
                problems.append(("C07/no-resurrection-after-purge", f"{ds!r} is present at the target although it was purged there (announcements: {len(late)})"))
    for k, ds, i in commanded:
        if k == "fetch":
            got = [m for m in payloads_at_ctrl if m.header.ds == ds and m.header.confirm_idx == i]
            if len(got) != 1:
                problems.append(("C07/fetch-delivers-same-bytes", f"fetch#{i} of {ds!r}: controller received {len(got)} payloads (failures: {fail_msgs})"))
            elif (bytes(got[0].value), got[0].header.deser_fun) != content[ds]:
                problems.append(("C07/fetch-delivers-same-bytes", f"fetch#{i} of {ds!r}: bytes/decoder differ from the source"))
    if shm.purged_while_reading:
        problems.append(("C07/purge-waits-for-reads", f"shm purge of {shm.purged_while_reading} while a read of the store was in progress"))
    for h, d in fail_msgs:
        if "no such dataset" in d or "vanished" in d:
            problems.append(("C07/purge-waits-for-reads", f"{h}: a transfer commanded before the purge failed because the dataset was already gone: {d[:160]}"))
    return problems, desc, bool(faults) or len(order) > 1


def run(out, tier, seed):
    t0 = time.time()
    budget = 30 if tier == "quick" else 360
    cases, nontrivial, failures, samples, seen = 0, 0, [], [], set()
    i = 0
    while time.time() - t0 < budget:
        sd = seed * 1_000_003 + i
        i += 1
        try:
            problems, desc, nt = scenario(sd, tier)
        except Exception as e:  # noqa
            import traceback
            problems, desc, nt = [("C07/data-server-raised", f"{type(e).__name__}: {e} | {traceback.format_exc().splitlines()[-4:]}")], {"seed": sd}, True
        cases += 1
        nontrivial += 1 if nt else 0
        if len(samples) < 2 and nt and not problems:
            samples.append(desc)
        for ob, what in problems:
            if ob in seen:
                continue
            seen.add(ob)
            failures.append({"obligation": ob, "inputs": desc, "observed": what[:500], "class": "other", "clause": ob})
    out.add_bounded("data server transfers under loss/duplication/purge races", "seeded random adversary",
                    f"two real DataServers (h1 source, h2 target) + controller endpoint; scripts of 1..4 commands over 3 datasets (transmit / fetch / purge at source / purge at target), "
                    f"<= 5 frame faults (drop p<=.4, duplicate p<=.2), pool jobs and loop iterations interleaved arbitrarily, 4.1 s clock ticks; {budget}s budget; non-trivial = a fault or >= 2 commands",
                    cases, nontrivial, time.time() - t0, samples, failures)
