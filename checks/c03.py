"""C03 - bounded exploration of the real controller (see checks/ctrlx.py) plus proved per-function obligations."""
from checks import common, ctrl_common

PROVED_TARGETS = ['cascade.scheduler.core:has_awaitable', 'cascade.scheduler.core:has_computable', 'cascade.controller.impl:run']


def run(tier, seed):
    out = common.Outcome("C03", tier, seed)
    if PROVED_TARGETS:
        out.add_pyvc(common.pyvc_run(PROVED_TARGETS, timeout_ms=10000 if tier == "quick" else 60000))
    ctrl_common.explore(out, "C03", tier, seed)
    out.assumptions += ctrl_common.ASSUMPTIONS
    return out.finish("exploration", rule="see bounded_standins[].bound", explanation="real controller.impl.run + scheduler + worker-side execute_sequence/run/Memory against a simulated cluster; monitors computed from traffic and simulator ground truth")
