"""C02 - bounded exploration of the real controller (see checks/ctrlx.py) plus proved per-function obligations."""
from checks import common, ctrl_common

PROVED_TARGETS = ['cascade.controller.notify:is_last_output_of', 'cascade.controller.act:act']


def run(tier, seed):
    out = common.Outcome("C02", tier, seed)
    if PROVED_TARGETS:
        out.add_pyvc(common.pyvc_run(PROVED_TARGETS, timeout_ms=10000 if tier == "quick" else 60000))
    ctrl_common.explore(out, "C02", tier, seed)
    # last sentence of the property ("a worker never starts the task before all of those datasets have actually arrived on its host"): the REAL
    # worker main loop over every order of a task sequence and the publications of its inputs (shared with the C05 stand-in)
    import time as _t
    from checks import c05_bounded
    t0, fails, seen = _t.time(), [], set()

    def add(ob, desc, what, cls="other"):
        if ob.startswith("C02/") and (ob, cls) not in seen:
            seen.add((ob, cls))
            fails.append({"obligation": ob, "inputs": desc, "observed": what[:500], "class": cls, "clause": ob})
    try:
        n = c05_bounded.entrypoint_cases(add)
        out.add_bounded("worker main loop", "exhaustive enumeration", "runner.entrypoint.entrypoint over every order of a task sequence and the publications of its 1..3 inputs "
                        "(load of none / each input failing) and two-task sequences whose first task needs an outside dataset", n, n, _t.time() - t0, [{"cases": n}], fails)
    except Exception as e:  # noqa
        out.crashes.append(f"worker-loop stand-in crashed: {type(e).__name__}: {e}")
    out.assumptions += ctrl_common.ASSUMPTIONS
    return out.finish("exploration", rule="see bounded_standins[].bound", explanation="real controller.impl.run + scheduler + worker-side execute_sequence/run/Memory against a simulated cluster; monitors computed from traffic and simulator ground truth")
