"""C05 - a failing task or dying worker-side process fails the run, never hangs it."""
from checks._simple import run_simple

PROVED_TARGETS = ["cascade.executor.executor:Executor.healthcheck", "cascade.executor.runner.entrypoint:execute_sequence", "cascade.executor.executor:Executor.terminate", "cascade.executor.executor:Executor.recv_loop", "cascade.executor.bridge:Bridge.recv_events", "cascade.executor.bridge:Bridge.shutdown"]


def run(tier, seed):
    return run_simple("C05", tier, seed, "checks.c05_bounded", PROVED_TARGETS,
                      explanation="exceptional postconditions on the failure chain (pyvc) + failure injection at every listed point through the real functions (bounded)",
                      assumptions=["'within a bounded time' and absence of leaked OS processes / /dev/shm segments after real crashes are not expressible over Python-visible state: only the calls that release them are checked",
                                   "process handles are modelled by objects exposing exitcode/pid/is_alive/join/kill"])
