"""C16 - the two edge views under contract (pyvc) + bounded stand-in for precompute as a whole (checks/c16_bounded.py)."""
from checks._simple import run_simple

PROVED_TARGETS = ["cascade.low.views:dependants", "cascade.low.views:param_source", "cascade.low.core:JobInstance.outputs_of"]


def run(tier, seed):
    return run_simple("C16", tier, seed, "checks.c16_bounded", PROVED_TARGETS,
                      explanation="views.dependants / views.param_source proved against 'exactly as the job's edges state'; decompose/enrich (work-list loops) on exhaustively "
                                  "enumerated DAGs compared with an independent reference",
                      assumptions=["networkx / the harness's own reference model are trusted as the specification's executable form"])
