"""C16 - bounded stand-in (see checks/c16_bounded.py)."""
from checks._simple import run_simple


def run(tier, seed):
    return run_simple("C16", tier, seed, "checks.c16_bounded", [],
                      explanation="real library code on exhaustively enumerated DAGs compared with an independent reference",
                      assumptions=["networkx / the harness's own reference model are trusted as the specification's executable form"])
