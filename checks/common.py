"""Shared plumbing of the property checks: parallel pyvc runs, counterexample replay, evidence, known findings, exit codes."""
from __future__ import annotations

import hashlib
import json
import multiprocessing as mp
import os
import sys
import time
import traceback

HERE = os.path.dirname(os.path.dirname(os.path.abspath(__file__)))
REPO_SRC = os.environ.get("EKW_REPO_SRC", "/repo/src")
if REPO_SRC not in sys.path:
    sys.path.insert(0, REPO_SRC)  # the real code under test; also defeats the unrelated `cascade` dist in /venv
if HERE not in sys.path:
    sys.path.insert(0, HERE)

import logging  # noqa: E402

logging.disable(logging.CRITICAL)  # the repository logs expected failures verbosely; checks report through their own lines

CONTRACTS = os.path.join(HERE, "contracts")
# scratch runs against a patched copy of the sources (try_patch.sh) must not overwrite the evidence of the real tree
REPLAYS = os.environ.get("VERIF_REPLAY_DIR") or os.path.join(HERE, "replays")
EVIDENCE = os.environ.get("VERIF_EVIDENCE_DIR") or os.path.join(HERE, "evidence")

PYTHON_SEMANTICS_ASSUMED = [
    "pyvc encoding of CPython 3.12: evaluation order, short-circuiting, iterator protocol, try/finally, definite assignment (DESIGN 4)",
    "stored data is well-typed w.r.t. annotations / sidecar field_types (heap reads are wrapped at their declared type)",
    "True == 1 is not modelled (bool and int are distinct tags); closures capture by value; dict size does not change during its own iteration",
    "each function / callback executes atomically (no interleaving inside a step)",
    "z3 5.1 / cvc5 1.0.3 and pyvc itself are trusted (mitigated by canaries and the seeded-mutant self-test)",
]


# --------------------------------------------------------------------------------------------------
def _verify_one(job):
    """worker: verify one target; returns a JSON-able report"""
    target, gen_sources, timeout_ms, do_replay = job
    from pyvc.frontend import Frontend
    from pyvc.contracts import ContractDB
    from pyvc.verify import Verifier
    from pyvc import cex, rtc, smt
    import z3
    t0 = time.time()
    out = {"target": target, "obligations": [], "undecided": [], "paths": 0, "seconds": 0.0, "source": {}, "dropped": 0,
           "inlined": [], "externals": [], "assumed_contracts": [], "canary": None}
    try:
        fe = Frontend()
        db = ContractDB.for_target(CONTRACTS, target, gen_sources or [])
        ver = Verifier(fe, db, timeout_ms)
        rep = ver.verify_function(target)
        ver.discharge(rep)
        out.update(paths=rep.paths, undecided=list(rep.undecided), source=rep.source, dropped=rep.dropped, inlined=rep.inlined,
                   externals=rep.externals, canary=rep.canary)
        c = db.get(target)
        out["property"] = c.property if c else ""
        out["assumed_contracts"] = sorted(t for t, cc in db.contracts.items() if getattr(cc, "assumed", False))
        out["db_assumptions"] = list(db.assumptions)
        old = getattr(ver, "_old", None)
        cand_tries = 0  # candidate models for `unknown` obligations cost a solver call each: only for the first few of a target
        for ob in rep.obligations:
            d = ob.brief()
            model = ob.model
            if ob.result == "unknown" and old is not None and cand_tries < 6:
                cand_tries += 1
                # candidate model from the quantifier-free part of the path condition (validated by replay only)
                from pyvc.state import _has_quant
                s = z3.Solver()
                s.set("timeout", 5000)
                for p in ob.pc:
                    if not _has_quant(p):
                        s.add(p)
                g = z3.Not(ob.goal)
                s.add(g)
                if s.check() == z3.sat:
                    model = s.model()
                    d["candidate_model"] = True
            if model is not None and old is not None and do_replay:
                try:
                    inputs = cex.extract_inputs(model, fe.reg, old, old.frames[0].vars)
                    d["inputs"] = inputs
                    d["replay"] = _with_deadline(20, lambda: rtc.run_concrete(db, target, inputs))
                except Exception as e:  # noqa
                    d["replay"] = {"verdict": "not-evaluable", "reason": f"{type(e).__name__}: {e}"}
                    d["replay_trace"] = traceback.format_exc()[-800:]
                try:
                    d["model"] = str(model)[:1500]
                except Exception:
                    pass
            out["obligations"].append(d)
    except Exception as e:  # checker crash
        out["crash"] = f"{type(e).__name__}: {e}\n{traceback.format_exc()[-1500:]}"
    out["seconds"] = round(time.time() - t0, 3)
    return out


def _with_deadline(seconds, fn):
    """a replay runs REAL code on rebuilt inputs: it may block for ever in a C-level call (a real poller, getfqdn without a network, a spawned
    process) where no Python-level alarm can reach it.  It therefore runs in a forked child that is killed at the deadline; its verdict comes back
    as JSON through a pipe.  Past the deadline (or if the child dies) the replay is 'not-evaluable' - never a verdict."""
    import select
    r, w = os.pipe()
    pid = os.fork()
    if pid == 0:
        code = 0
        try:
            os.close(r)
            try:
                res = fn()
            except BaseException as e:  # noqa
                res = {"verdict": "not-evaluable", "reason": f"{type(e).__name__}: {e}"}
            data = json.dumps(res, default=str).encode()
            os.write(w, len(data).to_bytes(8, "big"))
            off = 0
            while off < len(data):
                off += os.write(w, data[off:off + 65536])
        except BaseException:  # noqa
            code = 1
        finally:
            os._exit(code)
    os.close(w)
    buf = b""
    deadline = time.time() + seconds
    try:
        while True:
            left = deadline - time.time()
            if left <= 0:
                break
            ready, _, _ = select.select([r], [], [], left)
            if not ready:
                break
            chunk = os.read(r, 1 << 20)
            if not chunk:
                break
            buf += chunk
            if len(buf) >= 8 and len(buf) - 8 >= int.from_bytes(buf[:8], "big"):
                break
    finally:
        os.close(r)
        try:
            os.kill(pid, 9)
        except OSError:
            pass
        try:
            os.waitpid(pid, 0)
        except OSError:
            pass
    if len(buf) >= 8 and len(buf) - 8 >= int.from_bytes(buf[:8], "big"):
        try:
            return json.loads(buf[8:8 + int.from_bytes(buf[:8], "big")].decode())
        except Exception:  # noqa
            pass
    return {"verdict": "not-evaluable", "reason": f"replay did not finish within {seconds}s (blocking external call) or its process died"}


def pyvc_run(targets, gen_sources=None, timeout_ms=10000, jobs=None, replay=True):
    jobs = jobs or min(16, max(1, len(targets)))
    work = [(t, gen_sources, timeout_ms, replay) for t in targets]
    if len(work) == 1 or os.environ.get("PYVC_SERIAL"):
        return [_verify_one(w) for w in work]
    # a pool that NOTICES a dead worker (multiprocessing.Pool waits for ever when one is killed, e.g. by the OOM killer under load - seen once:
    # a check slept for two hours): targets whose worker died are verified again, one by one, in this process
    from concurrent.futures import ProcessPoolExecutor
    from concurrent.futures.process import BrokenProcessPool
    ctx = mp.get_context("fork")
    results = {}
    try:
        with ProcessPoolExecutor(max_workers=jobs, mp_context=ctx) as pool:
            futs = {pool.submit(_verify_one, w): i for i, w in enumerate(work)}
            for f, i in futs.items():
                try:
                    results[i] = f.result()
                except BrokenProcessPool:
                    pass
                except Exception as e:  # noqa
                    results[i] = {"target": work[i][0], "obligations": [], "undecided": [], "paths": 0, "seconds": 0.0, "source": {}, "dropped": 0, "inlined": [],
                                  "externals": [], "assumed_contracts": [], "canary": None, "crash": f"{type(e).__name__}: {e}"}
    except BrokenProcessPool:
        pass
    for i, w in enumerate(work):
        if i not in results:
            results[i] = _verify_one(w)
    return [results[i] for i in range(len(work))]


# --------------------------------------------------------------------------------------------------
def load_known_findings():
    p = os.path.join(HERE, "known_findings.json")
    if not os.path.exists(p):
        return []
    return json.load(open(p))


class Outcome:
    """collects what a check run found and turns it into evidence + exit code"""

    def __init__(self, prop, tier, seed):
        self.prop, self.tier, self.seed = prop, tier, seed
        self.t0 = time.time()
        self.violations = []  # dict(obligation, what, replay_path, no_input)
        self.undecided = []  # strings
        self.proved = []  # obligation briefs
        self.functions = []
        self.bounded = []  # dict(name, driver, bound, cases, nontrivial, seconds, samples)
        self.assumptions = list(PYTHON_SEMANTICS_ASSUMED)
        self.known_matched = []
        self.crashes = []
        self.notes = []
        self.solver_seconds = 0.0
        self.replayed = 0
        self.extra = {}

    # ---- pyvc results ------------------------------------------------------------------------------
    def add_pyvc(self, reports, standin_covers=None):
        """standin_covers: set of targets whose undecided obligations are covered by a bounded stand-in of this check"""
        for r in reports:
            if r.get("crash"):
                self.crashes.append(f"{r['target']}: {r['crash'][:300]}")
                continue
            fn = {"target": r["target"], "sha256": r["source"].get("sha256"), "file": r["source"].get("file"), "loc": r["source"].get("loc"),
                  "paths": r["paths"], "dropped_statements": r["dropped"], "inlined": r["inlined"], "externals": r["externals"],
                  "obligations": len(r["obligations"]), "discharged": sum(1 for o in r["obligations"] if o["result"] == "discharged"),
                  "seconds": r["seconds"], "vacuity_canary": r.get("canary")}
            self.functions.append(fn)
            for a in r.get("assumed_contracts", []):
                s = f"assumed (unverified) contract: {a}"
                if s not in self.assumptions:
                    self.assumptions.append(s)
            for a in r.get("db_assumptions", []):
                if a not in self.assumptions:
                    self.assumptions.append(a)
            for u in r["undecided"]:
                self.undecided.append(f"{r['target']}: {u}")
            for o in r["obligations"]:
                self.solver_seconds += o.get("seconds", 0)
                if o["result"] == "discharged":
                    self.proved.append(o)
                    continue
                rep = o.get("replay")
                if rep is not None:
                    self.replayed += 1
                inductive = o["kind"].startswith("invariant") or o["kind"].startswith("class-invariant") or o["kind"].startswith("callee-pre") or o["kind"] == "frame"
                if rep and rep.get("verdict") == "violated":
                    path = self.write_replay(o, r["target"], rep, no_input=False)
                    self.violations.append({"obligation": o["id"], "what": "; ".join(rep["failed"])[:300], "replay": path, "no_input": False,
                                            "inputs": o.get("inputs"), "witness": o.get("inputs")})
                elif o["result"] == "refuted" and o.get("top") and not inductive and not (rep and rep.get("verdict") in ("holds", "not-a-witness")):
                    path = self.write_replay(o, r["target"], rep, no_input=True)
                    self.violations.append({"obligation": o["id"], "what": f"obligation refuted by {o['backend']}: {o['clause'][:200]}", "replay": path,
                                            "no_input": True, "inputs": o.get("inputs"), "witness": o.get("inputs")})
                else:
                    why = o["result"]
                    if rep:
                        why += f" (replay: {rep.get('verdict')})"
                    self.undecided.append(f"{o['id']}: {why}")

    def write_replay(self, o, target, rep, no_input):
        os.makedirs(REPLAYS, exist_ok=True)
        h = hashlib.sha256((o["id"] + json.dumps(o.get("inputs"), sort_keys=True, default=str)).encode()).hexdigest()[:10]
        path = os.path.join(REPLAYS, f"{self.prop}-{h}.json")
        doc = {"property": self.prop, "obligation": o["id"], "target": target, "kind": "smt-model", "clause": o["clause"],
               "inputs": o.get("inputs"), "observed": (rep or {}).get("observed"), "replay_verdict": (rep or {}).get("verdict"),
               "failed_clauses": (rep or {}).get("failed"), "solver": {"backend": o.get("backend"), "result": o["result"], "seconds": o.get("seconds"),
                                                                  "model": o.get("model")}, "no_failing_input_found": no_input}
        json.dump(doc, open(path, "w"), indent=1, default=str)
        return os.path.relpath(path, HERE)

    # ---- bounded stand-ins -----------------------------------------------------------------------------
    def add_bounded(self, name, driver, bound, cases, nontrivial, seconds, samples, failures=()):
        self.bounded.append({"name": name, "driver": driver, "bound": bound, "cases": cases, "distinct_nontrivial": nontrivial,
                             "seconds": round(seconds, 2), "samples": samples[:3]})
        for f in failures:
            os.makedirs(REPLAYS, exist_ok=True)
            h = hashlib.sha256(json.dumps(f, sort_keys=True, default=str).encode()).hexdigest()[:10]
            path = os.path.join(REPLAYS, f"{self.prop}-{h}.json")
            doc = {"property": self.prop, "obligation": f.get("obligation", name), "kind": f.get("kind", "enumerated"), "inputs": f.get("inputs"),
                   "schedule": f.get("schedule"), "observed": f.get("observed"), "clause": f.get("clause"), "no_failing_input_found": False,
                   "standin": name}
            json.dump(doc, open(path, "w"), indent=1, default=str)
            self.violations.append({"obligation": f.get("obligation", name), "what": str(f.get("observed"))[:300], "replay": os.path.relpath(path, HERE),
                                    "no_input": False, "witness": f.get("witness", f.get("inputs")), "class": f.get("class")})

    # ---- finish ----------------------------------------------------------------------------------------
    def finish(self, level, rule, explanation="", covered_by_standin=True, checker_cmd=None, trusted_base=None):
        known = [k for k in load_known_findings() if k.get("property") == self.prop and k.get("status") == "known"]
        new_violations = []
        for v in self.violations:
            hit = None
            for k in known:
                if k.get("obligation") and not v["obligation"].startswith(k["obligation"]):
                    continue
                cls = k.get("witness_class")
                if cls and v.get("class") != cls:
                    continue
                hit = k
                break
            if hit is not None:
                if hit not in self.known_matched:
                    self.known_matched.append(hit)
            else:
                new_violations.append(v)
        for k in self.known_matched:
            print(f"KNOWN-FINDING: property={self.prop} {k['what_fails']}")
        n_ob = sum(f["obligations"] for f in self.functions)
        n_dis = sum(f["discharged"] for f in self.functions)
        # level degradation: a proof claim needs every obligation discharged
        lvl = level
        proof_status = "full"
        if level == "proof" and (n_ob == 0 or n_dis != n_ob or self.undecided):
            lvl = "exploration" if self.bounded else "other"
            proof_status = "degraded"
        cases = sum(b["cases"] for b in self.bounded)
        nontriv = sum(b["distinct_nontrivial"] for b in self.bounded)
        samples = [s for b in self.bounded for s in b["samples"]][:6]
        if not samples:
            samples = [{"obligation": o["id"], "clause": o["clause"][:120], "result": o["result"], "backend": o["backend"]} for o in self.proved[:4]]
        coverage = {
            "obligations": n_ob, "discharged": n_dis,
            "checker_cmd": checker_cmd or f"./check {self.prop} --tier {self.tier}",
            "trusted_base": trusted_base or ["z3-solver 5.1.0", "cvc5 1.0.3 (fallback)", "pyvc (this repository's VC generator)", "CPython 3.12 semantics as encoded by pyvc"],
            "evaluations": max(cases, 0) + n_ob, "distinct_nontrivial": nontriv + n_dis, "rule": rule, "samples": samples or [{"note": "no case"}],
            "explanation": explanation,
            "functions_under_contract": self.functions, "obligations_by_backend": _by_backend(self.proved), "solver_seconds": round(self.solver_seconds, 2),
            "undecided": self.undecided[:40], "bounded_standins": self.bounded, "proof_status": proof_status,
            "counterexamples_replayed": self.replayed, "known_findings_matched": [k["what_fails"] for k in self.known_matched],
            "exhaustive": False,
        }
        coverage.update(self.extra)
        ev = {"property_id": self.prop, "tier": self.tier, "seed": self.seed, "level": lvl, "coverage": coverage,
              "assumptions": self.assumptions, "wall_s": round(time.time() - self.t0, 2), "violations": len(new_violations)}
        os.makedirs(EVIDENCE, exist_ok=True)
        json.dump(ev, open(os.path.join(EVIDENCE, f"{self.prop}.json"), "w"), indent=1, default=str)
        for c in self.crashes:
            print(f"CHECKER-CRASH: {c}", file=sys.stderr)
        seen_ob = set()
        uniq = []
        for v in new_violations:  # one VIOLATION line per failing obligation (first witness); all are counted in the evidence
            key = v["obligation"].rsplit("/p", 1)[0]
            if key in seen_ob:
                continue
            seen_ob.add(key)
            uniq.append(v)
        for v in uniq:
            print(f"DETAIL: obligation={v['obligation']} :: {v['what'][:300]}")
            print(f"VIOLATION property={self.prop} replay={v['replay']}" + (" no-failing-input-found" if v["no_input"] else ""))
        print(f"[{self.prop}] tier={self.tier} level={lvl} obligations={n_ob} discharged={n_dis} bounded_cases={cases} undecided={len(self.undecided)} "
              f"violations={len(new_violations)} known={len(self.known_matched)} wall={ev['wall_s']}s")
        if new_violations:
            return 1
        if self.crashes:
            return 3
        if self.undecided and not (covered_by_standin and self.bounded):
            for u in self.undecided[:10]:
                print(f"UNDECIDED: {u}")
            return 2
        return 0


def _by_backend(proved):
    out = {}
    for o in proved:
        out[o["backend"]] = out.get(o["backend"], 0) + 1
    return out
