"""C06 - acknowledged messaging delivers each message exactly once despite loss or duplicates."""
from checks._simple import run_simple

PROVED_TARGETS = ["cascade.executor.comms:Listener._recv_one", "cascade.executor.comms:ReliableSender.send",
                  "cascade.executor.comms:ReliableSender.ack", "cascade.executor.comms:ReliableSender.maybe_retry", "cascade.executor.comms:Listener.recv_messages"]


def run(tier, seed):
    return run_simple("C06", tier, seed, "checks.c06_bounded", PROVED_TARGETS,
                      explanation="real Listener/ReliableSender and the real owner loops over an adversarial in-memory network",
                      assumptions=["zmq itself, timers and wall-clock bounds are outside the property's decidable part", "pickle round-trips the message dataclasses"])
