"""ctrlx - bounded exploration of the REAL controller (cascade.controller.impl.run + scheduler + notify/act) and the REAL
worker-side task execution (entrypoint.execute_sequence, runner.run, Memory) against a simulated cluster.

The simulated cluster implements the ASSUMED executor contract (DESIGN 5, C01-C04):
  * a worker executes a task sequence only when every input it needs from other sequences is in its host's store;
    it publishes outputs one at a time, in the order the real runner produces them; it is busy until all are published;
  * a transmit/fetch is performed by the source host's data server some time after it was commanded, if the source still
    holds the dataset (otherwise: failure); a transmit to a host that already holds the dataset is swallowed silently;
  * a purge removes the dataset from the host's store (and from its workers' caches) some time after it was commanded;
  * events reach the controller in ANY order and batching (recv_events is the only choice point of the controller side).
Monitors are computed from the traffic (Bridge calls, delivered events) and from the simulator's ground truth, never from
the controller's own State.  Labelled BOUNDED: never counted as proof.
"""
from __future__ import annotations

import itertools
import random
import time
from dataclasses import dataclass, field


class Violation(Exception):
    def __init__(self, prop, obligation, what, cls="other"):
        super().__init__(what)
        self.prop, self.obligation, self.what, self.cls = prop, obligation, what, cls


class Chooser:
    """the schedule: a list of small integers; random beyond the recorded prefix"""

    def __init__(self, seed=0, prefix=None):
        self.rng = random.Random(seed)
        self.prefix = list(prefix or [])
        self.trace = []

    def pick(self, n):
        if n <= 1:
            return 0
        i = len(self.trace)
        c = self.prefix[i] % n if i < len(self.prefix) else self.rng.randrange(n)
        self.trace.append(c)
        return c


# ---- job construction ------------------------------------------------------------------------------------
def make_task_fn(name, outputs, none=False):
    """a callable whose value identifies the task, the output and EVERY argument with its position / keyword
    (none=True: a task whose value is None - a legitimate value that must travel unchanged; never requested by the caller, see the known finding on None outputs)"""
    if none:
        def h(*args, **kwargs):
            return None
        return h
    if len(outputs) == 1:
        def f(*args, **kwargs):
            return (name, tuple(args), tuple(sorted(kwargs.items())))
        return f

    def g(*args, **kwargs):
        for k in range(len(outputs)):
            yield (name, k, tuple(args), tuple(sorted(kwargs.items())))
    return g


@dataclass
class JobSpec:
    tasks: dict  # name -> dict(outputs=[..], static_ps={i: v}, static_kw={k: v}, gpu=bool)
    edges: list  # (src_task, src_output, sink_task, into)   into: int | str
    ext: list  # [(task, output)]

    def describe(self):
        return {"tasks": {k: {"outputs": v["outputs"], "ps": v.get("static_ps", {}), "kw": v.get("static_kw", {}), "gpu": v.get("gpu", False),
                              **({"share": v["share"]} if v.get("share") is not None else {})} for k, v in self.tasks.items()},
                "edges": [list(e) for e in self.edges], "ext": [list(e) for e in self.ext]}


def build_job(spec: JobSpec):
    from cascade.low.core import DatasetId, JobInstance, Task2TaskEdge, TaskDefinition, TaskInstance
    tasks = {}
    shared = {}
    for name, t in spec.tasks.items():
        if t.get("share") is not None and t["share"] in shared:
            tasks[name] = shared[t["share"]]  # the SAME TaskInstance object under a second task id
            continue
        fn = make_task_fn(t.get("share", name), t["outputs"], none=bool(t.get("none")))
        d = TaskDefinition(func=TaskDefinition.func_enc(fn), environment=[], entrypoint="", input_schema={},
                           output_schema={o: "Any" for o in t["outputs"]}, needs_gpu=t.get("gpu", False))
        tasks[name] = TaskInstance(definition=d, static_input_kw=dict(t.get("static_kw", {})), static_input_ps={str(k): v for k, v in t.get("static_ps", {}).items()})
        if t.get("share") is not None:
            shared[t["share"]] = tasks[name]
    edges = [Task2TaskEdge(source=DatasetId(s, o), sink_task=k, sink_input_kw=i if isinstance(i, str) else None, sink_input_ps=i if isinstance(i, int) else None)
             for s, o, k, i in spec.edges]
    return JobInstance(tasks=tasks, edges=edges, ext_outputs=[DatasetId(t, o) for t, o in spec.ext])


def sequential_eval(spec: JobSpec):
    """reference: evaluate the DAG in one process, directly from the spec (independent of the repository code)"""
    vals = {}
    done = set()
    order = []
    deps = {k: {e[0] for e in spec.edges if e[2] == k} for k in spec.tasks}
    while len(done) < len(spec.tasks):
        for k in spec.tasks:
            if k not in done and deps[k] <= done:
                t = spec.tasks[k]
                ps = dict(t.get("static_ps", {}))
                kw = dict(t.get("static_kw", {}))
                for s, o, sink, into in spec.edges:
                    if sink == k:
                        if isinstance(into, int):
                            ps[into] = vals[(s, o)]
                        else:
                            kw[into] = vals[(s, o)]
                n = (max(ps) + 1) if ps else 0
                args = [ps.get(i) for i in range(n)]
                outs = sorted(t["outputs"])  # the runner binds yielded values to outputs in sorted-key order (declared contract)
                label = t.get("share", k)
                if t.get("none"):
                    vals[(k, t["outputs"][0])] = None
                elif len(t["outputs"]) == 1:
                    vals[(k, t["outputs"][0])] = (label, tuple(args), tuple(sorted(kw.items())))
                else:
                    for idx, o in enumerate(outs):
                        vals[(k, o)] = (label, idx, tuple(args), tuple(sorted(kw.items())))
                done.add(k)
                order.append(k)
    return vals


# ---- the simulated cluster --------------------------------------------------------------------------------
class FakeBuf:
    def __init__(self, store, key, l, deser_fun, create):
        self.store, self.key, self.l, self.deser_fun, self.create = store, key, l, deser_fun, create
        self.data = bytearray(l) if create else None
        self.closed = False

    def view(self):
        if self.create:
            return memoryview(self.data)
        return memoryview(self.store[self.key][0]).toreadonly()

    def close(self):
        if self.closed:
            return
        self.closed = True
        if self.create:
            self.store[self.key] = (bytes(self.data), self.deser_fun)


class ShmFake:
    """stand-in for cascade.shm.client bound to the store of the host whose worker is currently running"""

    class ConflictError(Exception):
        pass

    def __init__(self):
        self.store = None

    def allocate(self, key, l, deser_fun, timeout_sec=60.0):
        if key in self.store:
            raise ShmFake.ConflictError()
        return FakeBuf(self.store, key, l, deser_fun, True)

    def get(self, key, timeout_sec=60.0):
        if key not in self.store:
            raise KeyError(f"shm get of absent key {key} (a real client would wait for ever)")
        return FakeBuf(self.store, key, len(self.store[key][0]), self.store[key][1], False)

    def purge(self, key):
        self.store.pop(key, None)


class Cluster:
    def flag(self, prop, obligation, what, cls="other"):
        """a monitor violation that does not stop the run (first one per obligation is kept)"""
        if not any(v[1] == obligation for v in self.violations):
            self.violations.append((prop, obligation, what, cls, [list(map(str, x)) for x in self.log[-12:]]))

    def __init__(self, job, spec: JobSpec, hosts: int, workers: int, gpus: set, chooser: Chooser, fifo=True):
        self.fifo = fifo  # publications of one host reach the controller in the order they were sent (loss-free zmq)
        self.reordered_task_outputs = False
        self.violations = []
        self.lazy = False  # lazy data servers: transfers / fetches / purges are served as late as possible
        from cascade.low.core import Environment, Worker, WorkerId
        from cascade.low.views import param_source
        self.job, self.spec, self.ch = job, spec, chooser
        self.env = Environment(workers={WorkerId(f"h{h}", f"w{w}"): Worker(cpu=1, gpu=1 if (h, w) in gpus else 0, memory_mb=1024)
                                        for h in range(hosts) for w in range(workers)})
        self.hosts = [f"h{h}" for h in range(hosts)]
        self.store = {h: {} for h in self.hosts}  # shmid -> (bytes, deser_fun)
        self.has = {h: set() for h in self.hosts}  # DatasetIds present (ground truth)
        self.queue = {w: [] for w in self.env.workers}  # pending TaskSequences
        self.outbox = {w: [] for w in self.env.workers}  # produced but not yet sent DatasetPublished / TaskFailure
        self.memory = {}
        self.inflight = []  # events on their way to the controller
        self.cmds = []  # commanded, unperformed: ("transmit"|"fetch"|"purge", ...)
        self.param_source = param_source(job.edges)
        self.executed = set()
        self.published_anywhere = set()
        self.log = []
        # monitors
        self.dispatched = {}
        self.outstanding = []  # (kind, ds, source, target, idx) commanded and not yet answered
        self.delivered_payload = set()
        self.purged = set()  # (host, ds)
        self.idx = 0
        self.shutdown_called = 0
        self.recv_calls = 0
        self.commands_since_recv = 0
        self.failure = None
        self.consumers = {}
        for s, o, sink, into in spec.edges:
            self.consumers.setdefault((s, o), set()).add(sink)
        self._patch()

    # -- wiring of the real worker-side code ----------------------------------------------------------------
    def _patch(self):
        import cascade.executor.runner.memory as memmod
        import cascade.executor.runner.entrypoint as ep
        self.shm = ShmFake()
        memmod.shm_client = self.shm
        self._current_worker = None

        def cb(address, msg):
            self.outbox[self._current_worker].append(msg)
        memmod.callback = cb
        ep.callback = cb
        self.ep = ep
        self.memmod = memmod

    def _memory(self, w):
        if w not in self.memory:
            self.memory[w] = self.memmod.Memory("cb", w)
        return self.memory[w]

    # -- Bridge interface (what the controller sees) -------------------------------------------------------------
    def get_environment(self):
        return self.env

    def task_sequence(self, ts):
        from cascade.low.core import DatasetId
        self.commands_since_recv += 1
        self.log.append(("task_sequence", repr(ts.worker), list(ts.tasks)))
        w = ts.worker
        if w not in self.env.workers:
            self.flag("C02", "C02/dispatch-to-existing-worker", f"task sequence sent to unknown worker {w}")
            return
        if self.queue[w] or self.outbox[w]:
            self.flag("C02", "C02/dispatch-to-free-worker", f"{ts.tasks} dispatched to {w!r} which is still busy "
                            f"(queue={[t.tasks for t in self.queue[w]]}, unpublished={len(self.outbox[w])})")
        for t in ts.tasks:
            if t in self.dispatched:
                self.flag("C02", "C02/dispatched-exactly-once", f"task {t} dispatched twice ({self.dispatched[t]!r} and {w!r})")
                return
            self.dispatched[t] = w
            if self.job.tasks[t].definition.needs_gpu and self.env.workers[w].gpu <= 0:
                self.flag("C02", "C02/gpu-requirement", f"gpu task {t} sent to cpu worker {w!r}")
            for ds in self.param_source.get(t, {}).values():
                if ds.task in ts.tasks:
                    continue
                if ds not in self.published_anywhere:
                    self.flag("C02", "C02/inputs-produced-before-dispatch", f"{t} dispatched before its input {ds!r} was produced")
                here = ds in self.has[w.host]
                coming = any(k == "transmit" and d == ds and tgt == w.host for k, d, src, tgt, i in self.outstanding)
                if not here and not coming:
                    self.flag("C02", "C02/inputs-present-or-transfer-commanded", f"{t} dispatched to {w!r}: input {ds!r} neither on {w.host} nor being transferred there")
                if (w.host, ds) in self.purged and not coming and not here:
                    self.flag("C04", "C04/dropped-never-needed-again", f"{ds!r} was dropped from {w.host} and is needed by {t}")
        self.queue[w].append(ts)

    def transmit(self, ds, source, target):
        self.commands_since_recv += 1
        self.log.append(("transmit", repr(ds), source, target))
        if ds not in self.has.get(source, ()):
            self.flag("C04", "C04/transfer-source-holds-dataset", f"transmit of {ds!r} from {source}, which does not hold it")
        self.idx += 1
        self.outstanding.append(("transmit", ds, source, target, self.idx))
        self.cmds.append(("transmit", ds, source, target, self.idx))

    def fetch(self, ds, source):
        self.commands_since_recv += 1
        self.log.append(("fetch", repr(ds), source))
        if ds not in self.has.get(source, ()):
            self.flag("C04", "C04/fetch-source-holds-dataset", f"fetch of {ds!r} from {source}, which does not hold it")
        self.idx += 1
        self.outstanding.append(("fetch", ds, source, "controller", self.idx))
        self.cmds.append(("fetch", ds, source, "controller", self.idx))

    def purge(self, host, ds):
        self.commands_since_recv += 1
        self.log.append(("purge", host, repr(ds)))
        for t in self.consumers.get((ds.task, ds.output), ()):
            if t not in self.executed or any(t in ts.tasks for q in self.queue.values() for ts in q):
                self.flag("C04", "C04/purge-after-consumers-completed", f"purge of {ds!r} at {host} while consumer {t} has not completed")
            w = self.dispatched.get(t)
            if w is not None and self.outbox[w] and any(getattr(m, "ds", None) is not None and m.ds.task == t for m in self.outbox[w]):
                self.flag("C04", "C04/purge-after-consumers-completed", f"purge of {ds!r} at {host} while consumer {t} is still publishing")
        if (ds.task, ds.output) in {tuple(e) for e in self.spec.ext} and ds not in self.delivered_payload:
            self.flag("C04", "C04/purge-after-output-delivered", f"purge of requested output {ds!r} at {host} before its value reached the caller")
        for k, d, src, tgt, i in self.outstanding:
            if d == ds and src == host:
                cls = "second-fetch-outstanding" if k == "fetch" and sum(1 for kk, dd, ss, tt, ii in self.outstanding if kk == "fetch" and dd == ds) >= 1 and ds in self.delivered_payload else "other"
                self.flag("C04", "C04/no-purge-while-transfer-outstanding", f"purge of {ds!r} at {host} while {k}#{i} {src}=>{tgt} commanded from that host is unanswered", cls)
        self.cmds.append(("purge", ds, host, None, 0))
        self.purged.add((host, ds))

    def shutdown(self):
        self.shutdown_called += 1

    # -- simulated progress ----------------------------------------------------------------------------------------
    def _required(self, ts):
        need = set()
        for t in ts.tasks:
            for ds in self.param_source.get(t, {}).values():
                if ds.task not in ts.tasks:
                    need.add(ds)
        return need

    def enabled_steps(self):
        steps = []
        for w, q in self.queue.items():
            if q and not self.outbox[w] and self._required(q[0]) <= self.has[w.host]:
                steps.append(("exec", w))
        for w, ob in self.outbox.items():
            if ob:
                steps.append(("send", w))
        for i, c in enumerate(self.cmds):
            steps.append(("cmd", i))
        from cascade.executor.msg import DatasetPublished
        seen_hosts = set()
        for i, ev in enumerate(self.inflight):
            if self.fifo and isinstance(ev, DatasetPublished):
                h = ev.origin if isinstance(ev.origin, str) else ev.origin.host
                if h in seen_hosts:
                    continue
                seen_hosts.add(h)
            steps.append(("deliver", i))
        return steps

    def do_exec(self, w):
        from cascade.executor.msg import DatasetPublished
        ts = self.queue[w].pop(0)
        self._current_worker = w
        self.shm.store = self.store[w.host]

        class Pk:
            def extend(self, e):
                pass
        from cascade.executor.runner.entrypoint import RunnerContext
        rc = RunnerContext(workerId=w, job=self.job, callback="cb", param_source=self.param_source)
        self.ep.execute_sequence(ts, self._memory(w), Pk(), rc)
        for t in ts.tasks:
            self.executed.add(t)
        # ground truth of what is now in the host store
        for m in self.outbox[w]:
            if isinstance(m, DatasetPublished):
                pass

    def do_send(self, w):
        from cascade.executor.msg import DatasetPublished, TaskFailure
        m = self.outbox[w].pop(0)
        if isinstance(m, TaskFailure):
            self.failure = m
            raise Violation("C03", "C03/no-task-failure-in-feasible-job", f"worker reported {m.detail[:200]}", "task-failure")
        if isinstance(m, DatasetPublished):
            self.has[w.host].add(m.ds)
            self.published_anywhere.add(m.ds)
            # executor forwards the publication to its workers' caches: nothing to do in the simulator
        self.inflight.append(m)

    def do_cmd(self, i):
        from cascade.executor.msg import DatasetPublished, DatasetTransmitPayload, DatasetTransmitPayloadHeader
        from cascade.executor.runner.memory import ds2shmid
        kind, ds, a, b, idx = self.cmds.pop(i)
        if kind == "purge":
            host = a
            self.has[host].discard(ds)
            self.store[host].pop(ds2shmid(ds), None)
            for w, mem in self.memory.items():
                if w.host == host:
                    self.shm.store = self.store[host]
                    mem.pop(ds)
            return
        source, target = a, b
        key = ds2shmid(ds)
        if ds not in self.has[source] or key not in self.store[source]:
            nfetch = sum(1 for l in self.log if l[0] == "fetch" and l[1] == repr(ds))
            cls = "second-fetch-outstanding" if kind == "fetch" and nfetch >= 2 else "other"
            # consequence of a purge that overtook this command (the purge itself was flagged when it was commanded)
            raise Violation("C04", "C04/transfer-source-holds-dataset", f"{kind} of {ds!r}: source {source} no longer holds it when the data server serves the command", cls)
        data, deser = self.store[source][key]
        # "unanswered" is read as: not yet served by the source host's data server - the weakest reading under which a purge
        # racing with it is an actual hazard (once served, the source copy is no longer needed by that transfer)
        self.outstanding = [o for o in self.outstanding if o[4] != idx]
        if kind == "fetch":
            self.inflight.append(DatasetTransmitPayload(DatasetTransmitPayloadHeader("c", idx, ds, deser), data))
        else:
            if key in self.store[target]:
                pass  # redundant transfer: swallowed by the target's data server, no announcement
            else:
                self.store[target][key] = (data, deser)
                self.has[target].add(ds)
                self.inflight.append(DatasetPublished(origin=target, ds=ds, transmit_idx=idx))

    def recv_events(self):
        from cascade.executor.msg import DatasetPublished, DatasetTransmitPayload
        self.recv_calls += 1
        if self.recv_calls > 400:
            raise Violation("C03", "C03/bounded-rounds", "controller still waiting after 400 rounds")
        self.commands_since_recv = 0
        batch = []
        while True:
            steps = self.enabled_steps()
            if not steps:
                if batch:
                    break
                raise Violation("C03", "C03/no-wait-when-nothing-outstanding", "controller waits for events but the cluster has nothing left to do (deadlock)")
            if batch and self.ch.pick(3) == 0:
                break
            if self.lazy:
                eager = [st_ for st_ in steps if st_[0] != "cmd"]
                if eager and self.ch.pick(8) != 0:
                    steps = eager
            kind, x = steps[self.ch.pick(len(steps))]
            if kind == "exec":
                self.do_exec(x)
            elif kind == "send":
                self.do_send(x)
            elif kind == "cmd":
                self.do_cmd(x)
            else:
                ev = self.inflight.pop(x)
                if isinstance(ev, DatasetPublished) and ev.transmit_idx is None and any(
                        isinstance(e2, DatasetPublished) and e2.transmit_idx is None and e2.ds.task == ev.ds.task for e2 in self.inflight[:x]):
                    self.reordered_task_outputs = True  # an output of a task overtook an earlier output of the same task
                batch.append(ev)
                if isinstance(ev, DatasetTransmitPayload):
                    self.delivered_payload.add(ev.header.ds)
        return batch


# ---- one run -------------------------------------------------------------------------------------------------
def run_one(spec: JobSpec, hosts, workers, gpus, seed=0, prefix=None, fifo=True, lazy=False):
    """returns (ok, info).  info['all'] lists every monitor violation of the run (one per obligation)"""
    ok, info, cl = _run_one(spec, hosts, workers, gpus, seed, prefix, fifo, lazy)
    allv = []
    if cl is not None:
        for prop, ob, what, cls, log in cl.violations:
            if cls == "other" and cl.reordered_task_outputs and ob in ("C02/dispatch-to-free-worker",):
                cls = "task-outputs-reordered"
            allv.append(dict(info, prop=prop, obligation=ob, observed=what, cls=cls, log=log))
    if not ok:
        allv.append(info)
        if info.get("prop") == "C03" and spec.ext and info.get("obligation") in ("C03/controller-never-raises", "C03/no-wait-when-nothing-outstanding", "C03/bounded-rounds"):
            # a run that crashes / deadlocks delivers none of the requested datasets: the same witness also violates C01's first sentence
            allv.append(dict(info, prop="C01", obligation="C01/requested-outputs-delivered", observed="run did not deliver the requested outputs: " + str(info.get("observed"))))
    info = dict(info)
    info["all"] = allv
    return (ok and not allv), info


def _run_one(spec: JobSpec, hosts, workers, gpus, seed=0, prefix=None, fifo=True, lazy=False):
    """returns (ok, info) ; raises nothing"""
    import cascade.controller.impl as impl
    from cascade.scheduler.graph import precompute
    from cascade.low.core import DatasetId
    job = build_job(spec)
    ch = Chooser(seed, prefix)
    info = {"job": spec.describe(), "hosts": hosts, "workers": workers, "gpus": sorted(map(list, gpus)), "seed": seed, "fifo": fifo}
    try:
        cl = Cluster(job, spec, hosts, workers, gpus, ch, fifo)
        cl.lazy = lazy
        pre = precompute(job)
        # spin guard: impl.run's loop may turn without ever waiting (has_computable stays true, nothing is assigned); the real plan() is
        # still called, the wrapper only counts the turns made since the controller last waited for events
        real_plan = impl.plan
        spins = [0, cl.recv_calls]

        def counted_plan(state, assignments):
            if cl.recv_calls != spins[1] or assignments:
                spins[0], spins[1] = 0, cl.recv_calls
            spins[0] += 1
            if spins[0] > 200:
                raise Violation("C03", "C03/bounded-rounds", "controller loop turned 200 times without assigning anything or waiting for events (busy loop, never terminates)")
            return real_plan(state, assignments)
        impl.plan = counted_plan
        try:
            state = impl.run(job, cl, pre)
        finally:
            impl.plan = real_plan
    except Violation as v:
        info.update(schedule=list(ch.trace), log=_tail(locals().get("cl")))
        cls = v.cls
        if cls == "other" and cl.reordered_task_outputs and v.obligation in ("C03/no-wait-when-nothing-outstanding", "C03/bounded-rounds", "C02/dispatch-to-free-worker"):
            cls = "task-outputs-reordered"
        return False, dict(info, prop=v.prop, obligation=v.obligation, observed=v.what, cls=cls), cl
    except Exception as e:  # noqa  - "never raises from its own bookkeeping"
        import traceback
        tb = traceback.format_exc().splitlines()
        where = [l.strip() for l in tb if "/cascade/" in l][-2:]
        info.update(schedule=list(ch.trace), log=_tail(locals().get("cl")))
        return False, dict(info, prop="C03", obligation="C03/controller-never-raises", observed=f"{type(e).__name__}: {e} @ {where}", cls="other"), locals().get("cl")
    info["schedule"] = list(ch.trace)
    ref = sequential_eval(spec)
    if cl.shutdown_called < 1:
        return False, dict(info, prop="C03", obligation="C03/executors-shut-down", observed="run returned without bridge.shutdown()", cls="other"), cl
    for t in spec.tasks:
        if cl.dispatched.get(t) is None or t not in cl.executed:
            return False, dict(info, prop="C03", obligation="C03/all-tasks-completed", observed=f"run returned but task {t} was never dispatched/executed",
                               cls="task-outputs-reordered" if cl.reordered_task_outputs else "other"), cl
    for t, o in spec.ext:
        ds = DatasetId(t, o)
        got = state.outputs.get(ds, "<absent>")
        if got != ref[(t, o)]:
            return False, dict(info, prop="C01", obligation="C01/value-equals-sequential", observed=f"{ds!r}: got {got!r}, sequential evaluation gives {ref[(t, o)]!r}", cls="other"), cl
    if cl.outstanding:
        k, d, s, tg, i = cl.outstanding[0]
        cls = "second-fetch-outstanding" if k == "fetch" and d in cl.delivered_payload else "other"
        # a transfer still unanswered when the controller has shut the executors down: the purge-ordering clause is moot, but
        # the fetch was issued for a value the caller already has - recorded under the same known finding
        if k == "fetch":
            return False, dict(info, prop="C04", obligation="C04/no-purge-while-transfer-outstanding", observed=f"run ended with {k}#{i} of {d!r} from {s} unanswered", cls=cls), cl
    info["rounds"] = cl.recv_calls
    info["commands"] = len(cl.log)
    return True, info, cl


def _tail(cl):
    return [list(map(str, x)) for x in cl.log[-12:]] if cl is not None else []


# ---- job / environment enumeration ------------------------------------------------------------------------------
def small_jobs(max_tasks, multi_output=True):
    """all DAG shapes up to max_tasks tasks (edges i->j with i<j), with a few output/argument layouts"""
    names = ["a", "b", "c", "d", "e"][:max_tasks]
    for n in range(1, max_tasks + 1):
        ts = names[:n]
        pairs = [(i, j) for i in range(n) for j in range(i + 1, n)]
        for mask in range(1 << len(pairs)):
            es = [pairs[k] for k in range(len(pairs)) if mask >> k & 1]
            for variant in range(3 if multi_output else 1):
                tasks, edges = {}, []
                for idx, t in enumerate(ts):
                    outs = ["0"] if variant == 0 or idx % 2 == 1 else (["0", "1"] if variant == 1 else ["0", "1", "2"])
                    tasks[t] = {"outputs": outs, "static_ps": {}, "static_kw": {}}
                for (i, j) in es:
                    src = tasks[ts[i]]["outputs"]
                    o = src[(i + j) % len(src)]
                    if (i + j + variant) % 2 == 0:
                        pos = sum(1 for e in edges if e[2] == ts[j] and isinstance(e[3], int))
                        edges.append((ts[i], o, ts[j], pos))
                    else:
                        edges.append((ts[i], o, ts[j], f"k{i}"))
                for idx, t in enumerate(ts):
                    npos = sum(1 for e in edges if e[2] == t and isinstance(e[3], int))
                    tasks[t]["static_ps"] = {npos: f"s{idx}"}  # a static positional after the edge positions
                    tasks[t]["static_kw"] = {"q": idx}
                yield JobSpec(tasks, edges, [])


def ext_choices(spec: JobSpec, limit=3):
    allds = [(t, o) for t, v in spec.tasks.items() for o in v["outputs"]]
    sinks = [(t, o) for (t, o) in allds if not any(e[0] == t and e[1] == o for e in spec.edges)]
    inner = [(t, o) for (t, o) in allds if (t, o) not in sinks]
    out = [sinks]
    if inner:
        out.append(sinks + inner[:1])
        out.append(inner[:1])
    out.append(allds)
    return out[:limit + 1]


def shared_instance_jobs():
    """jobs in which several task ids are backed by ONE TaskInstance object (as JobBuilder re-use produces) and differ only in
    their edges; the callable's value does not mention the task name, so the reference is computed per task from the spec"""
    out = []
    for kw_first in (True, False):
        tasks = {"src": {"outputs": ["0"], "static_ps": {0: 1}, "static_kw": {}},
                 "p": {"outputs": ["0"], "static_ps": {}, "static_kw": {"y": 0}, "share": "S"},
                 "q": {"outputs": ["0"], "static_ps": {}, "static_kw": {"y": 0}, "share": "S"}}
        edges = [("src", "0", "p", "x"), ("src", "0", "q", "x")]
        edges.append(("src", "0", "p" if kw_first else "q", "z"))
        out.append(JobSpec(tasks, edges, [("p", "0"), ("q", "0")]))
    return out


def wide_output_jobs():
    """a generator task with more than 10 outputs (declared in yield order) and consumers of individual outputs"""
    out = []
    for n in (11, 12):
        outs = [str(i) for i in range(n)]
        tasks = {"g": {"outputs": outs, "static_ps": {}, "static_kw": {}}}
        edges = []
        for i in (0, 2, 9, 10):
            tasks[f"c{i}"] = {"outputs": ["0"], "static_ps": {}, "static_kw": {}}
            edges.append(("g", str(i), f"c{i}", 0))
        out.append(JobSpec(tasks, edges, [(f"c{i}", "0") for i in (0, 2, 9, 10)]))
        # the generator itself consumes a dataset: its input must stay until ALL of its outputs are published
        t2 = {k: dict(v) for k, v in tasks.items()}
        t2["src"] = {"outputs": ["0"], "static_ps": {}, "static_kw": {}}
        out.append(JobSpec(t2, edges + [("src", "0", "g", 0)], [(f"c{i}", "0") for i in (0, 10)]))
    return out


def shaped_jobs():
    """fan-out / fan-in / diamond / chain families up to 6 tasks"""
    out = []
    for k in (2, 3, 4):
        tasks = {"s": {"outputs": ["0"], "static_ps": {}, "static_kw": {}}}
        edges = []
        for i in range(k):
            tasks[f"f{i}"] = {"outputs": ["0"], "static_ps": {}, "static_kw": {}}
            edges.append(("s", "0", f"f{i}", 0))
        out.append(JobSpec(dict(tasks), list(edges), [(f"f{i}", "0") for i in range(k)]))
        t2 = dict(tasks)
        t2["j"] = {"outputs": ["0"], "static_ps": {}, "static_kw": {}}
        e2 = list(edges) + [(f"f{i}", "0", "j", i) for i in range(k)]
        out.append(JobSpec(t2, e2, [("j", "0")]))
        out.append(JobSpec(dict(t2), list(e2), [("j", "0"), ("s", "0")]))
    for n in (3, 5):
        tasks = {f"t{i}": {"outputs": ["0"], "static_ps": {}, "static_kw": {}} for i in range(n)}
        edges = [(f"t{i}", "0", f"t{i+1}", 0) for i in range(n - 1)]
        out.append(JobSpec(tasks, edges, [(f"t{n-1}", "0")]))
        out.append(JobSpec(dict(tasks), list(edges), [(f"t{i}", "0") for i in range(n)]))
    # a task whose value is None (not requested itself): consumed on the same worker and, through shared memory, on other hosts
    tasks = {"n": {"outputs": ["0"], "static_ps": {}, "static_kw": {}, "none": True}}
    edges = []
    for i in range(3):
        tasks[f"c{i}"] = {"outputs": ["0"], "static_ps": {}, "static_kw": {}}
        edges.append(("n", "0", f"c{i}", 0 if i != 1 else "k"))
    out.append(JobSpec(dict(tasks), list(edges), [(f"c{i}", "0") for i in range(3)]))
    # two components + isolated task
    tasks = {k: {"outputs": ["0"], "static_ps": {}, "static_kw": {}} for k in ("a", "b", "c", "d", "iso")}
    out.append(JobSpec(tasks, [("a", "0", "b", 0), ("c", "0", "d", "k")], [("b", "0"), ("d", "0"), ("iso", "0")]))
    out.append(JobSpec({}, [], []))
    return out


def gpu_jobs():
    out = []
    t = lambda gpu=False: {"outputs": ["0"], "static_ps": {}, "static_kw": {}, "gpu": gpu}
    out.append(JobSpec({"g": t(True), "c": t()}, [], [("g", "0"), ("c", "0")]))
    out.append(JobSpec({"c0": t(), "g": t(True), "c1": t()}, [("c0", "0", "g", 0), ("g", "0", "c1", 0)], [("c1", "0")]))
    out.append(JobSpec({"g0": t(True), "g1": t(True), "c": t(), "c2": t()}, [("g0", "0", "c", 0), ("g1", "0", "c", 1)], [("c", "0"), ("c2", "0")]))
    out.append(JobSpec({"g": t(True), "c": t(), "d": t()}, [("g", "0", "d", 0)], [("d", "0"), ("c", "0")]))
    out.append(JobSpec({"g": t(True), "c": t(), "j": t()}, [("g", "0", "j", 0), ("c", "0", "j", 1)], [("j", "0")]))
    out.append(JobSpec({"g": t(True), "c": t(), "c2": t(), "j": t()}, [("g", "0", "j", 0), ("c", "0", "j", 1), ("c2", "0", "j", 2)], [("j", "0")]))
    return out


def random_job(rng, n):
    names = [f"n{i}" for i in range(n)]
    tasks, edges = {}, []
    for i, t in enumerate(names):
        k = rng.choice([1, 1, 1, 2, 3])
        tasks[t] = {"outputs": [str(x) for x in range(k)], "static_ps": {}, "static_kw": {}}
        npos = 0
        for j in range(i):
            if rng.random() < 0.35:
                o = rng.choice(tasks[names[j]]["outputs"])
                if rng.random() < 0.6:
                    edges.append((names[j], o, t, npos))
                    npos += 1
                else:
                    edges.append((names[j], o, t, f"k{j}"))
        if rng.random() < 0.5:
            tasks[t]["static_ps"] = {npos: f"s{i}"}
        if rng.random() < 0.5:
            tasks[t]["static_kw"] = {"q": i}
    allds = [(t, o) for t, v in tasks.items() for o in v["outputs"]]
    ext = [d for d in allds if rng.random() < 0.4] or allds[-1:]
    return JobSpec(tasks, edges, ext)


def replay_case(doc):
    """re-run one recorded (job, environment, schedule) on the current tree; returns the list of (property, obligation, observed) it violates"""
    inp = doc["inputs"]
    j = inp["job"]
    tasks = {}
    for k, v in j["tasks"].items():
        t = {"outputs": list(v["outputs"]), "static_ps": {int(a): b for a, b in v.get("ps", {}).items()}, "static_kw": dict(v.get("kw", {})), "gpu": v.get("gpu", False)}
        if "share" in v:
            t["share"] = v["share"]
        tasks[k] = t
    spec = JobSpec(tasks, [tuple(e) for e in j["edges"]], [tuple(e) for e in j["ext"]])
    gpus = {tuple(g) for g in inp.get("gpus", [])}
    ok, info = run_one(spec, inp["hosts"], inp["workers"], gpus, inp.get("seed", 0), prefix=doc.get("schedule"), fifo=inp.get("fifo", True), lazy=inp.get("lazy", False))
    return [(v["prop"], v["obligation"], v["observed"]) for v in info["all"]]
