"""Shared driver of the C01-C04 bounded exploration (ctrlx).  Each property's check runs the same space and reports only the
violations of its own property."""
import os
import random
import time

from checks import ctrlx

ENVS = [(1, 1), (1, 2), (2, 1), (2, 2)]
GPU_ENVS = [(1, 1, {(0, 0)}), (1, 2, {(0, 0)}), (2, 2, {(0, 0)}), (2, 2, {(0, 0), (1, 1)}), (1, 2, {(0, 0), (0, 1)})]


def explore(out, prop, tier, seed):
    t0 = time.time()
    budget = int(os.environ.get("VERIF_CTRL_BUDGET_S", 0)) or (45 if tier == "quick" else 600)
    runs, nontrivial, failures, samples = 0, 0, [], []
    seen_fail = set()
    schedules = set()

    def one(spec, h, w, g, sd, fifo=True):
        nonlocal runs, nontrivial
        lazy = sd % 2 == 1  # every other schedule uses lazy data servers (commands served as late as possible)
        ok, info = ctrlx.run_one(spec, h, w, g, sd, fifo=fifo, lazy=lazy)
        runs += 1
        sig = (str(info["job"]), h, w, tuple(info.get("schedule", ())))
        if sig not in schedules:
            schedules.add(sig)
            if len(spec.tasks) >= 2 and spec.edges:
                nontrivial += 1
        if len(samples) < 2 and ok and len(spec.tasks) >= 3:
            samples.append({"job": info["job"], "env": [h, w], "schedule": info["schedule"][:40], "rounds": info.get("rounds"), "commands": info.get("commands")})
        for v in info["all"]:
            if v["prop"] != prop:
                continue
            key = (v["obligation"], v["cls"])
            if key not in seen_fail:
                seen_fail.add(key)
                failures.append({"obligation": v["obligation"], "kind": "schedule", "inputs": {"job": v["job"], "hosts": h, "workers": w, "gpus": v["gpus"], "seed": sd, "fifo": fifo, "lazy": lazy},
                                 "schedule": v.get("schedule"), "observed": v["observed"] + " | last commands: " + str(v.get("log")), "class": v["cls"],
                                 "clause": v["obligation"]})
        return ok

    nseeds = 2 if tier == "quick" else 6
    # 1. all DAG shapes up to 3 tasks (quick) / 4 tasks (thorough), every requested-output choice, every small environment
    for spec in ctrlx.small_jobs(3 if tier == "quick" else 4):
        for ext in ctrlx.ext_choices(spec):
            spec.ext = ext
            for (h, w) in ENVS:
                for sd in range(nseeds):
                    one(spec, h, w, set(), seed * 1000 + sd)
        if time.time() - t0 > budget * 0.5:
            break
    # 2. shaped families (fan-out/in, chains, components, >10 outputs, shared TaskInstance objects), bigger environments
    fam = ctrlx.shared_instance_jobs() + ctrlx.wide_output_jobs() + ctrlx.shaped_jobs()
    for spec in fam:
        for (h, w) in ENVS + [(3, 2)]:
            for sd in range(nseeds * 3):
                one(spec, h, w, set(), seed * 1000 + sd)
    for spec in ctrlx.gpu_jobs():
        for (h, w, g) in GPU_ENVS:
            for sd in range(nseeds * 3):
                one(spec, h, w, g, seed * 1000 + sd)
    # 3. seeded random jobs, incl. the adversarial delivery mode in which publications of one host may overtake each other
    rng = random.Random(seed)
    i = 0
    while time.time() - t0 < budget:
        spec = ctrlx.random_job(rng, rng.randint(2, 7 if tier == "quick" else 12))
        h, w = rng.choice([(1, 1), (1, 3), (2, 2), (3, 1), (3, 2)])
        one(spec, h, w, set(), seed * 100000 + i, fifo=(i % 3 != 0))
        i += 1
    out.add_bounded("controller schedules (ctrlx)", "exhaustive job shapes + seeded random schedules",
                    f"all DAG jobs <= {3 if tier == 'quick' else 4} tasks x 3 output/argument layouts x requested-output choices x environments {ENVS} x {nseeds} random event schedules each; "
                    f"shaped families (fan-out/in <= 4, chains <= 5, 2 components + isolated, 11/12-output generator, shared TaskInstance) x 5 environments; GPU jobs x {len(GPU_ENVS)} GPU layouts; "
                    f"random jobs <= {7 if tier == 'quick' else 12} tasks until the time budget ({budget}s); a case is non-trivial if the job has >= 2 tasks and an edge and its (job, env, schedule) is new",
                    runs, nontrivial, time.time() - t0, samples, failures)


ASSUMPTIONS = [
    "executors obey the executor contract implemented by checks/ctrlx.py (deferral until inputs are on the host, in-order publication per task, redundant transfers swallowed)",
    "'unanswered' transfer/fetch is read as 'not yet served by the source data server' (weakest reading under which a racing purge is a hazard)",
    "zmq delivers the messages of one host in order unless a frame is lost and retried; the adversarial mode explores the reordered deliveries too",
    "bounded: job shapes, environments and schedules as stated in coverage.bounded_standins[].bound - nothing beyond is claimed",
]
