"""Bounded stand-in for C18: the real JobRouter / handle_fe / handle_controller driven with every short report history."""
import itertools
import time
from unittest import mock


def run(out, tier, seed):
    import cascade.gateway.router as router
    import cascade.gateway.server as server
    import cascade.gateway.api as api
    import cascade.gateway.client as client
    import cascade.controller.report as report
    from cascade.low.core import DatasetId
    import base64, orjson
    t0 = time.time()
    n = 4 if tier == "quick" else 5
    cases, nontrivial, failures, samples = 0, 0, [], []
    ds = DatasetId("t", "0")
    # alphabet of reports for two jobs: progress with ts, result upload, shutdown, none-progress
    def reports(job):
        return [("P", job, "10.00", 1), ("P", job, "20.00", 2), ("P", job, "30.00", 3), ("R", job, b"x" + job.encode(), 2), ("S", job, None, 4),
                ("PR", job, "25.00", 2)]  # PR: one report carrying BOTH a progress value and a result
    alphabet = reports("j1") + reports("j2")[:3]

    class Sock:
        def __init__(self):
            self.out = []
            self.inbox = []
        def recv(self):
            return self.inbox.pop(0)
        def send(self, b):
            self.out.append(b)
    for hist in itertools.product(alphabet, repeat=n) if tier != "quick" else itertools.product(alphabet, repeat=n):
        cases += 1
        r = router.JobRouter(mock.MagicMock())
        r.jobs["j1"] = router.Job(mock.MagicMock(), report.JobProgressStarted, -1, {})
        r.jobs["j2"] = router.Job(mock.MagicMock(), report.JobProgressStarted, -1, {})
        best = {"j1": (-1, report.JobProgressStarted), "j2": (-1, report.JobProgressStarted)}
        results = {}
        s = Sock()
        for kind, job, val, ts in hist:
            if kind == "P":
                rep = report.ControllerReport(job, val, ts, [])
                if ts > best[job][0]:
                    best[job] = (ts, val)
            elif kind == "R":
                rep = report.ControllerReport(job, None, ts, [(ds, val)])
                results[(job, ds)] = val
            elif kind == "PR":
                rep = report.ControllerReport(job, val, ts, [(ds, b"pr" + job.encode())])
                results[(job, ds)] = b"pr" + job.encode()
                if ts > best[job][0]:
                    best[job] = (ts, val)
            else:
                rep = report.ControllerReport(job, report.JobProgressShutdown, ts, [])
            s.inbox.append(report.serialize(rep))
            server.handle_controller(s, r)
        if len({(k, j) for k, j, _, _ in hist}) > 2:
            nontrivial += 1
        for job in ("j1", "j2"):
            shown = r.progress_of([job])[job]
            # ties between equal timestamps may go either way (the property is silent): accept any value carried by a max-ts report
            maxts = best[job][0]
            ok_vals = {v for k, j, v, ts in hist if k in ("P", "PR") and j == job and ts == maxts} or {report.JobProgressStarted}
            if shown not in ok_vals:
                failures.append({"obligation": "C18/history/newest-progress-shown", "inputs": [list(map(str, h)) for h in hist], "observed": f"{job} shows {shown}, expected one of {sorted(ok_vals)}", "class": "history"})
        for (job, d), val in results.items():
            try:
                got = r.get_result(job, d)
            except KeyError:
                got = "<KeyError: not stored>"
            if got != val:
                failures.append({"obligation": "C18/history/result-as-uploaded", "inputs": [list(map(str, h)) for h in hist], "observed": f"uploaded {val!r} for {job}/{d!r}, gateway returns {got!r}", "class": "history"})
        for job in ("j1", "j2"):
            if (job, ds) not in results:
                s.inbox.append(orjson.dumps({"clazz": "ResultRetrievalRequest", "job_id": job, "dataset_id": {"task": "t", "output": "0"}}))
                try:
                    server.handle_fe(s, r)
                    resp = orjson.loads(s.out[-1])
                except Exception as e:  # noqa - "gets an error response and the gateway keeps serving": an exception escaping handle_fe stops serve()
                    resp = {"escaped": repr(e)}
                if not resp.get("error"):
                    failures.append({"obligation": "C18/history/unknown-dataset-error", "inputs": [list(map(str, h)) for h in hist], "observed": repr(resp), "class": "history"})
        if len(failures) > 5:
            break
    samples.append({"history": [list(map(str, h)) for h in hist]})
    # unknown job: error response, gateway keeps serving
    r = router.JobRouter(mock.MagicMock())
    s = Sock()
    s.inbox.append(orjson.dumps({"clazz": "JobProgressRequest", "job_ids": ["nope"]}))
    try:
        server.handle_fe(s, r)
        answer = s.out[-1].decode()
        bad = not orjson.loads(s.out[-1]).get("error")
    except Exception as e:  # noqa - an exception escaping handle_fe stops serve(): the gateway no longer serves the other jobs
        answer, bad = f"handle_fe raised {e!r}", True
    cases += 1
    if bad:
        failures.append({"obligation": "C18/unknown-job-error", "inputs": "progress of unknown job", "observed": answer, "class": "history"})
    # a result travels controller -> gateway -> front end -> client: what the client's own decoder (gateway.api.decoded_result) makes of the answer of
    # handle_fe must be the value that was uploaded - for payloads covering every byte value (every character of the transfer encoding's alphabet)
    import cloudpickle
    from cascade.gateway import api as gw_api
    values = [bytes(range(256)), b"\xfb\xef\xff" * 7, b"", b"\xff", "text \u00e9", list(range(300)), {"k": b"\xfb\xff\xfe" * 3}, 2 ** 70, None]
    r = router.JobRouter(mock.MagicMock())
    r.jobs["jr"] = router.Job(mock.MagicMock(), report.JobProgressStarted, -1, {})
    for i, v in enumerate(values):
        cases += 1
        d = DatasetId("t", str(i))
        s = Sock()
        try:
            s.inbox.append(report.serialize(report.ControllerReport("jr", None, 10 + i, [(d, cloudpickle.dumps(v))])))
            server.handle_controller(s, r)
            s.inbox.append(orjson.dumps({"clazz": "ResultRetrievalRequest", "job_id": "jr", "dataset_id": {"task": "t", "output": str(i)}}))
            server.handle_fe(s, r)
            resp = gw_api.parse_response(s.out[-1]) if hasattr(gw_api, "parse_response") else gw_api.ResultRetrievalResponse(**orjson.loads(s.out[-1]))
            got = gw_api.decoded_result(resp, None)
            if resp.error or got != v or type(got) is not type(v):
                failures.append({"obligation": "C18/result-through-front-end-as-uploaded", "inputs": f"value #{i}: {v!r:.80}", "observed": f"client decodes {got!r:.120} (error field: {resp.error!r})", "class": "history"})
        except Exception as e:  # noqa
            failures.append({"obligation": "C18/result-through-front-end-as-uploaded", "inputs": f"value #{i}: {v!r:.80}", "observed": f"{type(e).__name__}: {e}", "class": "history"})
    # job identifiers are never reused - also when the id source repeats itself (real uuid.UUID objects, as uuid.uuid4 returns them)
    import uuid as _uuid
    ids = [_uuid.UUID(int=1), _uuid.UUID(int=1), _uuid.UUID(int=1), _uuid.UUID(int=2), _uuid.UUID(int=3)]
    saved = (router.uuid.uuid4, router.get_context, router.getfqdn, router._spawn_subprocess)
    it = iter(ids)
    router.uuid.uuid4 = lambda: next(it)
    router.get_context = lambda: mock.MagicMock()
    router.getfqdn = lambda: "gw"
    router._spawn_subprocess = lambda spec, addr, job_id: None
    try:
        r = router.JobRouter(mock.MagicMock())
        a = r.spawn_job(mock.MagicMock())
        s = Sock()
        s.inbox.append(report.serialize(report.ControllerReport(a, "50.00", 5, [(ds, b"payload-a")])))
        server.handle_controller(s, r)
        b = r.spawn_job(mock.MagicMock())   # the id source repeats the first id twice before giving a new one
        cases += 1
        if a == b or len(r.jobs) != 2:
            failures.append({"obligation": "C18/job-ids-never-reused", "inputs": "uuid source yields the same UUID again", "observed": f"ids {a!r}, {b!r}; jobs known: {len(r.jobs)}", "class": "history"})
        elif r.progress_of([a])[a] != "50.00" or r.get_result(a, ds) != b"payload-a":
            failures.append({"obligation": "C18/job-ids-never-reused", "inputs": "uuid source yields the same UUID again", "observed": "the first job's progress / result changed when a second job was submitted", "class": "history"})
    except Exception as e:  # noqa
        failures.append({"obligation": "C18/job-ids-never-reused", "inputs": "uuid source yields the same UUID again", "observed": f"{type(e).__name__}: {e}", "class": "history"})
    finally:
        router.uuid.uuid4, router.get_context, router.getfqdn, router._spawn_subprocess = saved
    out.add_bounded("gateway report histories", "exhaustive enumeration", f"all sequences of {n} reports over an alphabet of {len(alphabet)} (2 jobs, 3 timestamps, result, shutdown) through the real handle_controller/handle_fe",
                    cases, nontrivial, time.time() - t0, samples, failures)
